#!/usr/bin/env python3
"""Write sa/pinned_attrs.json: for every class of the reference tree the attribute names its code uses on self / cls (slots, instance attributes,
class-level names) with a usage signature, and for every module its top-level assigned names with the functions that mention them.
The engine uses it to recognise a *renamed* private attribute / module variable (same signature, other name)."""
import ast, json, os, sys
V = os.path.dirname(os.path.dirname(os.path.abspath(__file__)))
sys.path.insert(0, V)
from sa.attrsig import class_signatures, module_signatures
root = sys.argv[1] if len(sys.argv) > 1 else '/repo'
out = {'classes': {}, 'modules': {}}
for dp, dn, fn in os.walk(os.path.join(root, 'ombott')):
    dn[:] = sorted(d for d in dn if d != '__pycache__')
    for f in sorted(fn):
        if not f.endswith('.py'):
            continue
        p = os.path.join(dp, f)
        rel = os.path.relpath(p, root)
        mod = rel[:-3].replace(os.sep, '.')
        if mod.endswith('.__init__'):
            mod = mod[:-9]
        tree = ast.parse(open(p).read())
        for cname, sig in class_signatures(tree).items():
            out['classes'][f'{mod}:{cname}'] = sig
        out['modules'][mod] = module_signatures(tree)
json.dump(out, open(os.path.join(V, 'sa', 'pinned_attrs.json'), 'w'), indent=0, sort_keys=True)
print(len(out['classes']), 'classes', sum(len(v) for v in out['classes'].values()), 'attributes;', sum(len(v) for v in out['modules'].values()), 'module names')
