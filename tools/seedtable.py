#!/usr/bin/env python3
"""Regenerate /verif/seeded/README.md: one line per seeded change with the checks that report it (re-run on scratch copies)."""
import glob, json, os, sys
V = os.path.dirname(os.path.dirname(os.path.abspath(__file__)))
sys.path.insert(0, os.path.join(V, 'tools'))
import seedtest, shutil, concurrent.futures as cf

def one(d):
    patch = os.path.join(d, 'patch.diff')
    meta = json.load(open(os.path.join(d, 'meta.json')))
    try:
        tmp = seedtest.make_scratch(patch)
    except SystemExit:
        return d, meta, None
    res = {}
    try:
        for pid in seedtest.implemented():
            rc, out = seedtest.run_check(pid, tmp)
            if rc != 0:
                first = [l.strip() for l in out.splitlines() if l.strip().startswith('violated')]
                res[pid] = (rc, first[0] if first else '')
    finally:
        shutil.rmtree(tmp, ignore_errors=True)
    return d, meta, res

dirs = sorted(glob.glob(os.path.join(V, 'seeded', '*/')))
rows = []
with cf.ThreadPoolExecutor(12) as ex:
    for d, meta, res in ex.map(one, [x.rstrip('/') for x in dirs]):
        name = os.path.basename(d)
        own = meta.get('breaks_property')
        own = ','.join(own) if isinstance(own, list) else (own or '')
        if res is None:
            rows.append(f'| {name} | {own} | (patch does not apply on the current tree: superseded by a later fix) | | |')
            continue
        caught = [k for k, v in res.items() if v[0] == 1]
        rule = ''
        for k in caught:
            if k in own.split(',') or not rule:
                txt = res[k][1]
                rule = txt.split(' ')[1] if txt else ''
                if k in own.split(','):
                    break
        summ = (meta.get('summary') or meta.get('subject') or '').replace('|', '/').replace('\n', ' ')[:160]
        needs = (meta.get('needs') or '').replace('|', '/').replace('\n', ' ')[:110]
        rows.append(f'| {name} | {own} | {summ} | {needs} | {", ".join(caught)} ({rule}) |')
        meta['detected_by'] = caught
        json.dump(meta, open(os.path.join(d, 'meta.json'), 'w'), indent=1)
with open(os.path.join(V, 'seeded', 'README.md'), 'w') as f:
    f.write('# Seeded changes\n\nEach directory holds `patch.diff` (applies to /repo with `git -C /repo apply`), `demo.py` (exit 0 on the clean tree, 1 with the patch) and `meta.json`.\n'
            '`<ID>-mN` = round 1, `<ID>-r2mN` = round 2 (independent sub-agents given only the property text); `revert-<commit>` = a `fix:` commit reverted.\n'
            'Regenerate with `tools/seedtable.py`; the thorough tier of each check re-runs the patches of its property on scratch copies.\n\n'
            '| seed | breaks | change | needs to manifest | reported by (first rule of the own check) |\n|---|---|---|---|---|\n' + '\n'.join(rows) + '\n')
print(len(rows))
