#!/usr/bin/env python3
"""Re-verify the archived seeds against the *current* /repo: demo passes clean, fails with the patch, suite green with the patch, own check fires."""
import glob, json, os, shutil, subprocess, sys, concurrent.futures as cf
V = os.path.dirname(os.path.dirname(os.path.abspath(__file__)))
sys.path.insert(0, os.path.join(V, 'tools'))
import seedtest
def one(d):
    demo = os.path.join(d, 'demo.py'); patch = os.path.join(d, 'patch.diff')
    meta = json.load(open(os.path.join(d, 'meta.json')))
    own = meta.get('breaks_property'); own = own if isinstance(own, list) else [own]
    try:
        tmp = seedtest.make_scratch(patch, with_tests=True)
    except SystemExit:
        return d, 'DOES-NOT-APPLY'
    try:
        msgs = []
        r = subprocess.run(['/venv/bin/python', '-B', '-m', 'pytest', '-q', '-p', 'no:cacheprovider'], cwd=tmp, capture_output=True, text=True, timeout=900)
        if '82 passed' not in r.stdout: msgs.append('tests:' + (r.stdout.strip().splitlines() or ['?'])[-1])
        if os.path.exists(demo):
            r0 = subprocess.run(['/venv/bin/python', '-B', demo, '/repo'], capture_output=True, text=True, timeout=900)
            r1 = subprocess.run(['/venv/bin/python', '-B', demo, tmp], capture_output=True, text=True, timeout=900)
            if r0.returncode != 0: msgs.append(f'demo-clean rc={r0.returncode}')
            if r1.returncode == 0: msgs.append('demo-mutated rc=0')
        caught = [p for p in own if p and seedtest.run_check(p, tmp)[0] == 1]
        if not caught: msgs.append('own check silent')
        return d, '; '.join(msgs) or 'ok'
    finally:
        shutil.rmtree(tmp, ignore_errors=True)
dirs = sorted(x.rstrip('/') for x in glob.glob(os.path.join(V, 'seeded', '*/')))
bad = 0
with cf.ThreadPoolExecutor(10) as ex:
    for d, res in ex.map(one, dirs):
        if res != 'ok':
            bad += 1; print(os.path.basename(d), res)
print('checked', len(dirs), 'problems', bad)
