#!/usr/bin/env python3
"""Verify every seed under a directory (patch applies, suite green with it, demo passes clean / fails mutated, own check
fires) and copy the confirmed ones to /verif/seeded/<PROP>-<mN>/ with an extended meta.json."""
import glob, json, os, shutil, subprocess, sys, concurrent.futures as cf
V = os.path.dirname(os.path.dirname(os.path.abspath(__file__)))
sys.path.insert(0, os.path.join(V, 'tools'))
import seedtest

def one(d):
    patch = os.path.join(d, 'patch.rebased.diff')
    if not os.path.exists(patch):
        patch = os.path.join(d, 'patch.diff')
    meta = json.load(open(os.path.join(d, 'meta.json')))
    own = meta.get('property')
    out = dict(dir=d, own=own)
    try:
        tmp = seedtest.make_scratch(patch, with_tests=True)
    except SystemExit as e:
        out['error'] = 'patch does not apply'; return out
    try:
        r = subprocess.run(['/venv/bin/python', '-B', '-m', 'pytest', '-q', '-p', 'no:cacheprovider'], cwd=tmp, capture_output=True, text=True, timeout=900)
        out['tests'] = (r.stdout.strip().splitlines() or ['?'])[-1]
        out['tests_ok'] = r.returncode == 0 and '82 passed' in out['tests']
        demo = os.path.join(d, 'demo.py')
        r0 = subprocess.run(['/venv/bin/python', '-B', demo, '/repo'], capture_output=True, text=True, timeout=900)
        r1 = subprocess.run(['/venv/bin/python', '-B', demo, tmp], capture_output=True, text=True, timeout=900)
        out['demo_clean_rc'], out['demo_mutated_rc'] = r0.returncode, r1.returncode
        out['demo_msg'] = ((r1.stdout + r1.stderr).strip().splitlines() or [''])[-1][:300]
        res = {}
        for pid in seedtest.implemented():
            rc, o = seedtest.run_check(pid, tmp)
            if rc != 0:
                res[pid] = dict(rc=rc, lines=[l.strip()[:300] for l in o.splitlines() if l.strip().startswith(('violated', 'ANALYSIS-ERROR'))][:4])
        out['checks'] = res
    finally:
        shutil.rmtree(tmp, ignore_errors=True)
    out['patch'] = patch
    return out

def main():
    root = sys.argv[1]
    tag = sys.argv[2] if len(sys.argv) > 2 else ''
    dirs = sorted(d for d in glob.glob(os.path.join(root, 'C*', 'm*')) if os.path.exists(os.path.join(d, 'meta.json')))
    good = 0
    with cf.ThreadPoolExecutor(10) as ex:
        for o in ex.map(one, dirs):
            ok = not o.get('error') and o.get('tests_ok') and o.get('demo_clean_rc') == 0 and o.get('demo_mutated_rc') not in (0, None)
            caught = [k for k, v in o.get('checks', {}).items() if v['rc'] == 1]
            print(('CONFIRMED' if ok else 'REJECTED '), o['dir'], o.get('tests'), 'demo', o.get('demo_clean_rc'), o.get('demo_mutated_rc'), 'caught_by', caught, o.get('error', ''))
            if not ok:
                continue
            good += 1
            name = f"{o['own']}-{tag}{os.path.basename(o['dir'])}"
            dst = os.path.join(V, 'seeded', name)
            os.makedirs(dst, exist_ok=True)
            shutil.copy(o['patch'], os.path.join(dst, 'patch.diff'))
            shutil.copy(os.path.join(o['dir'], 'demo.py'), os.path.join(dst, 'demo.py'))
            meta = json.load(open(os.path.join(o['dir'], 'meta.json')))
            meta.update(dict(
                breaks_property=o['own'], origin='independent sub-agent given only the property text and a scratch worktree',
                rebased=o['patch'].endswith('rebased.diff'),
                confirmed=dict(ran=['patch -p1 on a scratch copy of /repo/ombott + tests', '/venv/bin/python -m pytest -q -p no:cacheprovider (scratch copy)',
                                    'demo.py /repo', 'demo.py <scratch copy>', './check <every id> --root <scratch copy>'],
                               tests=o['tests'], demo_clean_rc=o['demo_clean_rc'], demo_mutated_rc=o['demo_mutated_rc'], demo_last_line=o['demo_msg']),
                detected_by=caught, reports=o['checks']))
            json.dump(meta, open(os.path.join(dst, 'meta.json'), 'w'), indent=1)
    print('confirmed', good, 'of', len(dirs))
main()
