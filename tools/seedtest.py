#!/usr/bin/env python3
"""Apply a seeded patch to a scratch copy of /repo and run checks against it.

usage: tools/seedtest.py <seed dir or patch> [--ids C04,C05 | --all] [--demo] [--tests] [-v]
The scratch copy lives under /var/tmp and is removed afterwards.  /repo is never touched.
"""
import argparse
import json
import os
import shutil
import subprocess
import sys
import tempfile

VERIF = os.path.dirname(os.path.dirname(os.path.abspath(__file__)))


def implemented():
    d = os.path.join(VERIF, 'sa', 'props')
    return sorted(f[:-3].upper() for f in os.listdir(d) if f.startswith('c') and f.endswith('.py') and f[1:3].isdigit())


def make_scratch(patch, repo='/repo', with_tests=False):
    tmp = tempfile.mkdtemp(prefix='ombott-sa.', dir='/var/tmp')
    shutil.copytree(os.path.join(repo, 'ombott'), os.path.join(tmp, 'ombott'),
                    ignore=shutil.ignore_patterns('__pycache__'))
    if with_tests:
        shutil.copytree(os.path.join(repo, 'tests'), os.path.join(tmp, 'tests'),
                        ignore=shutil.ignore_patterns('__pycache__'))
    if patch:
        r = subprocess.run(['patch', '-p1', '-s', '--no-backup-if-mismatch', '-d', tmp, '-i', os.path.abspath(patch)],
                           capture_output=True, text=True)
        if r.returncode != 0:
            shutil.rmtree(tmp, ignore_errors=True)
            raise SystemExit(f'patch does not apply: {patch}\n{r.stdout}{r.stderr}')
    return tmp


def run_check(pid, root, tier='quick'):
    env = dict(os.environ, SA_NO_EVIDENCE='1')
    r = subprocess.run([os.path.join(VERIF, 'check'), pid, '--root', root, '--tier', tier], capture_output=True, text=True, env=env)
    return r.returncode, r.stdout + r.stderr


def main():
    ap = argparse.ArgumentParser()
    ap.add_argument('seed')
    ap.add_argument('--ids', default=None)
    ap.add_argument('--all', action='store_true')
    ap.add_argument('--demo', action='store_true')
    ap.add_argument('--tests', action='store_true')
    ap.add_argument('-v', action='store_true')
    a = ap.parse_args()
    seed = a.seed
    patch = os.path.join(seed, 'patch.diff') if os.path.isdir(seed) else seed
    meta = {}
    mp = os.path.join(os.path.dirname(patch), 'meta.json')
    if os.path.exists(mp):
        try:
            meta = json.load(open(mp))
        except Exception:
            meta = {}
    own = meta.get('property')
    if a.all:
        ids = implemented()
    elif a.ids:
        ids = a.ids.split(',')
    else:
        ids = [own] if own else implemented()
    tmp = make_scratch(patch, with_tests=a.tests)
    status = 0
    try:
        caught = []
        for pid in ids:
            if pid not in implemented():
                print(f'{pid}: not implemented')
                continue
            rc, out = run_check(pid, tmp)
            lines = [l for l in out.splitlines() if l.strip().startswith(('violated', 'VIOLATION', 'ANALYSIS-ERROR'))]
            tag = {0: 'silent', 1: 'CAUGHT', 2: 'ANALYSIS-ERROR'}.get(rc, f'rc={rc}')
            if rc == 1:
                caught.append(pid)
            if rc != 0 or a.v:
                print(f'  {pid}: {tag}')
                for l in lines[:6]:
                    print('     ' + l.strip()[:260])
        print(f'{seed}: own={own} caught_by={caught or "NONE"}')
        if a.demo:
            demo = os.path.join(os.path.dirname(patch), 'demo.py')
            r0 = subprocess.run(['/venv/bin/python', '-B', demo, '/repo'], capture_output=True, text=True, timeout=600)
            r1 = subprocess.run(['/venv/bin/python', '-B', demo, tmp], capture_output=True, text=True, timeout=600)
            print(f'  demo: clean rc={r0.returncode} mutated rc={r1.returncode}  {(r1.stdout + r1.stderr).strip().splitlines()[-1:]}')
            if r0.returncode != 0 or r1.returncode == 0:
                status = 3
        if a.tests:
            r = subprocess.run(['/venv/bin/python', '-B', '-m', 'pytest', '-q', '-p', 'no:cacheprovider', '-x'], cwd=tmp,
                               capture_output=True, text=True, timeout=900)
            print('  tests:', r.stdout.strip().splitlines()[-1:])
            if r.returncode != 0:
                status = 4
    finally:
        shutil.rmtree(tmp, ignore_errors=True)
    return status


if __name__ == '__main__':
    sys.exit(main())
