#!/bin/sh
# usage: tools/bn.sh C01/b1 C01 [more check ids]  -- run checks verbosely against a benign scratch copy under /var/tmp/bn
d=/var/tmp/${BN:-bn}/$1; shift
for id in "$@"; do SA_NO_EVIDENCE=1 SA_NO_BATTERY=1 /venv/bin/python -B -m sa.run $id --root $d 2>&1 | grep -v "^WARNING conda"; done
