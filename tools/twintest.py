#!/usr/bin/env python3
"""For each benign twin kind: build it, run the repository test suite on it (must be green), run every check (must be silent)."""
import os, shutil, subprocess, sys
V = os.path.dirname(os.path.dirname(os.path.abspath(__file__)))
sys.path.insert(0, V)
from sa import battery as B
kinds = sys.argv[1:] or list(B.TWINS)
ids = sorted(f[:-3].upper() for f in os.listdir(os.path.join(V, 'sa', 'props')) if f[0] == 'c' and f[1:3].isdigit())
for kind in kinds:
    tmp = B.make_twin('/repo', kind)
    try:
        shutil.copytree('/repo/tests', os.path.join(tmp, 'tests'), ignore=shutil.ignore_patterns('__pycache__'))
        r = subprocess.run(['/venv/bin/python', '-B', '-m', 'pytest', '-q', '-p', 'no:cacheprovider'], cwd=tmp, capture_output=True, text=True)
        print(f'== twin {kind}: tests {(r.stdout.strip().splitlines() or ["?"])[-1]}')
        for pid in ids:
            rc, lines = B.run_check(pid, tmp)
            if rc != 0:
                print(f'   {pid}: rc={rc}')
                for l in lines[:4]:
                    print('      ' + l[:230])
    finally:
        shutil.rmtree(tmp, ignore_errors=True)
