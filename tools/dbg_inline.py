import sys, ast
sys.path.insert(0,'/verif')
from sa.loader import Project
P=Project(sys.argv[1])
print(P.inline_log)
if len(sys.argv)>2:
    f=P.funcs[sys.argv[2]]
    print(ast.unparse(f.node))
