#!/usr/bin/env python3
"""Confirm behaviour-preserving refactoring patches produced by sub-agents and archive them under /verif/benign/<id>/.

For every <dir>/<Cxx>/b<N>/ (patch.diff, demo.py, meta.json):
  * the patch applies to a scratch copy of /repo (package + tests) made under /var/tmp,
  * the unedited test suite passes on the patched copy (82 passed),
  * demo.py exits 0 on the patched copy AND on the unpatched /repo (what the author offers as evidence of equivalence),
  * every check is run on the patched copy; the outcome (silent / VIOLATION / ANALYSIS-ERROR per check) is recorded.
Kept entries get meta.json["confirmed"] and are copied to /verif/benign/<Cxx>-b<N>/.  /repo is never modified.
usage: tools/verifybenign.py <dir> [--jobs N] [--no-archive] [--tag r4]
"""
import concurrent.futures as cf
import glob
import json
import os
import shutil
import subprocess
import sys

V = os.path.dirname(os.path.dirname(os.path.abspath(__file__)))
sys.path.insert(0, os.path.join(V, 'tools'))
import seedtest  # noqa: E402

PY = '/venv/bin/python'


def run(cmd, cwd=None, timeout=900):
    try:
        r = subprocess.run(cmd, cwd=cwd, capture_output=True, text=True, timeout=timeout)
        return r.returncode, (r.stdout + r.stderr)
    except subprocess.TimeoutExpired:
        return 124, 'timeout'


def one(d):
    patch = os.path.join(d, 'patch.diff')
    demo = os.path.join(d, 'demo.py')
    res = dict(dir=d, ok=False)
    try:
        tmp = seedtest.make_scratch(patch, with_tests=True)
    except SystemExit as e:
        res['why'] = 'patch does not apply'
        return res
    try:
        for extra in ('setup.py', 'setup.cfg', 'pyproject.toml', 'pytest.ini', 'tox.ini', 'conftest.py', 'README.md'):
            p = os.path.join('/repo', extra)
            if os.path.exists(p):
                shutil.copy(p, tmp)
        rc, out = run([PY, '-B', '-m', 'pytest', '-q', '-p', 'no:cacheprovider'], cwd=tmp)
        last = [l for l in out.splitlines() if l.strip()][-1] if out.strip() else ''
        res['tests'] = last
        if rc != 0 or '82 passed' not in last:
            res['why'] = f'tests: {last}'
            return res
        rc_p, out_p = run([PY, '-B', demo, tmp])
        rc_c, out_c = run([PY, '-B', demo, '/repo'])
        res['demo_patched_rc'], res['demo_clean_rc'] = rc_p, rc_c
        if rc_p != 0 or rc_c != 0:
            res['why'] = f'demo rc patched={rc_p} clean={rc_c}: {(out_p if rc_p else out_c).strip().splitlines()[-1:]}'
            return res
        checks = {}
        for pid in seedtest.implemented():
            rc, out = seedtest.run_check(pid, tmp)
            if rc != 0:
                checks[pid] = {1: 'VIOLATION', 2: 'ANALYSIS-ERROR'}.get(rc, f'rc={rc}')
        res['checks_not_silent'] = checks
        res['ok'] = True
        return res
    finally:
        shutil.rmtree(tmp, ignore_errors=True)


def main():
    root = sys.argv[1]
    jobs = 8
    if '--jobs' in sys.argv:
        jobs = int(sys.argv[sys.argv.index('--jobs') + 1])
    archive = '--no-archive' not in sys.argv
    tag = sys.argv[sys.argv.index('--tag') + 1] if '--tag' in sys.argv else ''
    dirs = sorted(os.path.dirname(p) for p in glob.glob(os.path.join(root, '*', 'b*', 'patch.diff')))
    kept = 0
    with cf.ThreadPoolExecutor(jobs) as ex:
        for res in ex.map(one, dirs):
            d = res['dir']
            name = f'{os.path.basename(os.path.dirname(d))}-{tag}{os.path.basename(d)}'
            if not res['ok']:
                print(f'REJECT {name}: {res.get("why")}')
                continue
            kept += 1
            print(f'keep   {name}: tests {res["tests"]}; demo 0/0; checks not silent: {res["checks_not_silent"] or "none"}')
            if archive:
                dst = os.path.join(V, 'benign', name)
                os.makedirs(dst, exist_ok=True)
                for fn in ('patch.diff', 'demo.py'):
                    shutil.copy(os.path.join(d, fn), os.path.join(dst, fn))
                try:
                    meta = json.load(open(os.path.join(d, 'meta.json')))
                except Exception:
                    meta = {}
                meta['behaviour_preserving'] = True
                meta['origin'] = 'independent sub-agent given only the property text and a scratch worktree'
                meta['confirmed'] = dict(tests=res['tests'], demo_clean_rc=0, demo_patched_rc=0,
                                         ran=['patch -p1 on a scratch copy of /repo (package + tests)', 'pytest -q -p no:cacheprovider (scratch copy)',
                                              'demo.py <scratch copy>', 'demo.py /repo', './check <every id> --root <scratch copy>'])
                meta['expected'] = 'every check silent (exit 0)' if not res['checks_not_silent'] else \
                    f'undecided (exit 2, never a VIOLATION) for {sorted(res["checks_not_silent"])}: the refactoring changes a data representation no recogniser covers'
                with open(os.path.join(dst, 'meta.json'), 'w') as f:
                    json.dump(meta, f, indent=1)
    print(f'{kept} of {len(dirs)} kept')


if __name__ == '__main__':
    main()
