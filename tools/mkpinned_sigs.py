#!/usr/bin/env python3
"""Write sa/pinned_signatures.json: the parameter list of every top-level function and every method of the reference tree as [name, kind] pairs
(kind: pos | kwonly | vararg | kwarg).  The engine uses it to undo a reordered / re-kinded signature of a private function (sa/inline.py: undo_signature_changes)."""
import ast, json, os, sys
V = os.path.dirname(os.path.dirname(os.path.abspath(__file__)))
root = sys.argv[1] if len(sys.argv) > 1 else '/repo'
out = {}


def sig(fn):
    a = fn.args
    r = [[x.arg, 'pos'] for x in a.posonlyargs + a.args]
    if a.vararg:
        r.append([a.vararg.arg, 'vararg'])
    r += [[x.arg, 'kwonly'] for x in a.kwonlyargs]
    if a.kwarg:
        r.append([a.kwarg.arg, 'kwarg'])
    return r


for dp, dn, fn in os.walk(os.path.join(root, 'ombott')):
    dn[:] = sorted(d for d in dn if d != '__pycache__')
    for f in sorted(fn):
        if not f.endswith('.py'):
            continue
        p = os.path.join(dp, f)
        rel = os.path.relpath(p, root)
        mod = rel[:-3].replace(os.sep, '.')
        if mod.endswith('.__init__'):
            mod = mod[:-9]
        tree = ast.parse(open(p).read())
        for st in tree.body:
            if isinstance(st, ast.FunctionDef):
                out.setdefault(f'{mod}:{st.name}', sig(st))
            elif isinstance(st, ast.ClassDef):
                for s2 in st.body:
                    if isinstance(s2, ast.FunctionDef) and f'{mod}:{st.name}.{s2.name}' not in out:
                        out[f'{mod}:{st.name}.{s2.name}'] = sig(s2)
json.dump(out, open(os.path.join(V, 'sa', 'pinned_signatures.json'), 'w'), indent=0, sort_keys=True)
print(len(out), 'signatures')
