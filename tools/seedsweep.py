#!/usr/bin/env python3
"""Run every check against every seeded patch (scratch copies, parallel). Prints a matrix line per seed.
usage: tools/seedsweep.py <dir with */m*/patch.diff or *.diff> [--jobs N]"""
import glob, json, os, subprocess, sys, concurrent.futures as cf
V = os.path.dirname(os.path.dirname(os.path.abspath(__file__)))
sys.path.insert(0, os.path.join(V, 'tools'))
import seedtest

def one(patch):
    own = None
    mp = os.path.join(os.path.dirname(patch), 'meta.json')
    if os.path.exists(mp):
        try:
            _m = json.load(open(mp)); own = _m.get('breaks_property') or _m.get('property')
            own = own[0] if isinstance(own, list) else own
        except Exception: pass
    alt = os.path.join(os.path.dirname(patch), 'patch.rebased.diff')
    if os.path.basename(patch) == 'patch.diff' and os.path.exists(alt):
        patch = alt
    try:
        tmp = seedtest.make_scratch(patch)
    except SystemExit as e:
        return patch, own, None, str(e).splitlines()[0]
    res = {}
    try:
        for pid in seedtest.implemented():
            rc, out = seedtest.run_check(pid, tmp)
            res[pid] = rc
    finally:
        import shutil; shutil.rmtree(tmp, ignore_errors=True)
    return patch, own, res, ''

def main():
    root = sys.argv[1]
    patches = sorted(glob.glob(os.path.join(root, '*', 'm*', 'patch.diff')) + glob.glob(os.path.join(root, '*.diff')) + glob.glob(os.path.join(root, '*', 'patch.diff')))
    jobs = 12
    miss = []
    with cf.ThreadPoolExecutor(jobs) as ex:
        for patch, own, res, err in ex.map(one, patches):
            if res is None:
                print(f'{patch}: DOES-NOT-APPLY {err}'); continue
            caught = [k for k, v in res.items() if v == 1]
            errs = [k for k, v in res.items() if v == 2]
            tag = 'ok  ' if (own in caught or (own is None and caught)) else 'MISS'
            if tag == 'MISS': miss.append(patch)
            print(f'{tag} {patch.replace(root, "")}: own={own} caught={caught} analysis_error={errs}')
    print('missed:', miss)
main()
