#!/usr/bin/env python3
"""Manual helper (never run by a check): append the violations of replay/<ID>.json to known_findings.json as kind=known.
usage: tools/addknown.py C12 "why not fixed" [rule-filter]"""
import json, os, sys
V = os.path.dirname(os.path.dirname(os.path.abspath(__file__)))
pid, why = sys.argv[1], sys.argv[2]
flt = sys.argv[3] if len(sys.argv) > 3 else None
kf = json.load(open(os.path.join(V, 'known_findings.json')))
rp = json.load(open(os.path.join(V, 'replay', pid + '.json')))
have = {e.get('key') for e in kf['findings']}
n = 0
for v in rp['violations']:
    if flt and v['rule'] != flt:
        continue
    if v['key'] in have:
        continue
    kf['findings'].append(dict(kind='known', property=pid, key=v['key'],
                               what=f"{v['text']} in {v['function']}: {v['detail']}", why_not_fixed=why))
    n += 1
json.dump(kf, open(os.path.join(V, 'known_findings.json'), 'w'), indent=1)
print('added', n)
