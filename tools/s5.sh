#!/bin/sh
# usage: tools/s5.sh C01/m1 C01 [more check ids]  -- run checks verbosely against a mutant scratch copy under /var/tmp/s5
d=/var/tmp/${S5:-s9}/$1; shift
for id in "$@"; do SA_NO_EVIDENCE=1 SA_NO_BATTERY=1 /venv/bin/python -B -m sa.run $id --root $d 2>&1 | grep -v "^WARNING conda"; done
