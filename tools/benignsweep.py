#!/usr/bin/env python3
"""Run every check against every benign refactoring patch: expected silent. usage: tools/benignsweep.py <dir with */b*/patch.diff>"""
import glob, json, os, sys, shutil, concurrent.futures as cf
V = os.path.dirname(os.path.dirname(os.path.abspath(__file__)))
sys.path.insert(0, os.path.join(V, 'tools'))
import seedtest
def one(patch):
    try:
        tmp = seedtest.make_scratch(patch)
    except SystemExit as e:
        return patch, None
    res = {}
    try:
        for pid in seedtest.implemented():
            rc, out = seedtest.run_check(pid, tmp)
            if rc != 0:
                res[pid] = (rc, [l.strip()[:300] for l in out.splitlines() if l.strip().startswith(('violated', 'ANALYSIS-ERROR'))][:3])
    finally:
        shutil.rmtree(tmp, ignore_errors=True)
    return patch, res
root = sys.argv[1]
patches = sorted(glob.glob(os.path.join(root, '*', 'b*', 'patch.diff')) + glob.glob(os.path.join(root, 'b*', 'patch.diff')) + glob.glob(os.path.join(root, 'C*-*b[0-9]*', 'patch.diff')))
fa = und = 0
with cf.ThreadPoolExecutor(12) as ex:
    for patch, res in ex.map(one, patches):
        name = patch.replace(root, '').replace('/patch.diff', '')
        if res is None:
            print(f'{name}: DOES-NOT-APPLY'); continue
        if not res:
            print(f'{name}: silent'); continue
        for pid, (rc, lines) in res.items():
            tag = 'FALSE-ALARM' if rc == 1 else 'UNDECIDED'
            fa += rc == 1; und += rc == 2
            print(f'{name}: {tag} {pid}')
            for l in lines: print('      ' + l)
print('patches', len(patches), 'false alarms', fa, 'undecided', und)
