#!/usr/bin/env python3
"""Regenerate /verif/MANIFEST.json from the property modules that exist under sa/props.

Every implemented module provides ID, DECIDED, NOT_DECIDED, ASSUMPTIONS and optionally TECHNIQUE.
Properties without a module are listed under not_applicable with the reason from PENDING / NA below.
"""
import importlib
import json
import os
import sys

VERIF = os.path.dirname(os.path.dirname(os.path.abspath(__file__)))
sys.path.insert(0, VERIF)

NA = {
    # property id -> reason (only for properties that are *not claimed*)
}


def main():
    props = [json.loads(l) for l in open(os.path.join(VERIF, 'properties.jsonl'))]
    checks = []
    na = []
    engines_props = []
    for p in props:
        pid = p['id']
        path = os.path.join(VERIF, 'sa', 'props', pid.lower() + '.py')
        if not os.path.exists(path):
            na.append(dict(property_id=pid, reason=NA.get(pid, 'no static rule built for this property yet; not claimed')))
            continue
        m = importlib.import_module(f'sa.props.{pid.lower()}')
        engines_props.append(pid)
        decided = ' '.join(m.DECIDED.split())
        notdec = ' '.join(m.NOT_DECIDED.split())
        checks.append(dict(
            property_id=pid,
            quick_cmd=f'./check {pid} --tier quick',
            thorough_cmd=f'./check {pid} --tier thorough',
            evidence_file=f'/verif/evidence/{pid}.json',
            replay_cmd_template=f'./check {pid} --replay {{path}}',
            engine='sa',
            level_claimed=dict(
                category='other',
                text=('Static analysis (no execution of /repo): the structural clauses listed here are decided on every '
                      'path of the anchored functions of the current source; each is a necessary condition of the '
                      'property with a stated failing-input argument. Decided: ' + decided +
                      ' Not decided by this family: ' + notdec),
                design_ref=f'DESIGN.md section 5, {pid}'),
            level_note='Trusted: CPython ast parses the code as the interpreter does; the rule implementations in /verif/sa; ' +
                       '; '.join(getattr(m, 'ASSUMPTIONS', [])),
            technique=getattr(m, 'TECHNIQUE', 'repository-specific AST/CFG/dataflow rules (dominators, reaching definitions, '
                                              'derivation closure, sibling cross-check)'),
        ))
    manifest = dict(
        version=1,
        setup_cmd='/venv/bin/python -B -c "import ast,sys; sys.path.insert(0,\'/verif\'); import sa.run, sa.cfg, sa.dataflow, sa.rules; print(\'sa engine ok\')"',
        hooks=dict(
            guard='VALQ7711_OMBOTT_VERIF',
            enable='none needed: the analysis reads source text; no instrumentation is compiled into /repo',
            baseline_off_cmd='cd /repo && /venv/bin/python -m pytest -ra -q -p no:cacheprovider --timeout=900 --continue-on-collection-errors',
            source_commits=[],
            add_only=True),
        engines=[dict(name='sa', path='/verif/sa', serves_properties=engines_props,
                      kind_free_text='pure-stdlib static analyser: ast loader with class/function tables, statement CFG with '
                                     'exception edges and duplicated finally, dominators, reaching definitions, derivation '
                                     'closures, exception-escape analysis, partial evaluator, regex syntax trees')],
        checks=checks,
        notes=('All checks are static: /repo is parsed, never imported or run. Exit 0 = clauses hold (KNOWN-FINDING lines for '
               'listed defects), 1 = unlisted violation with VIOLATION line, 2 = ANALYSIS-ERROR (anchor vanished / floor not '
               'met). known_findings.json lists genuine defects kept and the fix: commits made. See DESIGN.md.'),
        not_applicable=na,
    )
    with open(os.path.join(VERIF, 'MANIFEST.json'), 'w') as f:
        json.dump(manifest, f, indent=1)
        f.write('\n')
    print(f'{len(checks)} checks, {len(na)} not applicable')


if __name__ == '__main__':
    main()
