"""Usage signatures of class attributes and module-level names (shared by tools/mkpinned_attrs.py and sa/inline.py)."""
import ast


def _methods(cnode):
    return [s for s in cnode.body if isinstance(s, (ast.FunctionDef, ast.AsyncFunctionDef))]


def class_signatures(tree):
    """{class name: {attr: [signature items]}} for the top-level classes of a module.  An item is `<method>:<S|L|D>` for every `self.attr` / `cls.attr`
    occurrence in that method (store / load / delete), `slot` when the name is in __slots__, `class` when it is bound in the class body."""
    out = {}
    for c in tree.body:
        if not isinstance(c, ast.ClassDef):
            continue
        sig = {}
        for st in c.body:
            if isinstance(st, ast.Assign):
                for t in st.targets:
                    if isinstance(t, ast.Name):
                        if t.id == '__slots__' and isinstance(st.value, (ast.Tuple, ast.List)):
                            for e in st.value.elts:
                                if isinstance(e, ast.Constant) and isinstance(e.value, str):
                                    sig.setdefault(e.value, []).append('slot')
                        elif t.id != '__slots__':
                            sig.setdefault(t.id, []).append('class')
            elif isinstance(st, ast.AnnAssign) and isinstance(st.target, ast.Name):
                sig.setdefault(st.target.id, []).append('class')
        for m in _methods(c):
            recv = m.args.args[0].arg if m.args.args else None
            if recv is None:
                continue
            for n in ast.walk(m):
                if isinstance(n, ast.Attribute) and isinstance(n.value, ast.Name) and n.value.id == recv:
                    k = 'S' if isinstance(n.ctx, ast.Store) else ('D' if isinstance(n.ctx, ast.Del) else 'L')
                    sig.setdefault(n.attr, []).append(f'{m.name}:{k}')
        # methods themselves are not attributes to be matched
        names = {m.name for m in _methods(c)}
        out[c.name] = {a: sorted(v) for a, v in sig.items() if a not in names and not (a.startswith('__') and a.endswith('__'))}
    return out


def module_signatures(tree):
    """{name: [functions (qualified inside the module) that mention it]} for the names bound by top-level assignments"""
    bound = set()
    for st in tree.body:
        if isinstance(st, ast.Assign):
            for t in st.targets:
                for n in ast.walk(t):
                    if isinstance(n, ast.Name):
                        bound.add(n.id)
        elif isinstance(st, ast.AnnAssign) and isinstance(st.target, ast.Name):
            bound.add(st.target.id)
    out = {b: [] for b in bound}

    def walk(node, qual):
        for st in getattr(node, 'body', []):
            if isinstance(st, (ast.FunctionDef, ast.AsyncFunctionDef)):
                q = f'{qual}.{st.name}' if qual else st.name
                for n in ast.walk(st):
                    if isinstance(n, ast.Name) and n.id in out:
                        out[n.id].append(q)
            elif isinstance(st, ast.ClassDef):
                walk(st, f'{qual}.{st.name}' if qual else st.name)
    walk(tree, '')
    return {k: sorted(v) for k, v in out.items()}
