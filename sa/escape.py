"""Exception-escape analysis over the resolved package call graph.

escapes(f) = set of (exception class name, origin) that can leave function f, where origin is
"<file>:<line> <construct>".  Sources:
  (1) explicit raise statements (class resolved syntactically / through reaching definitions),
  (2) a may-raise catalogue of the standard-library operations the body parsers use (below),
  (3) resolved callees (methods through the class table incl. the Request mixins, property / cache_in getters on
      attribute loads of `self`, method values stored in attributes or local names).
minus what enclosing try statements of f catch (package class hierarchy + the interpreter's builtin hierarchy).
A StopIteration leaving a generator frame is reported as RuntimeError (PEP 479).
Unresolved calls are collected in `unresolved` and contribute nothing (stated per rule).
"""
import ast
import builtins

from .astutil import walk_shallow, dotted, call_attr, short, src, stmt_of, enclosing

# construct -> exception classes.  Each entry is documented CPython behaviour.
CATALOGUE_DOC = [
    ('bytes.decode() / str.encode() with default "strict" errors', 'UnicodeDecodeError / UnicodeEncodeError'),
    ('json.loads(text)', 'ValueError (json.JSONDecodeError); RecursionError for input nested deeper than the interpreter recursion limit'),
    ('read of a local name that is not bound on every path to the read', 'UnboundLocalError'),
    ('int(x) / int(x, base) / float(x) of non-constant text', 'ValueError'),
    ('tuple-unpacking of str.split(sep, n) into a fixed number of names', 'ValueError'),
    ('next(it) without default', 'StopIteration (RuntimeError when it leaves a generator)'),
    ('mapping[constant key] on a dict built from request data (Header.options)', 'KeyError'),
    ('dict.update(x) with x from json.loads', 'TypeError / ValueError'),
    ('<match>.group(k).<method>() / [..] where group k of the (resolved, literal) pattern is optional and nothing tests it for None', 'AttributeError / TypeError'),
    ('text[constant int] where text is a local bound only to stripped / joined / sliced / read data and no emptiness test dominates the load', 'IndexError'),
    ('raise <stored exception attribute>', 'whatever was stored'),
]

BUILTIN_EXC = {n: c for n, c in vars(builtins).items() if isinstance(c, type) and issubclass(c, BaseException)}


class Escapes:
    def __init__(self, P, request_cls_fq='ombott.request_pkg.request:Request'):
        self.P = P
        self.memo = {}
        self.stack = []
        self.unresolved = []
        self.req_cls = P.classes.get(request_cls_fq)
        self._getter_cache = {}
        self._resolving = set()
        self._resolved = {}
        self.suppress = None     # optional callback (func, node, class name) -> True when the site provably cannot raise

    # ------------------------------------------------------------ class hierarchy
    def class_of(self, f, name):
        r = self.P.resolve_name(f.module, name) if name else None
        if r and r[0] == 'class':
            return r[1]
        return None

    def is_sub(self, exc_name, f_ctx, handler_names):
        """exception class `exc_name` (package class name or builtin) is caught by a handler listing handler_names"""
        if not handler_names:
            return True   # bare except
        chain = self.ancestors(exc_name)
        return any(h in chain for h in handler_names)

    def ancestors(self, exc_name):
        out = [exc_name]
        pkg = [c for c in self.P.classes.values() if c.name == exc_name]
        if pkg:
            c = pkg[0]
            for k in self.P.mro(c):
                if k.name not in out:
                    out.append(k.name)
            for b in self.P.ext_bases(c):
                b = b.split('.')[-1]
                for a in self.ancestors(b):
                    if a not in out:
                        out.append(a)
            return out
        b = BUILTIN_EXC.get(exc_name)
        if b is not None:
            for k in b.__mro__:
                if k.__name__ not in out and k is not object:
                    out.append(k.__name__)
        return out

    # ------------------------------------------------------------ call resolution
    def methods_named(self, cls, name):
        m = self.P.find_method(cls, name)
        return [m] if m is not None else []

    def owner_classes(self, f):
        """classes whose instances `self` may be in f: the owner class, and for the request mixins the Request class"""
        c = f.owner_cls
        if c is None:
            return []
        out = [c]
        if self.req_cls is not None and c in self.P.mro(self.req_cls) and c is not self.req_cls:
            out.append(self.req_cls)
        return out

    def resolve_self_attr(self, f, attr):
        """functions that `self.<attr>` may denote when called / loaded as a property"""
        key = ('attr', f.owner_cls.fq if f.owner_cls else f.fq, attr)
        if key in self._resolving:
            return []
        if key in self._resolved:
            return self._resolved[key]
        self._resolving.add(key)
        try:
            out = self._resolve_self_attr(f, attr)
        finally:
            self._resolving.discard(key)
        uniq = []
        for x in out:
            if x not in uniq:
                uniq.append(x)
        self._resolved[key] = uniq
        return uniq

    def _resolve_self_attr(self, f, attr):
        out = []
        for c in self.owner_classes(f):
            out += self.methods_named(c, attr)
        if out:
            return out
        # attribute holding method values: self.attr = self.m | self.other.m | dict.get(...)
        for c in self.owner_classes(f):
            for k in self.P.mro(c):
                for m in k.methods.values():
                    for st in walk_shallow(m.node):
                        if isinstance(st, ast.Assign):
                            for t in st.targets:
                                tl = t.elts if isinstance(t, (ast.Tuple, ast.List)) else [t]
                                vl = st.value.elts if isinstance(t, (ast.Tuple, ast.List)) and isinstance(st.value, (ast.Tuple, ast.List)) else [st.value] * len(tl)
                                for tt, vv in zip(tl, vl):
                                    if isinstance(tt, ast.Attribute) and isinstance(tt.value, ast.Name) and tt.value.id == 'self' and tt.attr == attr:
                                        out += self.resolve_value(m, vv)
        return out

    def attr_class(self, f, attr):
        """class of the object stored in self.<attr> (constructor call in some method)"""
        for c in self.owner_classes(f):
            for k in self.P.mro(c):
                for m in k.methods.values():
                    for st in walk_shallow(m.node):
                        if isinstance(st, ast.Assign) and any(isinstance(t, ast.Attribute) and dotted(t) == f'self.{attr}' for t in st.targets) \
                                and isinstance(st.value, ast.Call):
                            cc = self.class_of(m, dotted(st.value.func))
                            if cc is not None:
                                return cc
        return None

    def resolve_value(self, f, v, depth=0):
        """functions a value expression may denote"""
        if depth > 4:
            return []
        if isinstance(v, ast.Attribute):
            d = dotted(v) or ''
            if isinstance(v.value, ast.Name) and v.value.id == 'self':
                return self.resolve_self_attr(f, v.attr) if depth < 3 else []
            if d.startswith('self.') and d.count('.') == 2:
                _, a, m = d.split('.')
                c = self.attr_class(f, a)
                if c is not None:
                    return self.methods_named(c, m)
            if isinstance(v.value, ast.Name) and v.value.id == 'cls' and f.owner_cls is not None:
                return self.methods_named(f.owner_cls, v.attr)
            if isinstance(v.value, ast.Name) and f.rd.is_local(v.value.id):
                out = []
                for n in f.cfg.nodes:
                    for dd in f.rd.gen.get(n, []):
                        if dd.name == v.value.id and dd.kind == 'assign' and isinstance(dd.value, ast.Call):
                            cn = dotted(dd.value.func) or ''
                            c = f.owner_cls if cn == 'cls' else self.class_of(f, cn)
                            if c is not None:
                                out += self.methods_named(c, v.attr)
                if out:
                    return out
            r = self.P.resolve_name(f.module, d)
            if r and r[0] == 'func':
                return [r[1]]
            return []
        if isinstance(v, ast.Name):
            if f.rd.is_local(v.id):
                key = ('name', f.fq, v.id)
                if key in self._resolving:
                    return []
                self._resolving.add(key)
                try:
                    out = []
                    for n in f.cfg.nodes:
                        for d in f.rd.gen.get(n, []):
                            if d.name == v.id and d.value is not None and d.kind in ('assign', 'unpack'):
                                out += self.resolve_value(f, d.value, depth + 1)
                    return out
                finally:
                    self._resolving.discard(key)
                out = []
                for n in f.cfg.nodes:
                    for d in f.rd.gen.get(n, []):
                        if d.name == v.id and d.value is not None and d.kind in ('assign', 'unpack'):
                            out += self.resolve_value(f, d.value, depth + 1)
                return out
            # nested function of an enclosing function / module-level function
            pf = f
            while pf is not None:
                for x in self.P.all_funcs():
                    if x.parent is pf and x.name == v.id:
                        return [x]
                pf = pf.parent
            r = self.P.resolve_name(f.module, v.id)
            if r and r[0] == 'func':
                return [r[1]]
            if r and r[0] == 'class':
                init = self.P.find_method(r[1], '__init__')
                return [init] if init else []
            return []
        if isinstance(v, ast.Call) and call_attr(v) == 'get' and isinstance(v.func, ast.Attribute):
            # dict-of-methods lookup: self._meth_map.get(...)
            tbl = v.func.value
            if isinstance(tbl, ast.Attribute) and isinstance(tbl.value, ast.Name) and tbl.value.id == 'self':
                out = []
                for c in self.owner_classes(f):
                    for k in self.P.mro(c):
                        for m in k.methods.values():
                            for st in walk_shallow(m.node):
                                if isinstance(st, ast.Assign) and any(dotted(t) == f'self.{tbl.attr}' for t in st.targets) and isinstance(st.value, ast.Dict):
                                    for val in st.value.values:
                                        out += self.resolve_value(m, val, depth + 1)
                return out
        if isinstance(v, (ast.Tuple, ast.List)):
            out = []
            for e in v.elts:
                out += self.resolve_value(f, e, depth + 1)
            return out
        if isinstance(v, ast.IfExp):
            return self.resolve_value(f, v.body, depth + 1) + self.resolve_value(f, v.orelse, depth + 1)
        if isinstance(v, ast.Call) and dotted(v.func) in ('partial', 'functools.partial') and v.args:
            return self.resolve_value(f, v.args[0], depth + 1)
        return []

    _CONSUMERS = ('list', 'tuple', 'set', 'frozenset', 'sorted', 'sum', 'any', 'all', 'max', 'min', 'next', 'dict', 'enumerate', 'zip', 'iter')

    def _is_generator(self, c):
        node = getattr(c, 'node', None)
        return isinstance(node, ast.FunctionDef) and any(isinstance(x, (ast.Yield, ast.YieldFrom)) for x in walk_shallow(node))

    def _consumers_of(self, f, name, assign):
        """places where the local `name` (bound by `assign` to a generator object) is iterated: for-loops, consuming builtins, yield from"""
        out = []
        for x in walk_shallow(f.node):
            if isinstance(x, ast.For) and isinstance(x.iter, ast.Name) and x.iter.id == name:
                out.append(x)
            elif isinstance(x, ast.Call) and isinstance(x.func, ast.Name) and x.func.id in self._CONSUMERS and x.args and isinstance(x.args[0], ast.Name) \
                    and x.args[0].id == name:
                out.append(x)
            elif isinstance(x, ast.YieldFrom) and isinstance(x.value, ast.Name) and x.value.id == name:
                out.append(x)
        return out

    def callees(self, f, call):
        fn = call.func
        if isinstance(fn, ast.Attribute) and isinstance(fn.value, ast.Name) and fn.value.id == 'self':
            return self.resolve_self_attr(f, fn.attr)
        return self.resolve_value(f, fn)

    def is_getter(self, m):
        for d in m.node.decorator_list if hasattr(m.node, 'decorator_list') else []:
            dn = dotted(d.func) if isinstance(d, ast.Call) else dotted(d)
            if dn in ('property', 'cache_in', 'cached_property'):
                return True
        return False

    # ------------------------------------------------------------ main
    def escapes(self, f):
        if f.fq in self.memo:
            return self.memo[f.fq]
        if f.fq in self.stack:
            return set()
        self.stack.append(f.fq)
        out = set()
        is_gen = any(isinstance(n, (ast.Yield, ast.YieldFrom)) for n in walk_shallow(f.node))
        for (node, classes, origin) in self.sites(f):
            for cname in classes:
                if self.suppress is not None and '@' + f.fq in origin and self.suppress(f, node, cname):
                    continue
                if not self.caught(f, node, cname):
                    if cname == 'StopIteration' and is_gen:
                        cname = 'RuntimeError'
                    out.add((cname, origin))
        self.stack.pop()
        self.memo[f.fq] = out
        return out

    def caught(self, f, node, cname):
        child = node
        p = getattr(node, '_p', None)
        while p is not None and p is not f.node:
            if isinstance(p, ast.Try):
                in_body = any(child is st for st in p.body)
                if in_body:
                    for h in p.handlers:
                        names = [] if h.type is None else [
                            (dotted(e) or '').split('.')[-1] for e in (h.type.elts if isinstance(h.type, ast.Tuple) else [h.type])]
                        if self.is_sub(cname, f, names):
                            # caught here; what the handler itself raises is collected as separate sites
                            return True
            if isinstance(p, (ast.FunctionDef, ast.AsyncFunctionDef, ast.Lambda, ast.ClassDef)):
                break
            child = p
            p = getattr(p, '_p', None)
        return False

    def handler_types_for_bare_raise(self, f, node):
        h = enclosing(node, ast.ExceptHandler)
        if h is None:
            return ['Exception']
        if h.type is None:
            return ['Exception']
        return [(dotted(e) or 'Exception').split('.')[-1] for e in (h.type.elts if isinstance(h.type, ast.Tuple) else [h.type])]

    def site(self, f, node, what):
        return f'{f.site(node)} {what} @{f.fq}'

    @staticmethod
    def kind(node):
        """a description of the raising construct that does not depend on local variable names"""
        if isinstance(node, ast.Raise):
            e = node.exc
            if e is None:
                return 'raise (re-raise)'
            if isinstance(e, ast.Call):
                return f'raise {(dotted(e.func) or "?").split(".")[-1]}(...)'
            if isinstance(e, ast.Name):
                return 'raise <name>'
            if isinstance(e, ast.Attribute):
                return f'raise <...>.{e.attr}'
            return 'raise <expr>'
        if isinstance(node, ast.Call):
            d = dotted(node.func) or ''
            last = call_attr(node)
            if last == 'decode':
                return '<bytes>.decode()'
            if d.endswith('loads'):
                return 'json.loads(...)'
            if d in ('int', 'float'):
                return f'{d}(<text>)'
            if d == 'next':
                return 'next(<iterator>)'
            if last == 'update':
                return '<dict>.update(<json value>)'
            return f'{last}(...)'
        if isinstance(node, ast.Assign):
            return '<a, b> = <str>.split(...)'
        if isinstance(node, ast.Subscript):
            return f'<mapping>[{ast.unparse(node.slice)}]'
        return type(node).__name__

    def never_returns(self, f):
        """no path of f reaches its normal exit (it always raises)"""
        g = f.cfg
        return not any(p in g.reachable() for (p, _) in g.exit.pred)

    def unbound_reads(self, f):
        from .defassign import DefiniteAssignment

        def noreturn_node(n):
            if n.kind != 'stmt' or not isinstance(n.ast, ast.Expr) or not isinstance(n.ast.value, ast.Call):
                return False
            cs = self.callees(f, n.ast.value)
            return bool(cs) and all(self.never_returns(c) for c in cs)
        return DefiniteAssignment(f, noreturn_node).maybe_unbound_reads()

    def sites(self, f):
        """yield (ast node, [class names], origin text)"""
        P = self.P
        body_nodes = list(walk_shallow(f.node))
        if not isinstance(f.node, ast.Lambda):
            for (cn, x) in self.unbound_reads(f):
                yield x, ['UnboundLocalError'], self.site(f, x, '<read of a possibly unbound local>')
        for n in body_nodes:
            cons_ = None
            if isinstance(n, ast.For) and isinstance(n.iter, ast.Name):
                cons_ = n.iter
            elif isinstance(n, ast.Call) and isinstance(n.func, ast.Name) and n.func.id in self._CONSUMERS and n.args and isinstance(n.args[0], ast.Name):
                cons_ = n.args[0]
            elif isinstance(n, ast.YieldFrom) and isinstance(n.value, ast.Name):
                cons_ = n.value
            if cons_ is not None and f.rd.is_local(cons_.id):
                ns_ = f.cfg.nodes_for(n) if isinstance(n, ast.For) else f.cfg.node_of_stmt(n)
                for dd in (f.rd.at(ns_[0], cons_.id) if ns_ else []):
                    if dd.kind == 'assign' and isinstance(dd.value, ast.Call):
                        gcs = self.callees(f, dd.value)
                        if gcs and all(self._is_generator(c) for c in gcs):
                            for c in gcs:
                                for (cname, origin) in self.escapes(c):
                                    yield n, [cname], origin
            if isinstance(n, ast.Raise):
                if n.exc is None:
                    yield n, self.handler_types_for_bare_raise(f, n), self.site(f, n, 'raise')
                    continue
                e = n.exc
                if isinstance(e, ast.Call):
                    d = dotted(e.func) or ''
                    if d.split('.')[-1] in BUILTIN_EXC or self.class_of(f, d) is not None:
                        yield n, [d.split('.')[-1]], self.site(f, n, self.kind(n))
                        continue
                    # raise self._raise(...) / raise helper(...): the call's own escapes are collected at the Call node
                    continue
                if isinstance(e, ast.Name):
                    if e.id in BUILTIN_EXC or self.class_of(f, e.id) is not None:
                        yield n, [e.id], self.site(f, n, self.kind(n))
                        continue
                    classes = self.var_classes(f, e, n)
                    yield n, classes, self.site(f, n, self.kind(n))
                    continue
                if isinstance(e, ast.Attribute):
                    yield n, ['<stored:' + (dotted(e) or '?') + '>'], self.site(f, n, self.kind(n))
                    continue
                yield n, ['<unknown>'], self.site(f, n, self.kind(n))
            elif isinstance(n, ast.Call):
                d = dotted(n.func) or ''
                last = call_attr(n)
                # catalogue
                if last == 'decode' and isinstance(n.func, ast.Attribute) and not any(
                        (isinstance(a, ast.Constant) and a.value in ('ignore', 'replace', 'backslashreplace', 'surrogateescape')) for a in n.args[1:] + [k.value for k in n.keywords]):
                    codec = n.args[0].value if n.args and isinstance(n.args[0], ast.Constant) else None
                    if not (isinstance(codec, str) and codec.lower().replace('-', '').replace('_', '') in ('latin1', 'iso88591')):   # latin1 decodes every byte
                        yield n, ['UnicodeDecodeError'], self.site(f, n, self.kind(n))
                    # a codec name that is computed (not a constant, not a parameter of this function) may name no codec at all: LookupError - which no
                    # `except UnicodeDecodeError` catches
                    ca = n.args[0] if n.args else next((k.value for k in n.keywords if k.arg == 'encoding'), None)
                    if ca is not None and not isinstance(ca, ast.Constant):
                        computed = True
                        if isinstance(ca, ast.Name):
                            ns_ = f.cfg.node_of_stmt(n)
                            ds_ = f.rd.at(ns_[0], ca.id) if ns_ else []
                            if ds_ and all(d_.kind == 'param' or (d_.value is not None and isinstance(d_.value, ast.Constant)) for d_ in ds_):
                                computed = False
                            if not ds_ and not f.rd.is_local(ca.id):
                                computed = False        # a module-level constant
                        if computed:
                            yield n, ['LookupError'], self.site(f, n, '<bytes>.decode(<computed codec name>)')
                elif isinstance(n.func, ast.Name) and f.rd.is_local(n.func.id) and any(
                        dd.value is not None and isinstance(dd.value, ast.Call) and dotted(dd.value.func) == 'getattr' and len(dd.value.args) >= 2
                        and isinstance(dd.value.args[1], ast.Constant) and dd.value.args[1].value == 'decode'
                        for nn in f.cfg.nodes for dd in f.rd.gen.get(nn, []) if dd.name == n.func.id):
                    # decode = getattr(s, 'decode', None); decode(enc, err)   (touni)
                    strict = not any(isinstance(a, ast.Constant) and a.value in ('ignore', 'replace') for a in n.args)
                    if strict:
                        yield n, ['UnicodeDecodeError'], self.site(f, n, '<bytes>.decode()')
                elif d in ('json.loads', 'json_mod.loads', 'json.load'):
                    yield n, ['ValueError', 'RecursionError'], self.site(f, n, self.kind(n))
                elif d in ('int', 'float') and n.args and not isinstance(n.args[0], ast.Constant):
                    a0 = n.args[0]
                    numeric = isinstance(a0, ast.Call) and dotted(a0.func) in ('len', 'int', 'float', 'round', 'time.time') or \
                        isinstance(a0, (ast.BinOp,)) or (isinstance(a0, ast.Attribute) and a0.attr in ('st_mtime', 'st_size'))
                    if not numeric:
                        yield n, ['ValueError'], self.site(f, n, self.kind(n))
                elif d == 'next' and len(n.args) == 1:
                    yield n, ['StopIteration'], self.site(f, n, self.kind(n))
                elif isinstance(n.func, ast.Attribute) and isinstance(n.func.value, ast.Call) and call_attr(n.func.value) == 'group' \
                        and self._optional_group_used(f, n.func.value, n):
                    yield n, ['AttributeError'], self.site(f, n, f'<match>.group({ast.unparse(n.func.value.args[0])}).{n.func.attr}() on an optional group')
                elif last == 'update' and n.args and self._unchecked_json_value(f, n, n.args[0]):
                    yield n, ['TypeError', 'ValueError'], self.site(f, n, self.kind(n))
                # resolved callees
                cs = self.callees(f, n)
                if cs and all(self._is_generator(c) for c in cs):
                    # calling a generator function runs nothing: its body runs where the generator object is consumed.  When the object is parked in a
                    # local first, those places are the `for` loops / list() / next() .. over that local (handled there); otherwise here
                    par_ = getattr(n, '_p', None)
                    if isinstance(par_, ast.Assign) and par_.value is n and len(par_.targets) == 1 and isinstance(par_.targets[0], ast.Name) \
                            and self._consumers_of(f, par_.targets[0].id, par_):
                        continue
                if cs:
                    for c in cs:
                        for (cname, origin) in self.escapes(c):
                            if cname == 'UnicodeDecodeError' and origin.endswith('@' + c.fq) and self._codec_arg_is_latin1(c, n):
                                continue   # decode(<codec parameter>) with 'latin1' passed at this call site decodes every byte
                            yield n, [cname], origin
                else:
                    if d and not d.startswith(('self.', 'cls.')) and P.resolve_name(f.module, d.split('.')[0]) is None and d.split('.')[0] not in dir(builtins):
                        pass
                    self.unresolved.append(f'{f.fq}: {short(n, 50)}')
            elif isinstance(n, ast.Assign):
                t = n.targets[0]
                if isinstance(t, (ast.Tuple, ast.List)) and isinstance(n.value, ast.Call) and call_attr(n.value) == 'split' \
                        and not any(isinstance(e, ast.Starred) for e in t.elts):
                    yield n, ['ValueError'], self.site(f, n, self.kind(n))
                # an item store on an object of a package class that defines __setitem__ runs that method (HeaderDict validates what it is given)
                for tt in n.targets:
                    if isinstance(tt, ast.Subscript):
                        kls = None
                        d0 = dotted(tt.value) or ''
                        if d0.startswith('self.') and d0.count('.') == 1:
                            kls = self.attr_class(f, d0.split('.')[1])
                        elif isinstance(tt.value, ast.Name) and f.rd.is_local(tt.value.id):
                            ns_ = f.cfg.node_of_stmt(n)
                            for dd in (f.rd.at(ns_[0], tt.value.id) if ns_ else []):
                                if dd.kind == 'assign' and isinstance(dd.value, ast.Call):
                                    kls = self.class_of(f, dotted(dd.value.func) or '') or kls
                        if kls is not None:
                            for m in self.methods_named(kls, '__setitem__'):
                                for (cname, origin) in self.escapes(m):
                                    yield n, [cname], origin
            elif isinstance(n, ast.Attribute) and isinstance(n.ctx, ast.Load) and isinstance(n.value, ast.Name) and n.value.id == 'self' \
                    and not (isinstance(getattr(n, '_p', None), ast.Call) and n._p.func is n):
                # property / cache_in getter evaluated by an attribute load
                for m in self.resolve_self_attr_getters(f, n.attr):
                    for (cname, origin) in self.escapes(m):
                        yield n, [cname], origin
            elif isinstance(n, ast.Subscript) and isinstance(n.ctx, ast.Load) and isinstance(n.slice, ast.Constant) and isinstance(n.slice.value, int) \
                    and not isinstance(n.slice.value, bool) and isinstance(n.value, ast.Name) and self._maybe_empty_text(f, n):
                yield n, ['IndexError'], self.site(f, n, f'<possibly empty text>[{n.slice.value}]')
            elif isinstance(n, ast.Subscript) and isinstance(n.ctx, ast.Load) and isinstance(n.slice, ast.Constant) and isinstance(n.slice.value, str):
                base = dotted(n.value) or ''
                if base.endswith('.options'):
                    yield n, ['KeyError'], self.site(f, n, self.kind(n))

    def _optional_group_used(self, f, gcall, user):
        """gcall is `<m>.group(k)` with constant k; True when the pattern that produced <m> is a literal of the package and its group k can be None"""
        from . import regexast as RX
        if len(gcall.args) != 1 or not isinstance(gcall.args[0], ast.Constant) or not isinstance(gcall.args[0].value, int) or gcall.args[0].value == 0:
            return False
        k = gcall.args[0].value
        ns = f.cfg.node_of_stmt(gcall)
        if not ns:
            return False
        # a short-circuit / conditional guard on the same group in the same expression
        p = getattr(user, '_p', None)
        while p is not None and not isinstance(p, ast.stmt):
            if isinstance(p, (ast.BoolOp, ast.IfExp)) and ast.unparse(gcall) in ast.unparse(p.values[0] if isinstance(p, ast.BoolOp) else p.test):
                return False
            p = getattr(p, '_p', None)
        pats = []
        recv_expr = gcall.func.value
        if isinstance(recv_expr, ast.Name):
            # a comprehension variable: what it iterates over
            p = getattr(gcall, '_p', None)
            while p is not None and not isinstance(p, ast.stmt):
                if isinstance(p, (ast.ListComp, ast.SetComp, ast.DictComp, ast.GeneratorExp)):
                    for gen in p.generators:
                        if isinstance(gen.target, ast.Name) and gen.target.id == recv_expr.id:
                            recv_expr = gen.iter
                p = getattr(p, '_p', None)
        for x in f.rd.closure_nodes(recv_expr, ns[0], follow_mut=False):
            if isinstance(x, ast.Call) and call_attr(x) in ('finditer', 'match', 'search', 'fullmatch'):
                recv = x.func.value
                val = None
                if isinstance(recv, ast.Attribute) and isinstance(recv.value, ast.Name) and recv.value.id in ('cls', 'self') and f.owner_cls is not None:
                    for kls in self.P.mro(f.owner_cls):
                        if recv.attr in kls.attrs:
                            val = kls.attrs[recv.attr]
                            break
                elif isinstance(recv, ast.Name) and recv.id in f.module.assigns:
                    val = f.module.assigns[recv.id][0]
                if val is not None:
                    pn = RX.compiled_pattern_arg(val)
                    lits = RX.pattern_literal(pn) if pn is not None else None
                    if lits:
                        pats += lits
        for pt in pats:
            tree = RX.parse(pt.replace('\x00HOLE\x00', 'X') if isinstance(pt, str) else pt)
            if tree is not None and k in RX.optional_groups(tree):
                return True
        return False

    def _unchecked_json_value(self, f, call, arg):
        """`arg` may be the decoded JSON document (any JSON type) without an isinstance(.., dict) test having selected this path"""
        def is_json_attr(x):
            return isinstance(x, ast.Attribute) and x.attr == 'json'

        def guarded_by_isinstance(expr_src, node):
            g = f.cfg
            ns = g.node_of_stmt(node)
            if not ns:
                return False
            for tn in g.nodes:
                if tn.kind == 'test' and tn.ast is not None and any(
                        isinstance(c, ast.Call) and dotted(c.func) == 'isinstance' and len(c.args) == 2 and ast.unparse(c.args[0]) == expr_src
                        and any(isinstance(t_, ast.Name) and t_.id in ('dict', 'Mapping', 'MutableMapping') for t_ in ast.walk(c.args[1]))
                        for c in ast.walk(tn.ast)) and g.edge_dominates(tn, 'true', ns[0]):
                    return True
            p = getattr(node, '_p', None)
            while p is not None and not isinstance(p, ast.stmt):
                if isinstance(p, ast.IfExp) and any(isinstance(c, ast.Call) and dotted(c.func) == 'isinstance' for c in ast.walk(p.test)):
                    return True
                p = getattr(p, '_p', None)
            return False
        for x in ast.walk(arg):
            if is_json_attr(x) and not guarded_by_isinstance(ast.unparse(x), x):
                return True
            if isinstance(x, ast.Name) and f.rd.is_local(x.id):
                ns = f.cfg.node_of_stmt(call)
                defs = f.rd.at(ns[0], x.id) if ns else []
                if defs and any(d.value is not None and is_json_attr(d.value) for d in defs) and not guarded_by_isinstance(x.id, x):
                    return True
        return False

    _TEXT_MAKERS = ('strip', 'lstrip', 'rstrip', 'join', 'read', 'decode', 'encode', 'lower', 'upper', 'replace', 'getvalue')

    def _maybe_empty_text(self, f, sub):
        """`name[k]`: every reaching definition of name is text of unknown (possibly zero) length and no emptiness test dominates the load"""
        from . import rules as T
        g, rd = f.cfg, f.rd
        ns = g.node_of_stmt(sub)
        if not ns:
            return False
        name = sub.value.id
        defs = rd.at(ns[0], name)
        if not defs:
            return False
        for d in defs:
            v = d.value
            if d.kind != 'assign' or v is None:
                return False
            if isinstance(v, ast.Call) and call_attr(v) in self._TEXT_MAKERS:
                continue
            if isinstance(v, ast.Subscript) and isinstance(v.slice, ast.Slice):
                continue
            return False
        for (tn, lab) in T.falsy_tests(g, name):
            nonempty = 'false' if lab == 'true' else 'true'
            if g.edge_dominates(tn, nonempty, ns[0]):
                return False
        # a length comparison anywhere above also counts as a guard
        for tn in g.nodes:
            if tn.kind == 'test' and tn.ast is not None and any(isinstance(x, ast.Call) and dotted(x.func) == 'len' and x.args and
                                                              isinstance(x.args[0], ast.Name) and x.args[0].id == name for x in ast.walk(tn.ast)) \
                    and (g.edge_dominates(tn, 'true', ns[0]) or g.edge_dominates(tn, 'false', ns[0])):
                return False
        # a short-circuit guard in the same expression: `name and name[0] ...`
        p = getattr(sub, '_p', None)
        while p is not None and not isinstance(p, ast.stmt):
            if isinstance(p, ast.BoolOp) and isinstance(p.op, ast.And) and any(isinstance(o, ast.Name) and o.id == name for o in p.values):
                return False
            if isinstance(p, ast.IfExp) and any(isinstance(o, ast.Name) and o.id == name for o in ast.walk(p.test)):
                return False
            p = getattr(p, '_p', None)
        return True

    def _codec_arg_is_latin1(self, callee, call):
        """callee decodes with a codec taken from one of its parameters and this call passes the constant 'latin1' for it"""
        params = callee.params
        for x in walk_shallow(callee.node):
            if isinstance(x, ast.Call) and x.args and isinstance(x.args[0], ast.Name) and x.args[0].id in params and \
                    (call_attr(x) == 'decode' or (isinstance(x.func, ast.Name) and callee.rd.is_local(x.func.id))):
                i = params.index(x.args[0].id)
                val = call.args[i] if i < len(call.args) else None
                for k in call.keywords:
                    if k.arg == x.args[0].id:
                        val = k.value
                if isinstance(val, ast.Constant) and isinstance(val.value, str) and val.value.lower().replace('-', '') in ('latin1', 'iso88591'):
                    return True
        return False

    def resolve_self_attr_getters(self, f, attr):
        key = (f.owner_cls.fq if f.owner_cls else None, attr)
        if key not in self._getter_cache:
            out = []
            for c in self.owner_classes(f):
                for m in self.methods_named(c, attr):
                    if self.is_getter(m) and m not in out:
                        out.append(m)
            self._getter_cache[key] = out
        return self._getter_cache[key]

    def _param_classes(self, f, pname, depth=0):
        """exception classes bound to parameter `pname` of the module-level function f at its call sites in the package (a None default
        contributes nothing: `raise x` under `x is not None`); [] when some site cannot be resolved"""
        if depth > 2 or f.cls is not None or f.parent is not None:
            return []
        a = f.node.args
        pos = [x.arg for x in a.posonlyargs + a.args]
        out, sites = [], 0
        for cf in self.P.all_funcs():
            if isinstance(cf.node, ast.Lambda):
                continue
            for c in walk_shallow(cf.node):
                if not (isinstance(c, ast.Call) and isinstance(c.func, ast.Name) and c.func.id == f.name):
                    continue
                r = self.P.resolve_name(cf.module, c.func.id)
                if not (r and r[0] == 'func' and r[1] is f):
                    continue
                arg = None
                if pname in pos and pos.index(pname) < len(c.args):
                    arg = c.args[pos.index(pname)]
                for kw in c.keywords:
                    if kw.arg == pname:
                        arg = kw.value
                if arg is None:
                    continue          # the default applies at this site
                sites += 1
                if isinstance(arg, ast.Constant) and arg.value is None:
                    continue
                if isinstance(arg, ast.Call):
                    dn = (dotted(arg.func) or '').split('.')[-1]
                    if dn in BUILTIN_EXC or [k for k in self.P.classes.values() if k.name == dn]:
                        out.append(dn)
                        continue
                    return []
                if isinstance(arg, ast.Name):
                    got = [x for x in self.var_classes(cf, arg, c) if not x.startswith('<')]
                    if not got:
                        return []
                    out += got
                    continue
                return []
        return out if sites else []

    def var_classes(self, f, name_node, raise_node):
        ns = f.cfg.node_of_stmt(raise_node)
        if not ns:
            return ['<unknown>']
        out = []
        for d in f.rd.at(ns[0], name_node.id):
            if d.kind == 'except':
                t = d.value
                names = ['Exception'] if t is None else [(dotted(e) or 'Exception').split('.')[-1] for e in (t.elts if isinstance(t, ast.Tuple) else [t])]
                out += names
            elif d.kind == 'assign' and isinstance(d.value, ast.Call):
                dn = (dotted(d.value.func) or '').split('.')[-1]
                if dn in BUILTIN_EXC or [c for c in self.P.classes.values() if c.name == dn]:
                    out.append(dn)
                else:
                    out.append('<value:' + short(d.value, 30) + '>')
            elif d.kind == 'param':
                got = self._param_classes(f, d.name)
                out += got if got else ['<param:' + d.name + '>']
            elif d.kind == 'assign' and isinstance(d.value, ast.Name) and not f.rd.is_local(d.value.id):
                vals = f.module.assigns.get(d.value.id) or []
                got = False
                for v in vals:
                    if isinstance(v, ast.Call):
                        dn = (dotted(v.func) or '').split('.')[-1]
                        if dn in BUILTIN_EXC or [c for c in self.P.classes.values() if c.name == dn]:
                            out.append(dn)
                            got = True
                if not got:
                    out.append('<value:' + short(d.value, 30) + '>')
            elif d.value is not None:
                out.append('<value:' + short(d.value, 30) + '>')
        return out or ['<unknown>']
