"""C07 - Multipart forms and uploads round-trip exactly."""
import ast
import re as _re

from ..astutil import (walk_shallow, dotted, call_attr, short, src, stmt_of, names_loaded, is_const, enclosing,
                       compare_parts, strip_not, const, bool_operands)
from ..loader import AnalysisError
from .. import rules as T
from .. import regexast as RX
from . import c06

ID = 'C07'
TECHNIQUE = ('bounds/dominance rules on the upload window, regex-shape query on the header-parameter tokenizer, sentinel (membership '
             'vs truthiness) rule and provenance rules on the collection loop, scanner-state rules shared with C06')
DECIDED = ('(a) an upload window never reads outside its part: BytesIOProxy.read returns b"" for a non-positive remainder, '
           'reads min(requested, remainder) (or the remainder) after seeking the source to its own position, advances by the '
           'same amount, and seek clamps into [start, end]; (b) header parameters are tokenised with double-quoted strings '
           'atomic (a quoted value may contain ";" and "="); (c) in Request.POST every item goes to exactly one of forms / '
           'files chosen by the presence of a file name, "seen before" is decided by membership (values may be empty), a '
           'repeated name is promoted to a list once and later values appended in iteration order, FileUpload receives (file, '
           'name, filename, headers) and iter_items pairs header and data sections strictly alternately; (d) header blocks '
           'and text values are decoded from exactly their own section (seek(start), read(end - start)); (e) no byte of '
           'one part leaks into another through scanner state: the delimiter found resets the carried remainder and a '
           'refuted remainder does not skip the search (shared with C06.c / C06.e / C06.g).')
DECIDED_MORE = ('Also: the reader premise of C04; every store of the upload window position is clamped into [start, end].')
DECIDED = DECIDED + ' ' + DECIDED_MORE
DECIDED_R6 = ('Round 6: boundary cut out of the raw CONTENT_TYPE; parts routed by the presence of a file name alone; window position absolute or relative to the part start (rules compared as linear forms).')
DECIDED = DECIDED + ' ' + DECIDED_R6
DECIDED_R7 = ('Round 7: boundary length limit only above 70 characters; min(request, remainder) needs a positive request; C06 round-7 chunk-boundary clauses as premises.')
DECIDED = DECIDED + ' ' + DECIDED_R7
DECIDED_R8 = ('Round 8: the upload window hands out nothing of its source but its bounded read; premise C05.d.')
DECIDED = DECIDED + ' ' + DECIDED_R8
NOT_DECIDED = ('the round trip itself (equality of decoded values with what was encoded over unbounded field lists); non-ASCII '
               'handling; content types of uploads.')
ASSUMPTIONS = ['io.BytesIO / file seek+read semantics', 'the multipart encoder under test is RFC 7578 conformant']

MP = 'ombott.request_pkg.multipart'
BM = 'ombott.request_pkg.body_mixin'


def section_pairing(ii):
    """how FieldStorage.iter_items pairs the sections of the markup: (headers name, data name, strictly alternating?, node) or None.
    The two section variables are found by role (`kind, rng = <var>; assert kind == 'headers' / 'data'`); every binding of either must be
    a fetch from one and the same iterator - `next(it, None)`, the target of `for … in it`, or the targets of `zip_longest(it, it)` - and
    every headers fetch must be followed directly by a data fetch (so sections are consumed in pairs whatever the loop looks like)."""
    g, rd = ii.cfg, ii.rd
    role = {}
    for st in walk_shallow(ii.node):
        if isinstance(st, ast.Assert):
            cp = compare_parts(st.test)
            cv = const(T.module_value(ii, cp[2])) if cp else None       # the section names may be module-level constants
            if cp and cp[1] is ast.Eq and isinstance(cp[0], ast.Name) and cv in ('headers', 'data'):
                n = g.node_of_stmt(st)
                for d in (rd.at(n[0], cp[0].id) if n else []):
                    if d.kind in ('unpack', 'assign') and isinstance(d.stmt, ast.Assign) and isinstance(d.stmt.value, ast.Name):
                        role[cv] = d.stmt.value.id
    if set(role) != {'headers', 'data'}:
        return None
    hname, dname = role['headers'], role['data']
    fetches = {hname: [], dname: []}      # name -> [(cfg node, iterator source text, kind)]
    for n in g.nodes:
        for d in rd.gen.get(n, []):
            if d.name not in fetches:
                continue
            v = d.value
            if d.kind == 'assign' and isinstance(v, ast.Call) and dotted(v.func) == 'next' and len(v.args) == 2 and is_const(v.args[1], None):
                fetches[d.name].append((n, src(v.args[0]), 'next'))
            elif d.kind == 'for' and isinstance(v, ast.Call) and (dotted(v.func) or '').split('.')[-1] == 'zip_longest' and len(v.args) == 2 \
                    and src(v.args[0]) == src(v.args[1]) and not v.keywords:
                fetches[d.name].append((n, src(v.args[0]), 'zip'))
            elif d.kind == 'for' and isinstance(v, ast.Name) and isinstance(n.ast.target, ast.Name):
                fetches[d.name].append((n, src(v), 'for'))
            else:
                return hname, dname, False, d.stmt        # bound by something that is not a fetch from the section iterator
    hs, ds = fetches[hname], fetches[dname]
    if not hs or not ds:
        return None
    its = {x[1] for x in hs + ds}
    ok = len(its) == 1 and len(hs) == len(ds)
    for (hn, _, kind) in hs:
        if kind == 'zip':
            ok = ok and any(dn is hn for (dn, _, _) in ds)
            continue
        nxt = [m for (m, lab) in hn.succ if lab in ('next', 'iter')]
        ok = ok and len(nxt) == 1 and any(dn is nxt[0] for (dn, _, k2) in ds if k2 == 'next')
    return hname, dname, ok, hs[0][0].ast


def check(P, R):
    R.rule('C07.a', 'upload window never reads outside its part', floor=5)
    R.rule('C07.b', 'header parameters tokenised with quoted strings atomic', floor=2)
    R.rule('C07.c', 'fields and files routed and collected in order', floor=7)
    R.rule('C07.d', 'text and headers decoded from exactly their section', floor=2)
    R.rule('C07.e', 'scanner state does not leak between parts', floor=6)

    # the parts are cut out of the whole body: the reader hands on every byte whatever the stream's read sizes (premise shared with C04)
    from . import c04
    c04.check_reader_premise(P, R, 'C07.c', 'every submitted field arrives: a reader that loses count on a short read truncates the body, so trailing parts disappear')

    check_upload_window(P, R, 'C07.a')

    # ---- b: tokenizer
    fs = P.cls(f'{MP}:FieldStorage')
    pat = fs.attrs.get('_patt')
    R.require(pat is not None, 'FieldStorage._patt not found')
    pn = RX.compiled_pattern_arg(pat)
    lits = RX.pattern_literal(pn) if pn is not None else None
    R.require(lits, 'FieldStorage._patt is not a literal pattern')
    lit = lits[0]
    tree = RX.parse(lit)
    has_quote_alt = any(str(op) == 'LITERAL' and av == ord('"') for (op, av) in RX.walk(tree)) if tree is not None else False
    # constant evaluation of the literal pattern on two fixed header values
    rx = _re.compile(lit)
    samples = [(' form-data; name="a;b"; filename="x=y;z.txt"', {'name': 'a;b', 'filename': 'x=y;z.txt'})]
    okb = True
    got = {}
    for s_in, want in samples:
        it = rx.finditer(s_in)
        try:
            next(it)
        except StopIteration:
            okb = False
        for m in it:
            k = (m.group(1) or '').strip().lower()
            v = m.group(3)
            got[k] = v.strip('"') if v is not None else None
        okb = okb and all(got.get(k) == v for k, v in want.items())
    R.ob('C07.b', fs.fq, None, okb and True, text=f'_patt = {lit!r}: quoted parameter values are atomic', detail='' if okb else
         f'the tokenizer stops at the first ";" or "=" even inside a double-quoted value: name="a;b" is read as {got.get("name")!r}, '
         f'filename="x=y;z.txt" as {got.get("filename")!r}' + ('' if has_quote_alt else ' (the pattern has no alternative for a quoted string)'),
         why='field names and file names containing semicolons and equals signs must round-trip')

    ph = P.func(f'{MP}:FieldStorage.parse_header')
    stores = [(st, st.value) for st in walk_shallow(ph.node) if isinstance(st, ast.Assign) and any(isinstance(t, ast.Subscript) for t in st.targets)]
    # or the options built in one piece: {key: value for m in <matches>}
    stores += [(x, x.value) for x in walk_shallow(ph.node) if isinstance(x, ast.DictComp)]
    R.require(stores, 'parse_header: option store not found')
    for (st, val_) in stores:
        sn = ph.cfg.node_of_stmt(st)[0]
        cl = list(ph.rd.closure_nodes(val_, sn))
        # follow one level of package helper
        for c in [x for x in cl if isinstance(x, ast.Call)]:
            d = dotted(c.func) or ''
            tgt = None
            if d.startswith(('cls.', 'self.')):
                tgt = P.find_method(ph.owner_cls, d.split('.')[1])
            else:
                r_ = P.resolve_name(ph.module, d) if d else None
                tgt = r_[1] if r_ and r_[0] == 'func' else None
            if tgt is not None:
                cl += [y for y in ast.walk(tgt.node)]
        rewrites = [x for x in cl if isinstance(x, ast.Call) and call_attr(x) in ('replace', 'translate', 'sub', 'decode', 'encode', 'unquote')]
        strips = [x for x in cl if isinstance(x, ast.Call) and call_attr(x) == 'strip' and x.args and is_const(x.args[0], '"')]
        ok = not rewrites
        R.ob('C07.b', ph, st, ok, text='a quoted parameter value only loses its surrounding quotes', detail='' if ok else
             f'the value is rewritten by `{short(rewrites[0])}` (e.g. quoted-pair unescaping): clients send backslashes raw, so a field or file name '
             f'containing "\\\\" comes back changed',
             why='names containing backslashes, semicolons, equals signs round-trip exactly', key_extra='unquote')

    # per-part state is per FieldStorage instance: a container that exists once on the class and is written through `self` mixes the parts
    from .. import effects as E_
    for cfq_ in (f'{MP}:FieldStorage', f'{MP}:Header'):
        k_ = P.classes.get(cfq_)
        if k_ is None:
            continue
        for an_, av_ in k_.attrs.items():
            if not isinstance(av_, (ast.Dict, ast.List, ast.Set)) and not (isinstance(av_, ast.Call) and dotted(av_.func) in ('dict', 'list', 'set', 'defaultdict')):
                continue
            muts_ = []
            for fm_ in k_.methods.values():
                for n_ in walk_shallow(fm_.node):
                    if isinstance(n_, ast.Call) and isinstance(n_.func, ast.Attribute) and n_.func.attr in E_.MUTATORS and dotted(n_.func.value) == f'self.{an_}':
                        muts_.append((fm_, n_))
                    if isinstance(n_, ast.Assign) and any(isinstance(t_, ast.Subscript) and dotted(t_.value) == f'self.{an_}' for t_ in n_.targets):
                        muts_.append((fm_, n_))
            per_instance = E_._assigned_on_instances(P, k_, an_)
            for (fm_, n_) in muts_:
                R.ob('C07.d', fm_, n_, per_instance, text=f'{short(n_)}: `{an_}` belongs to the part', detail='' if per_instance else
                     f'`{an_}` is a container created once on the class {k_.name} and filled through self: every part of every request writes into the same object, '
                     f'so an upload reports the Content-Type / Content-Disposition of whichever part was read last',
                     why='uploads come back with their own filename and content type; no byte of one part appears in another', key_extra=f'shared:{an_}')
    # the boundary handed to the scanner is the parameter as sent: legal boundary characters (RFC 2046: digits, letters and '()+_,-./:=? ) are not stripped
    fb_ = P.func(f'{BM}:BodyMixin._body')
    for c_ in [x for x in walk_shallow(fb_.node) if isinstance(x, ast.Call) and dotted(x.func) == 'MultipartMarkup' and x.args]:
        a0_ = T.expand(fb_, c_.args[0], fb_.cfg.node_of_stmt(c_)[0])
        okb_, detb_ = True, ''
        cur_ = a0_
        while isinstance(cur_, ast.Call) and isinstance(cur_.func, ast.Attribute) and cur_.func.attr != 'group':
            m_ = cur_.func.attr
            if m_ in ('strip', 'lstrip', 'rstrip') and len(cur_.args) == 1 and isinstance(const(cur_.args[0]), str):
                legal_ = set("0123456789abcdefghijklmnopqrstuvwxyzABCDEFGHIJKLMNOPQRSTUVWXYZ'()+_,-./:=?")
                hit_ = sorted(set(const(cur_.args[0])) & legal_)
                if hit_:
                    okb_, detb_ = False, (f'`{short(cur_)}` removes {hit_} from the ends of the boundary although they are legal boundary characters: the delimiters of '
                                          f'such a body are no longer found (empty form, or InvalidBoundaryError under chunked framing)')
            elif m_ in ('strip', 'lstrip', 'rstrip') and not cur_.args:
                pass
            else:
                okb_, detb_ = False, f'the boundary parameter is rewritten by `.{m_}(...)` before the scanner gets it'
            cur_ = cur_.func.value
        R.ob('C07.d', fb_, c_, okb_, text='the scanner is given the boundary parameter unaltered', detail=detb_,
             why='the form round-trips for all legal boundary strings', key_extra='boundary-arg')
    # ... and it is cut out of the header as sent: not out of a normalised (lower-cased / stripped of parameters) view of it
    for c_ in [x for x in walk_shallow(fb_.node) if isinstance(x, ast.Call) and call_attr(x) in ('match', 'search', 'fullmatch') and x.args
               and 'BOUNDARY' in (dotted(x.func.value) or '').upper()]:
        at_ = fb_.cfg.node_of_stmt(c_)[0]
        ax_ = T.expand(fb_, c_.args[0], at_)
        raw_ = isinstance(ax_, ast.Call) and call_attr(ax_) == 'get' and 'environ' in src(ax_.func.value) and ax_.args and is_const(ax_.args[0], 'CONTENT_TYPE')
        raw_ = raw_ or (isinstance(ax_, ast.Subscript) and 'environ' in src(ax_.value) and is_const(ax_.slice, 'CONTENT_TYPE'))
        via_prop = [x for x in ast.walk(ax_) if isinstance(x, ast.Attribute) and isinstance(x.value, ast.Name) and x.value.id == 'self' and x.attr not in ('environ',)]
        lowered = [x for x in ast.walk(ax_) if isinstance(x, ast.Call) and call_attr(x) in ('lower', 'upper', 'casefold', 'title')]
        if not raw_ and not via_prop and not lowered:
            R.undecided('C07.d', fb_, c_, 'boundary source', f'`{short(ax_)}` is neither the raw CONTENT_TYPE header nor a recognised view of it')
            continue
        R.ob('C07.d', fb_, c_, bool(raw_), text='the boundary is cut out of the raw Content-Type header', detail='' if raw_ else
             f'the boundary is matched in `{short(ax_)}`, a normalised view of the header (request.content_type is lower-cased as a whole): a boundary with upper-case '
             f'letters (----WebKitFormBoundary7MA4YWxkTrZu0gW) reaches the scanner lower-cased and its delimiter lines are never found',
             why='the form round-trips for all legal boundary strings', key_extra='boundary-source')

    # ---- c
    po = P.func(f'{BM}:BodyMixin.POST')
    g, rd = po.cfg, po.rd
    fors = [n for n in walk_shallow(po.node) if isinstance(n, ast.For) and any(
        isinstance(x, ast.Call) and call_attr(x) == 'iter_items' for x in rd.closure_nodes(n.iter, g.nodes_for(n)[0]))]
    R.require(len(fors) == 1, 'POST: item loop not found')
    lp = fors[0]
    item = lp.target.id
    # names by role
    def _env_store(key):
        for st in walk_shallow(po.node):
            if isinstance(st, ast.Assign) and any(isinstance(t, ast.Subscript) and is_const(t.slice, key) for t in st.targets):
                for t in st.targets:
                    if isinstance(t, ast.Name):
                        return t.id
        return None
    forms_n, files_n = _env_store('ombott.request.forms'), _env_store('ombott.request.files')
    rets_ = [n for n in walk_shallow(po.node) if isinstance(n, ast.Return) and isinstance(n.value, ast.Name)]
    post_n = rets_[-1].value.id if rets_ else None
    R.require(forms_n and files_n and post_n, 'POST: forms / files / post containers not found by role')
    its = [d for n in g.nodes for d in rd.gen.get(n, []) if d.kind == 'assign' and T._inside(d.stmt, lp.body) and
           ((isinstance(d.value, ast.Call) and dotted(d.value.func) == 'FileUpload') or src(d.value) == f'{item}.value')]
    it_n = its[0].name if its else None
    dcts = [d for n in g.nodes for d in rd.gen.get(n, []) if d.kind == 'assign' and T._inside(d.stmt, lp.body) and src(d.value) in (forms_n, files_n)]
    dct_n = dcts[0].name if dcts else None
    sets_ = [d for n in g.nodes for d in rd.gen.get(n, []) if d.kind == 'assign' and isinstance(d.value, ast.Call) and dotted(d.value.func) == 'set' and not d.value.args]
    lst_n = sets_[0].name if sets_ else None
    R.require(it_n and dct_n and lst_n, 'POST: per-item names not found by role')
    # routing by filename
    rt = [n for n in g.nodes if n.kind == 'test' and src(n.ast) == f'{item}.filename' and T._inside(n.ast, lp.body)]
    ok = False
    if rt:
        t = rt[0]
        tdefs = {d.name: src(d.value) for s in g.reachable_from(T.succ_by_label(t, 'true'), avoid_nodes=[]) if s.kind == 'stmt' for d in rd.gen.get(s, [])
                 if g.edge_dominates(t, 'true', s)}
        fdefs = {d.name: src(d.value) for s in g.reachable_from(T.succ_by_label(t, 'false')) if s.kind == 'stmt' for d in rd.gen.get(s, [])
                 if g.edge_dominates(t, 'false', s)}
        ok = files_n in tdefs.values() and forms_n in fdefs.values() and any('FileUpload(' in v for v in tdefs.values()) \
            and f'{item}.value' in fdefs.values()
    R.ob('C07.c', po, rt[0].ast if rt else lp, ok, text='item with a file name -> FileUpload into files, else value into forms', detail='' if ok else
         'parts are not routed to exactly one of forms / files by the presence of a file name')
    fu = [c for c in walk_shallow(po.node) if isinstance(c, ast.Call) and dotted(c.func) == 'FileUpload']
    ok = bool(fu) and [src(a) for a in fu[0].args] == [f'{item}.file', f'{item}.name', f'{item}.filename', f'{item}.headers']
    R.ob('C07.c', po, fu[0] if fu else po.node, ok, text='FileUpload(item.file, item.name, item.filename, item.headers)', detail='' if ok else
         'the upload wrapper does not get (file, name, filename, headers) of the same part')
    # key = item.name
    keyd = [d for n in g.nodes for d in rd.gen.get(n, []) if d.kind == 'assign' and src(d.value) == f'{item}.name' and T._inside(d.stmt, lp.body)]
    # ... or the field name used as it is
    direct = [x for x in walk_shallow(lp) if isinstance(x, ast.Subscript) and isinstance(x.ctx, ast.Store) and dotted(x.value) == post_n
              and src(x.slice) == f'{item}.name']
    R.ob('C07.c', po, keyd[0].stmt if keyd else (direct[0] if direct else lp), bool(keyd or direct), text='key = item.name',
         detail='' if keyd or direct else 'the collection key is not the field name', nontrivial=False)
    key = keyd[0].name if keyd else (f'{item}.name' if direct else 'key')
    # seen-before decided by membership
    seen_tests = []
    for n in g.nodes:
        if n.kind != 'test' or not T._inside(n.ast, lp.body):
            continue
        t, neg = strip_not(n.ast)
        cp = compare_parts(t)
        if cp and cp[1] in (ast.In, ast.NotIn) and src(cp[0]) == key and src(cp[2]) == post_n:
            seen_tests.append((n, 'membership'))
        elif isinstance(t, ast.Name):
            for d in rd.at(n, t.id):
                if d.value is not None and ((isinstance(d.value, ast.Call) and call_attr(d.value) == 'get' and dotted(d.value.func.value) == post_n) or
                                            (isinstance(d.value, ast.Subscript) and dotted(d.value.value) == post_n)):
                    seen_tests.append((n, 'truthiness'))
        elif cp and cp[1] in (ast.IsNot, ast.Is) and is_const(cp[2], None) and isinstance(cp[0], ast.Name):
            for d in rd.at(n, cp[0].id):
                if d.value is not None and isinstance(d.value, ast.Call) and call_attr(d.value) == 'get' and dotted(d.value.func.value) == post_n:
                    seen_tests.append((n, 'membership'))
    R.require(seen_tests, 'POST: test for a repeated field name not found')
    for (n, how) in seen_tests:
        ok = how == 'membership'
        R.ob('C07.c', po, n.ast, ok, text=f'repeated name decided by {how}: {short(n.ast)}', detail='' if ok else
             'whether a name was seen before is decided by the truthiness of its stored value: an earlier empty text value counts as '
             '"not seen" and is overwritten (tag="" then tag="x" yields "x" instead of ["", "x"])',
             why='repeated names are collected in submission order, empty values included')
    # promotion once, append afterwards
    prom = [st for st in walk_shallow(lp) if isinstance(st, ast.Assign) and isinstance(st.value, ast.List) and len(st.value.elts) == 1
            and any(isinstance(t, ast.Subscript) and dotted(t.value) == post_n for t in st.targets)]
    ok = bool(prom) and any(isinstance(t, ast.Subscript) and dotted(t.value) == dct_n for t in prom[0].targets)
    if ok:
        t = enclosing(prom[0], ast.If)
        ok = t is not None and lst_n in names_loaded(t.test) and any(isinstance(c, ast.Call) and dotted(c.func) == f'{lst_n}.add' for c in ast.walk(t))
    R.ob('C07.c', po, prom[0] if prom else lp, ok, text='second value: post[key] = dct[key] = [first], once (listified)', detail='' if ok else
         'a repeated name is not promoted to one list shared by POST and forms/files exactly once')
    apps = [c for c in walk_shallow(lp) if isinstance(c, ast.Call) and call_attr(c) == 'append' and c.args and src(c.args[0]) == it_n]
    ok = len(apps) == 1 and not any(isinstance(c, ast.Call) and call_attr(c) in ('insert', 'sort', 'reverse') for c in walk_shallow(lp))
    R.ob('C07.c', po, apps[0] if apps else lp, ok, text='later values appended in iteration order', detail='' if ok else 'later values of a repeated name are not appended at the end')
    first = [st for st in walk_shallow(lp) if isinstance(st, ast.Assign) and src(st.value) == it_n and len(st.targets) == 2]
    ok = bool(first) and {src(t) for t in first[0].targets} == {f'{post_n}[{key}]', f'{dct_n}[{key}]'}
    R.ob('C07.c', po, first[0] if first else lp, ok, text='first value: post[key] = dct[key] = it', detail='' if ok else 'the first value is not stored in both POST and forms/files')
    # iter_items alternates headers / data
    ii = P.func(f'{MP}:FieldStorage.iter_items')
    pr = section_pairing(ii)
    if pr is None:
        R.undecided('C07.c', ii, ii.node, 'iter_items: pairing of header and data sections', 'neither next(it, None) pairs nor a loop over zip(it, it)')
    else:
        hname_, dname_, ok, where_ = pr
        asserts = [a for a in walk_shallow(ii.node) if isinstance(a, ast.Assert)]
        # (section_pairing found both roles through such asserts already; the names may be module-level constants)
        def _names(a_):
            return {const(T.module_value(ii, x)) for x in ast.walk(a_.test) if isinstance(x, (ast.Constant, ast.Name))}
        ok = ok and any('headers' in _names(a) for a in asserts) and any('data' in _names(a) for a in asserts)
        R.ob('C07.c', ii, where_, ok, text='sections consumed pairwise: headers, then data', detail='' if ok else
             'header and data sections are not paired strictly alternately')
    ys = T.yield_nodes(ii.cfg)
    flds = [d.name for n in ii.cfg.nodes for d in ii.rd.gen.get(n, []) if d.kind == 'assign' and isinstance(d.value, ast.Call) and dotted(d.value.func) == 'cls']
    ok = len(ys) == 1 and bool(flds) and src([x for x in walk_shallow(ys[0].ast) if isinstance(x, ast.Yield)][0].value) == flds[0]
    R.ob('C07.c', ii, ys[0].ast if ys else ii.node, ok, text='one field yielded per pair', detail='' if ok else 'not exactly one field per header/data pair', nontrivial=False)

    # ---- d
    fr = P.func(f'{MP}:FieldStorage.read')
    g, rd = fr.cfg, fr.rd
    reads = [c for c in walk_shallow(fr.node) if isinstance(c, ast.Call) and call_attr(c) == 'read' and dotted(c.func.value) == fr.params[1]]
    R.require(len(reads) == 2, 'FieldStorage.read: two section reads expected')
    for i, c in enumerate(reads):
        cn = g.node_of_stmt(c)[0]
        sz = c.args[0] if c.args else None
        seeks = [x for x in walk_shallow(fr.node) if isinstance(x, ast.Call) and call_attr(x) == 'seek' and dotted(x.func.value) == fr.params[1]]
        ok = False
        if isinstance(sz, ast.Name):
            for sk_ in seeks:
                skn = g.node_of_stmt(sk_)[0]
                if g.dominates(skn, cn) and not any(g.can_reach(skn, g.node_of_stmt(o)[0]) and g.can_reach(g.node_of_stmt(o)[0], cn) for o in seeks if o is not sk_):
                    st_name = src(sk_.args[0])
                    sdefs = rd.at(cn, sz.id)
                    ok = all(isinstance(d.value, ast.BinOp) and isinstance(d.value.op, ast.Sub) and src(d.value.right) == st_name for d in sdefs) and bool(sdefs)
                    if ok:
                        # start/end come from the same section tuple
                        sd = rd.at(skn, st_name)
                        ed = rd.at(cn, src(sdefs[0].value.left))
                        ok = bool(sd) and bool(ed) and all(a.stmt is b.stmt for a in sd for b in ed)
        R.ob('C07.d', fr, c, ok, text=f'section read #{i + 1}: seek(start); read(end - start) of one section', detail='' if ok else
             'a header block / text value is not read from exactly its own section', key_extra=f'read{i}')

    # ---- e: shared scanner-state rules
    sub = _Sub(R, 'C07.e')
    c06.check_eat_data_resets(P, sub, 'C07.e')
    consts = c06.module_bytes_consts(P)
    c06.check_end_headers(P, sub, consts)
    check_refuted_window(P, R)
    c06.check_extra_state(P, sub, 'C07.e', 'C07.e')
    c06.check_sentinels(P, sub, 'C07.e')
    # a body larger than the read buffer is scanned in several chunks: the chunk-boundary clauses of C06 are premises here too
    c06.check_method_identity(P, sub, 'C07.e')
    c06.check_eater_reset(P, sub, 'C07.e')
    c06.check_bytes_vs_int(P, sub, 'C07.e')
    c06.check_short_window_decisions(P, sub, 'C07.e')
    check_boundary_refusals(P, R)
    check_window_hides_source(P, R, 'C07.a')
    # the same form arrives under chunked framing: the decoder accepts every legal spelling of a chunk (premise from C05)
    from ..report import run_premise
    from . import c05 as _c05
    run_premise(R, _c05, P, {'C05.d'}, 'C07.c', 'the same fields arrive under chunked framing, whatever legal spelling the chunk sizes have')


def check_upload_window(P, R, rid='C07.a'):
    """the file object of an upload is a window of the shared body buffer: it reads its own part only, at its own position, whatever other windows did"""
    # ---- a
    from .c19 import Lin
    rd_ = P.func(f'{MP}:BytesIOProxy.read')
    g, rd = rd_.cfg, rd_.rd

    def _lin(e):
        if isinstance(e, ast.Constant) and type(e.value) is int:
            return Lin(e.value)
        if isinstance(e, ast.Name):
            return Lin.sym(e.id)
        if isinstance(e, ast.Attribute) and dotted(e):
            return Lin.sym(dotted(e))
        if isinstance(e, ast.BinOp) and isinstance(e.op, (ast.Add, ast.Sub)):
            l_, r_ = _lin(e.left), _lin(e.right)
            if l_ is None or r_ is None:
                return None
            return l_ + r_ if isinstance(e.op, ast.Add) else l_ - r_
        if isinstance(e, ast.UnaryOp) and isinstance(e.op, ast.USub):
            v_ = _lin(e.operand)
            return None if v_ is None else Lin(0) - v_
        if isinstance(e, ast.Call) and dotted(e.func) in ('min', 'max') and len(e.args) == 2 and not e.keywords:
            parts = [_lin(x) for x in e.args]
            if None in parts:
                return None
            return Lin.sym(f'{dotted(e.func)}({", ".join(sorted(repr(x) for x in parts))})')
        return None
    # the window position is kept absolute (self._pos starts at `start`) or relative to the start of the part (starts at 0); A is the absolute position
    init = P.func(f'{MP}:BytesIOProxy.__init__')
    inits = [st for st in walk_shallow(init.node) if isinstance(st, ast.Assign) and any(dotted(t) == 'self._pos' for t in st.targets)]
    R.require(len(inits) == 1, 'BytesIOProxy.__init__: expected one store of self._pos')
    iv = T.expand(init, inits[0].value, init.cfg.node_of_stmt(inits[0])[0])
    if isinstance(iv, ast.Name) and iv.id == init.params[2]:
        rep = 'abs'
        A = Lin.sym('self._pos')
    elif is_const(iv, 0) and type(iv.value) is int:
        rep = 'rel'
        A = Lin.sym('self._st') + Lin.sym('self._pos')
    else:
        R.undecided(rid, init, inits[0], 'BytesIOProxy: representation of the window position',
                    f'self._pos starts as `{short(iv)}`: neither the start of the part nor 0')
        return
    st_ok = [st for st in walk_shallow(init.node) if isinstance(st, ast.Assign) and any(dotted(t) == 'self._st' for t in st.targets)
             and isinstance(st.value, ast.Name) and st.value.id == init.params[2]]
    R.ob(rid, init, inits[0], bool(st_ok), text=f'window position kept {"absolute" if rep == "abs" else "relative to the start of the part"}; it starts at the start of the part',
         detail='' if st_ok else 'self._st is not the start of the part', nontrivial=False)

    def lin_at(fn, e, at):
        return _lin(T.expand(fn, e, at))
    src_reads = T.calls_to(rd_, 'self._src.read')
    R.require(src_reads, 'BytesIOProxy.read: no read of the source')
    want_rem = Lin.sym('self._end') - A
    rem_defs = [d for n in g.nodes for d in rd.gen.get(n, []) if d.kind == 'assign' and d.value is not None and lin_at(rd_, d.value, n) == want_rem]
    R.require(rem_defs, 'BytesIOProxy.read: remainder `self._end - <position>` not computed')
    rem = rem_defs[0].name
    advs_all = [n for n in g.nodes if n.kind == 'stmt' and isinstance(n.ast, (ast.AugAssign, ast.Assign)) and
                any(dotted(t) == 'self._pos' for t in ([n.ast.target] if isinstance(n.ast, ast.AugAssign) else n.ast.targets))]
    # the remainder is measured before the position moves
    R.ob(rid, rd_, rem_defs[0].stmt, not any(g.can_reach(a_, rem_defs[0].node) for a_ in advs_all), text=f'{rem} = end of the part - position, before the position moves',
         detail='the remainder is computed after the position was advanced', nontrivial=False)
    for c in src_reads:
        cn = g.node_of_stmt(c)[0]
        a = c.args[0] if c.args else None
        ok, det = False, 'the source is read without a size'
        if isinstance(a, ast.Name):
            defs = rd.at(cn, a.id)
            ok = bool(defs)
            for d in defs:
                v = d.value
                good = (isinstance(v, ast.Name) and v.id == rem) or (
                    isinstance(v, ast.Call) and dotted(v.func) == 'min' and rem in {src(x) for x in v.args})
                if not good:
                    ok = False
                    det = f'the size read from the source may be `{short(v) if v is not None else d.kind}`, not bounded by the remainder of the part'
                elif isinstance(v, ast.Call):
                    # min(requested, remainder) is a bound only for a positive request: min(-1, remainder) is -1, and read(-1) reads to the end of the shared buffer
                    for o_ in [x for x in v.args if src(x) != rem]:
                        pos_ = isinstance(o_, ast.Constant) and isinstance(o_.value, int) and o_.value > 0
                        if isinstance(o_, ast.Name):
                            for (e_, holds_, _t) in T.guard_atoms(rd_, d.node):
                                cp_ = compare_parts(e_)
                                if cp_ and isinstance(cp_[0], ast.Name) and cp_[0].id == o_.id and isinstance(cp_[2], ast.Constant) and type(cp_[2].value) is int \
                                        and rd.same_defs(_t, d.node, o_.id):
                                    k_ = cp_[2].value
                                    if holds_ and ((cp_[1] is ast.Gt and k_ >= 0) or (cp_[1] is ast.GtE and k_ >= 1)):
                                        pos_ = True
                                    if not holds_ and ((cp_[1] is ast.LtE and k_ >= 0) or (cp_[1] is ast.Lt and k_ >= 1)):
                                        pos_ = True          # `not (sz <= 0)`
                        if not pos_:
                            ok = False
                            det = (f'`{short(v)}` bounds the size only when `{short(o_)}` is positive: a negative size (read(-1), the usual spelling of "everything") is smaller than '
                                   f'the remainder, passes through min() and makes the source read to its very end - the bytes of every later part and the closing delimiter')
            if ok:
                det = ''
        R.ob(rid, rd_, c, ok, detail=det, why='a window that reads past its end returns bytes of the next part (delimiter, headers, other fields)')
        # seek to own position immediately before
        seek_calls = [x for x in walk_shallow(rd_.node) if isinstance(x, ast.Call) and dotted(x.func) == 'self._src.seek' and x.args
                      and lin_at(rd_, x.args[0], g.node_of_stmt(x)[0]) == A]
        seeks = [g.node_of_stmt(x)[0] for x in seek_calls]
        ok = bool(seeks) and g.must_pass(g.entry, cn, seeks)
        R.ob(rid, rd_, c, ok, text='self._src.seek(<own position>) before the read', detail='' if ok else
             'the shared source is read at whatever position another window left it', key_extra='seek')
        # position advanced by the same size; the seek uses the position before the advance
        advs = [n for n in g.nodes if n.kind == 'stmt' and isinstance(n.ast, ast.AugAssign) and dotted(n.ast.target) == 'self._pos'
                and isinstance(n.ast.op, ast.Add) and isinstance(a, ast.Name) and src(n.ast.value) == a.id]
        # (the position the seek uses may have been computed into a local first: that, too, before the advance)
        pos_reads = list(seeks)
        for x in seek_calls:
            for (_e, dn) in rd.closure(x.args[0], g.node_of_stmt(x)[0]):
                if dn is not None and dn in g.nodes:
                    pos_reads.append(dn)
        ok = len(advs) == 1 and len(advs_all) == 1 and seeks and g.must_pass(g.entry, advs[0], seeks) and not any(g.can_reach(advs[0], s) for s in pos_reads)
        R.ob(rid, rd_, advs[0].ast if advs else c, ok, text='self._pos += <size read> after the seek', detail='' if ok else
             'the window position is not advanced by exactly the size read (or is advanced before the seek)', key_extra='advance')
    # non-positive remainder -> b''
    zt = [n for n in g.nodes if n.kind == 'test' and compare_parts(n.ast) and src(compare_parts(n.ast)[0]) == rem
          and compare_parts(n.ast)[1] in (ast.LtE, ast.Lt) and isinstance(compare_parts(n.ast)[2], ast.Constant)]
    ok = False
    for n in zt:
        cpx = compare_parts(n.ast)
        if (cpx[1] is ast.LtE and cpx[2].value == 0) or (cpx[1] is ast.Lt and cpx[2].value == 1):
            for s in T.succ_by_label(n, 'true'):
                ok = ok or (s.kind == 'stmt' and isinstance(s.ast, ast.Return) and is_const(s.ast.value, b''))
            ok = ok and all(g.edge_dominates(n, 'false', g.node_of_stmt(c)[0]) for c in src_reads)
    R.ob(rid, rd_, zt[0].ast if zt else rd_.node, ok, text=f'{rem} <= 0 -> return b"" before any read', detail='' if ok else
         'an exhausted window can still read from the source')
    sk = P.func(f'{MP}:BytesIOProxy.seek')
    sg, srd = sk.cfg, sk.rd
    pos_stores = [n for n in sg.nodes if n.kind == 'stmt' and isinstance(n.ast, ast.Assign) and any(dotted(t) == 'self._pos' for t in n.ast.targets)]

    def nonneg(e, at):
        # e >= 0 whenever control is at `at`
        if isinstance(e, ast.Constant) and isinstance(e.value, int):
            return e.value >= 0
        if isinstance(e, ast.Call) and dotted(e.func) == 'max' and any(isinstance(a_, ast.Constant) and isinstance(a_.value, int) and a_.value >= 0 for a_ in e.args):
            return True
        if isinstance(e, ast.Name):
            tests = []
            for t in sg.nodes:
                cp_ = compare_parts(t.ast) if t.kind == 'test' and t.ast is not None else None
                if cp_ and isinstance(cp_[0], ast.Name) and cp_[0].id == e.id and cp_[1] is ast.Lt and is_const(cp_[2], 0):
                    fix = [m for m in T.succ_by_label(t, 'true') if m.kind == 'stmt' and isinstance(m.ast, ast.Assign) and any(
                        isinstance(x, ast.Name) and x.id == e.id for x in m.ast.targets) and nonneg(m.ast.value, m)]
                    if fix:
                        tests.append(t)
            defs = srd.at(at, e.id)
            return bool(defs) and all((d.value is not None and d.kind == 'assign' and not isinstance(d.value, ast.Name) and nonneg(d.value, d.node))
                                      or (tests and sg.must_pass(d.node, at, tests)) for d in defs)
        return False

    def clamped(v, at):
        # v in [self._st, self._end]
        if isinstance(v, ast.Name):
            defs = srd.at(at, v.id)
            return bool(defs) and all(d.value is not None and clamped(d.value, d.node) for d in defs)
        if isinstance(v, ast.Call) and dotted(v.func) == 'min' and len(v.args) == 2:
            a_, b_ = v.args
            if src(b_) == 'self._end':
                a_, b_ = b_, a_
            if src(a_) == 'self._end':
                # lower bound of the other argument
                if isinstance(b_, ast.BinOp) and isinstance(b_.op, ast.Add):
                    l_, r_ = b_.left, b_.right
                    if src(r_) == 'self._st':
                        l_, r_ = r_, l_
                    return src(l_) == 'self._st' and nonneg(r_, at)
                if isinstance(b_, ast.Call) and dotted(b_.func) == 'max' and any(src(x) == 'self._st' for x in b_.args):
                    return True
            return False
        if isinstance(v, ast.Call) and dotted(v.func) == 'max' and len(v.args) == 2 and any(src(x) == 'self._st' for x in v.args):
            o_ = [x for x in v.args if src(x) != 'self._st'][0]
            return isinstance(o_, ast.Call) and dotted(o_.func) == 'min' and any(src(x) == 'self._end' for x in o_.args)
        return False
    def clamped_rel(v, at):
        # v in [0, self._end - self._st]: an absolute position of the window minus the start of the part, or min(<non-negative>, length of the part)
        if isinstance(v, ast.Name):
            defs = srd.at(at, v.id)
            return bool(defs) and all(d.value is not None and clamped_rel(d.value, d.node) for d in defs)
        if isinstance(v, ast.BinOp) and isinstance(v.op, ast.Sub) and src(v.right) == 'self._st':
            return clamped(v.left, at)
        if isinstance(v, ast.Call) and dotted(v.func) == 'min' and len(v.args) == 2:
            for a_, b_ in (v.args, v.args[::-1]):
                if _lin(T.expand(sk, b_, at, keep=tuple(sk.params))) == Lin.sym('self._end') - Lin.sym('self._st') and nonneg(a_, at):
                    return True
        return False
    R.require(pos_stores, 'BytesIOProxy.seek: no store of self._pos')
    for n in pos_stores:
        ok = clamped(n.ast.value, n) if rep == 'abs' else clamped_rel(n.ast.value, n)
        R.ob(rid, sk, n.ast, ok, text=f'`{short(n.ast)}`: the new position lies in [start of the part, end of the part]', detail='' if ok else
             f'`{short(n.ast)}` can move the window position outside [self._st, self._end] (e.g. a seek before the start of the upload is clamped to the start of the whole '
             f'body, or not at all): read() then returns the preceding delimiter, headers and other parts\' bytes',
             why='no byte of one part appears in another', key_extra='seek-clamp')
    # the window is built from the data section of the same field
    fr = P.func(f'{MP}:FieldStorage.read')
    wins = [c for c in walk_shallow(fr.node) if isinstance(c, ast.Call) and dotted(c.func) == 'BytesIOProxy']
    ok = bool(wins) and len(wins[0].args) == 2 and isinstance(wins[0].args[1], ast.Starred) and src(wins[0].args[1].value) == fr.params[3] \
        and src(wins[0].args[0]) == fr.params[1]
    R.ob(rid, fr, wins[0] if wins else fr.node, ok, text='file = BytesIOProxy(src, *data_section)', detail='' if ok else
         'the upload window is not the data section of its own part')



def check_window_hides_source(P, R, rid):
    """nothing an upload's file object hands out gives access to the shared body buffer except `read()` through the window: not the buffer itself, not its
    descriptor (`fileno()` - a sendfile-style file wrapper would stream the whole request body), not its raw buffer"""
    cls = P.cls(f'{MP}:BytesIOProxy')
    n = 0
    for mname, m in cls.methods.items():
        if isinstance(m.node, ast.Lambda):
            continue
        for (v, at, rst) in T.result_values(m):
            if v is None:
                continue
            LEAKY = {'fileno', 'getbuffer', 'getvalue', 'detach', 'readall', 'readline', 'readlines', 'read', 'readinto', 'raw', 'buffer', '__iter__', '__next__'}
            cl_ = m.rd.closure_nodes(v, at)
            leaks = [x for x in cl_ if isinstance(x, ast.Attribute) and dotted(x) == 'self._src' and not isinstance(getattr(x, '_p', None), ast.Attribute)]
            leaks += [x for x in cl_ if isinstance(x, ast.Attribute) and dotted(x.value) == 'self._src' and x.attr in LEAKY]
            if not leaks:
                continue
            n += 1
            # the one legitimate use: the bytes read through the window
            okr = mname == 'read' and isinstance(v, ast.Call) and dotted(v.func) == 'self._src.read'
            R.ob(rid, m, rst, okr, text=f'BytesIOProxy.{mname} returns `{short(v)}`', detail='' if okr else
                 f'BytesIOProxy.{mname}() returns `{short(v)}`, which gives access to the shared body buffer itself: through its descriptor a sendfile-style `wsgi.file_wrapper` '
                 f'streams the whole request body from offset 0 instead of the upload - the bytes of every other part included',
                 why='no byte of one part appears in another', key_extra=f'source-leak:{mname}')
    return n


def check_boundary_refusals(P, R):
    """the scanner's constructor refuses no legal boundary: a length limit is stated for the boundary itself (1..70 characters, RFC 2046), not for the delimiter
    built from it"""
    from .c19 import Lin
    f = P.func(f'{MP}:BodyMarkuper.__init__')
    g, rd = f.cfg, f.rd
    bp = f.params[1]

    def length_of(name, at, depth=0):
        # len(name) at `at` as  len(param) + k
        ds = rd.at(at, name)
        if len(ds) != 1 or depth > 3:
            return None
        d = ds[0]
        if d.kind == 'param':
            return 0 if name == bp else None
        v = d.value
        if d.kind == 'assign' and isinstance(v, ast.BinOp) and isinstance(v.op, ast.Add):
            tot = 0
            for side in (v.left, v.right):
                if isinstance(side, ast.Name) and rd.is_local(side.id):
                    k = length_of(side.id, d.node, depth + 1)
                    if k is None:
                        return None
                    tot += k
                else:
                    try:
                        cv = T.ceval(f, side)
                    except T.CannotEval:
                        return None
                    if not isinstance(cv, (bytes, str)):
                        return None
                    tot += len(cv)
            return tot
        return None
    for tn in g.nodes:
        if tn.kind != 'test':
            continue
        cp = compare_parts(tn.ast)
        if not (cp and isinstance(cp[0], ast.Call) and dotted(cp[0].func) == 'len' and cp[0].args and isinstance(cp[0].args[0], ast.Name) and cp[1] in (ast.Gt, ast.GtE)):
            continue
        reach = g.reachable_from(T.succ_by_label(tn, 'true'))
        if g.exit in reach or not any(m.kind == 'stmt' and isinstance(m.ast, ast.Raise) for m in reach):
            continue
        try:
            lim = T.ceval(f, cp[2])
        except T.CannotEval:
            continue
        k = length_of(cp[0].args[0].id, tn)
        if not isinstance(lim, int) or k is None:
            R.undecided('C07.d', f, tn.ast, 'boundary length limit', f'`{short(tn.ast)}` cannot be related to the length of the boundary parameter')
            continue
        # refused when len(boundary) + k > lim  (or >=)
        first_refused = lim - k + (1 if cp[1] is ast.Gt else 0)
        ok = first_refused > 70
        R.ob('C07.d', f, tn.ast, ok, text=f'`{short(tn.ast)}`: boundaries are refused from {first_refused} characters on', detail='' if ok else
             f'`{short(tn.ast)}` measures `{cp[0].args[0].id}`, which is the boundary plus {k} more byte(s): boundaries of {first_refused}..70 characters - legal by RFC 2046 - are '
             f'refused and the whole form is rejected',
             why='every legal boundary string is accepted', key_extra='boundary-length')


def check_refuted_window(P, R):
    """C06.e's window clause under this property: a refuted remainder must not skip the delimiter search of that window"""
    ed = P.func(f'{MP}:BodyMarkuper._eat_data')
    g = ed.cfg
    er = c06.eat_data_roles(P)
    loops = [n for n in walk_shallow(ed.node) if isinstance(n, (ast.While, ast.For)) and any(
        isinstance(x, ast.Call) and call_attr(x) == 'match_tail' for x in walk_shallow(n))]
    R.require(loops, '_eat_data: the window scanning loop was not found')
    lp = loops[0]
    mts = [n for n in g.nodes if n.kind == 'stmt' and T._inside(n.ast, lp.body) and any(isinstance(x, ast.Call) and call_attr(x) == 'match_tail' for x in walk_shallow(n.ast))]
    refs = [n for n in g.nodes if n.kind == 'stmt' and isinstance(n.ast, ast.Assign) and is_const(n.ast.value, None)
            and {dotted(t) for t in n.ast.targets} == ({er['trest_len'], er['trest']} - {None}) and T._inside(n.ast, lp.body)]
    adv = [g.node_of_stmt(x)[0] for x in walk_shallow(lp) if isinstance(x, ast.AugAssign) and dotted(x.target) == er['start']]
    if isinstance(lp, ast.For):
        adv = [T.loop_head(g, lp)]
    R.require(refs and mts and adv, '_eat_data: window scan anchors not found')
    for rf in refs:
        ok = all(g.must_pass(rf, a, mts) for a in adv)
        R.ob('C07.e', ed, rf.ast, ok, text='after a refuted remainder the window is still searched for the delimiter', detail='' if ok else
             'the window that disproves a look-alike is skipped without being searched: an upload swallows the next delimiter, headers and fields',
             why='no byte of one part appears in another')


class _Sub:
    def __init__(self, R, new):
        self._R, self._new = R, new

    def ob(self, rule, *a, **kw):
        return self._R.ob(self._new, *a, **kw)

    def __getattr__(self, k):
        return getattr(self._R, k)
