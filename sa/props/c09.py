"""C09 - Each response depends on its own request only; retained state is bounded."""
import ast

from ..astutil import (walk_shallow, dotted, call_attr, short, src, stmt_of, names_loaded, is_const, enclosing,
                       compare_parts, strip_not, const, bool_operands)
from ..loader import AnalysisError
from .. import rules as T
from .. import effects as E

ID = 'C09'
DECIDED = ('(a) every return of Ombott._handle - including the early 400 for an undecodable path and the returns inside its '
           'exception handlers - is dominated by request.__init__(environ) and response.__init__() on the application\'s '
           'per-thread objects, and BaseResponse.__init__ resets status, headers, cookies and body; (b) no long-lived '
           'exception object is raised: every `raise x` raises a freshly constructed object, a caught one, a per-request '
           'stored one, or a shared instance whose traceback was reset on the way (with_traceback(None)); module-level or '
           'class-level exception instances are never raised; (c) HTTPResponse.apply copies header entries into the '
           'response\'s own dictionary (clear + update) and never re-points the response at the stored object\'s dictionary, '
           'and the framework\'s own stored responses (errors_map) carry no cookies and no list-valued headers; (d) the only '
           'writes to module-level / class-level containers are the frozen table (error template lines: slice assignment of '
           'file content; filter cache: keyed by rule text at registration) - none keyed by request data.')
DECIDED_MORE = ('Also: per-request __init__ and the other methods of the long-lived request/response objects add only to containers that __init__ re-creates; no store into a caught response/error object.')
DECIDED = DECIDED + ' ' + DECIDED_MORE
DECIDED_R6 = ('Round 6: class-level containers handed out and default-argument objects outlive the request; the applied response jar becomes the live jar only when it holds cookies.')
DECIDED = DECIDED + ' ' + DECIDED_R6
DECIDED_R7 = ('Round 7: no mutator call on a caught / received response object.')
DECIDED = DECIDED + ' ' + DECIDED_R7
DECIDED_R8 = ("Round 8: the handlers of wsgi's outer try read nothing from the per-thread objects; every container BaseResponse.__init__ stores is made by that call; apply() only reads the applied response.")
DECIDED = DECIDED + ' ' + DECIDED_R8
DECIDED_R9 = ('Round 9: a constant flipped on a class attribute is a latch; the interpreter-slot clause of C08.d (c, d).')
DECIDED = DECIDED + ' ' + DECIDED_R9
NOT_DECIDED = ('equality of each response with the fresh-application response over all histories; liveness counts at run time '
               '(only the structural retention paths above).')
ASSUMPTIONS = ['request.__init__ / response.__init__ themselves do not raise', 'user handlers are outside the claim']

OM = 'ombott.ombott'
RS = 'ombott.response'

# (function, target, kind) -> reason.  Frozen after reading the pinned tree.
SHARED_WRITE_TABLE = {
    ('ombott.error_render:render', 'global:ombott.error_render._html_lns', 'slice-assign'):
        'idempotent: one slice assignment of the lines of the package\'s own error.html (same content whoever wins)',
    ('ombott.router.filter_factory:FilterFactory.make_filter', 'classattr:ombott.router.filter_factory:FilterFactory._filter_cache', 'item-assign'):
        'pure memo keyed by filter spec text at route registration time',
}


def analysed_funcs(P):
    return [f for f in P.all_funcs() if not f.module.name.endswith(('server_adapters', 'mixable'))]


def check_init_dominance(P, R, rid):
    h = P.func(f'{OM}:Ombott._handle')
    g, rd = h.cfg, h.rd
    req_init = []
    resp_init = []
    for c in walk_shallow(h.node):
        if isinstance(c, ast.Call) and isinstance(c.func, ast.Attribute) and c.func.attr == '__init__' and isinstance(c.func.value, (ast.Name, ast.Attribute)):
            n = g.node_of_stmt(c)[0]
            if isinstance(c.func.value, ast.Name):
                defs = rd.root_defs(n, c.func.value.id)
                vals = {src(d.value) for d in defs if d.value is not None}
            else:
                vals = {src(c.func.value)}      # self.request.__init__(environ) without a local alias
            if vals == {'self.request'}:
                ok_arg = len(c.args) == 1 and isinstance(c.args[0], ast.Name) and c.args[0].id == h.params[1]
                if ok_arg:
                    req_init.append(n)
            elif vals == {'self.response'}:
                if not c.args and not c.keywords:
                    resp_init.append(n)
    R.require(req_init and resp_init, '_handle: request.__init__(environ) / response.__init__() not found')
    rets = [n for n in g.nodes if n.kind == 'stmt' and isinstance(n.ast, ast.Return) and n in g.reachable()]
    R.require(rets, '_handle: no return')
    for r in rets:
        for role, inits in (('request.__init__(environ)', req_init), ('response.__init__()', resp_init)):
            # the init calls themselves are taken as non-raising (assumption): ignore their own exception edges
            avoid = {(n, 'exc') for n in req_init + resp_init}
            ok = not g.can_reach(g.entry, r, avoid_nodes=inits, avoid_edges=avoid)
            R.ob(rid, h, r.ast, ok, text=f'{short(r.ast)} <- {role}', detail='' if ok else
                 f'this return is reachable without {role} having run: the response is assembled on the per-thread objects as the '
                 f'previous request left them (its cookies, headers, URL)',
                 why='nothing set while serving an earlier request may appear in a later response', key_extra=role)
    return h, req_init, resp_init


def check_init_containers_fresh(P, R, rid, why):
    bi = P.func(f'{RS}:BaseResponse.__init__')
    # every store of the per-request containers is a container made by this call: adopting a caller's mapping makes later writes of this response land in an
    # object the application keeps
    def _fresh(v):
        if isinstance(v, ast.Constant) and v.value is None:
            return True
        if isinstance(v, (ast.Dict, ast.DictComp, ast.List, ast.ListComp)):
            return True
        if isinstance(v, ast.Call) and (dotted(v.func) or '').split('.')[-1] in ('dict', 'SimpleCookie', 'BaseCookie', 'OrderedDict', 'defaultdict', 'copy', 'deepcopy', 'list'):
            return True
        return False
    for st in walk_shallow(bi.node):
        if not isinstance(st, ast.Assign):
            continue
        tnames = [src(t) for t in st.targets]
        if any(t in ('self._headers', 'self._cookies') for t in tnames) or ('self.headers.dict' in tnames and src(st.value) != 'self._headers'):
            ok = _fresh(st.value)
            R.ob(rid, bi, st, ok, text=f'`{short(st)}`: the container is made by this call', detail='' if ok else
                 f'`{short(st)}` makes the response use an object that came from outside the call: what this response later adds (keyword headers, '
                 f'resp.headers[...] = ..) is written into the caller\'s mapping and is there for the next response built from it',
                 why=why, key_extra='adopted-container')


def check_critical_page_from_environ(P, R, rid):
    """_handle can fail before it re-initialised the per-thread objects (its first statements read the environ): whatever the handlers of wsgi's outer try
    read from self.request / self.response is then the previous request's"""
    w = P.func(f'{OM}:Ombott.wsgi')
    g, rd = w.cfg, w.rd
    n_seen = 0
    for t in walk_shallow(w.node):
        if not isinstance(t, ast.Try):
            continue
        if not any(isinstance(c, ast.Call) and isinstance(c.func, ast.Attribute) and c.func.attr == '_handle' for b in t.body for c in ast.walk(b)):
            continue
        for hd in t.handlers:
            for b in hd.body:
                for x in ast.walk(b):
                    if not (isinstance(x, ast.Attribute) and isinstance(x.ctx, ast.Load)):
                        continue
                    v = x.value
                    stale = None
                    if isinstance(v, ast.Attribute) and src(v) in ('self.request', 'self.response'):
                        stale = src(v)
                    elif isinstance(v, ast.Name):
                        ns = g.node_of_stmt(x)
                        if ns:
                            vals = {src(d.value) for d in rd.root_defs(ns[0], v.id) if d.value is not None}
                            if vals and vals <= {'self.request', 'self.response'}:
                                stale = sorted(vals)[0]
                    if stale:
                        n_seen += 1
                        R.ob(rid, w, x, False, text=f'`{short(x)}` in the critical-error handler', detail=
                             f'`{short(x)}` reads {stale} in a handler that is also entered when _handle failed before re-initialising the per-thread objects '
                             f'(e.g. an environ without PATH_INFO): the value is the previous request\'s and goes into this response',
                             why='nothing set while serving an earlier request may appear in a later response', key_extra='critical-page-stale')
    if not n_seen:
        R.ob(rid, w, w.node, True, text='the critical-error page is built from environ and the caught exception only')


def check(P, R):
    R.rule('C09.a', 're-initialisation dominates every exit of _handle', floor=8)
    R.rule('C09.b', 'no long-lived exception object is raised', floor=20)
    R.rule('C09.c', 'applying a stored response copies, never aliases', floor=4)
    R.rule('C09.d', 'shared containers written only per the frozen table', floor=2)

    check_init_dominance(P, R, 'C09.a')
    check_critical_page_from_environ(P, R, 'C09.a')
    check_error_objects_read_only(P, R, 'C09.c')
    # ... nor read through the slots the interpreter writes at every raise (whatever an earlier request's raise left there)
    from . import c08 as _c08
    _c08.check_no_interpreter_slots_read(P, R, 'C09.c')
    # BaseResponse.__init__ resets all per-request fields
    bi = P.func(f'{RS}:BaseResponse.__init__')
    g = bi.cfg
    need = {'_status_line', '_status_code', '_cookies', '_headers', 'body'}
    stores = {}
    for st in walk_shallow(bi.node):
        if isinstance(st, ast.Assign):
            for t in st.targets:
                if isinstance(t, ast.Attribute) and isinstance(t.value, ast.Name) and t.value.id == 'self':
                    stores.setdefault(t.attr, []).append(st)
    for name in sorted(need):
        sts = stores.get(name, [])
        ok = bool(sts) and any(g.must_pass(g.entry, g.exit, [g.node_of_stmt(s)[0]]) for s in sts)
        if ok and name in ('_cookies',):
            ok = any((isinstance(s.value, ast.Constant) and s.value.value is None) or
                     (isinstance(s.value, ast.Call) and not s.value.args and not s.value.keywords and (dotted(s.value.func) or '').split('.')[-1] in ('SimpleCookie', 'dict', 'BaseCookie'))
                     for s in sts)       # None, or a jar made by this call
        if ok and name == '_headers':
            ok = any(isinstance(s.value, ast.Dict) and not s.value.keys for s in sts)
        R.ob('C09.a', bi, sts[0] if sts else bi.node, ok, text=f'self.{name} reset by __init__', detail='' if ok else
             f'BaseResponse.__init__ does not reset {name} on every path: it survives from the previous request')
    check_init_containers_fresh(P, R, 'C09.a', 'nothing set while serving an earlier request may appear in a later response')
    hd = stores.get('status', [])
    R.ob('C09.a', bi, hd[0] if hd else bi.node, bool(hd), text='self.status reset by __init__', detail='' if hd else 'status not reset',
         nontrivial=False)
    # header view re-pointed at the fresh dict
    rp = [st for st in walk_shallow(bi.node) if isinstance(st, ast.Assign) and any(
        isinstance(t, ast.Attribute) and src(t) == 'self.headers.dict' for t in st.targets) and src(st.value) == 'self._headers']
    R.ob('C09.a', bi, rp[0] if rp else bi.node, bool(rp), text='self.headers.dict = self._headers (fresh dict)', detail='' if rp else
         'the header view keeps pointing at the previous request\'s dictionary')

    check_raises(P, R)
    check_apply(P, R)
    check_shared_writes(P, R, 'C09.d', skip_config_time=True)
    check_reinit_growth(P, R, 'C09.d')


def _lookup_like(v):
    """value expression that reads an existing object out of a container / attribute (not a construction)"""
    if isinstance(v, ast.Call):
        return call_attr(v) in ('get', 'pop', 'setdefault') and isinstance(v.func, ast.Attribute)
    return isinstance(v, (ast.Subscript, ast.Attribute, ast.Name))


def check_raises(P, R):
    for f in analysed_funcs(P):
        if isinstance(f.node, ast.Lambda):
            continue
        raises = [n for n in walk_shallow(f.node) if isinstance(n, ast.Raise) and n.exc is not None]
        if not raises:
            continue
        g, rd = f.cfg, f.rd
        for r in raises:
            ns = g.node_of_stmt(r)
            if not ns:
                continue
            rn = ns[0]
            e = r.exc
            ok, det = True, ''
            if isinstance(e, ast.Call):
                pass   # constructed / produced by a call at raise time
            elif isinstance(e, ast.Name):
                if rd.is_local(e.id) or e.id in f.params:
                    ok, det = local_raise_ok(P, f, e.id, rn)
                else:
                    shared = E.resolve_shared(P, f, e, rn)
                    if shared and not shared.startswith('class:'):
                        ok, det = False, f'raises the long-lived object {shared}'
            elif isinstance(e, ast.Attribute):
                base = e.value
                shared = E.resolve_shared(P, f, base, rn) if isinstance(base, (ast.Name, ast.Attribute)) else None
                if shared:
                    ok, det = False, f'raises an exception object stored on {shared}'
            R.ob('C09.b', f, r, ok, detail=det,
                 why='each raise of one instance appends frames to its __traceback__: the environ, input stream and body of every '
                     'earlier failing request stay reachable, growing with N')


def local_raise_ok(P, f, name, rn, depth=0):
    g, rd = f.cfg, f.rd
    defs = rd.at(rn, name)
    for d in defs:
        v = d.value
        if d.kind in ('except', 'param', 'for', 'with'):
            continue
        if d.kind != 'assign' or v is None:
            continue
        # freshened: x.with_traceback(None) / copy
        if isinstance(v, ast.Call) and isinstance(v.func, ast.Attribute) and v.func.attr == 'with_traceback' \
                and v.args and is_const(v.args[0], None):
            continue
        if isinstance(v, ast.Call) and (dotted(v.func) in ('copy.copy', 'copy.deepcopy') or call_attr(v) == 'copy'):
            continue
        if isinstance(v, ast.Call) and not _lookup_like(v):
            continue   # constructor or factory call in this invocation
        if isinstance(v, ast.Name):
            if rd.is_local(v.id) or v.id in f.params:
                if depth < 4:
                    ok, det = local_raise_ok(P, f, v.id, d.node, depth + 1)
                    if not ok:
                        # the outer name may be guarded between this def and the raise
                        if not _reaches_unfreshened(f, d, name, rn):
                            continue
                        return ok, det
                continue
            shared = E.resolve_shared(P, f, v, d.node)
            if shared and not shared.startswith('class:'):
                if _reaches_unfreshened(f, d, name, rn):
                    return False, (f'`{name}` is the module-level instance {shared}: one exception object shared by all requests '
                                   f'is raised again and again')
            continue
        if _lookup_like(v):
            # something taken out of a mapping / attribute: long-lived unless it is per-request
            base_cl = rd.closure_nodes(v, d.node)
            per_request = any(isinstance(x, ast.Attribute) and x.attr in ('error', 'environ') for x in base_cl) and not any(
                isinstance(x, ast.Attribute) and x.attr in ('errors_map', 'config') for x in base_cl)
            if per_request:
                continue
            if _reaches_unfreshened(f, d, name, rn):
                return False, (f'`{name} = {short(v)}` takes a stored (long-lived) object and raises it as it is, without resetting '
                               f'its traceback or copying it')
    return True, ''


def _reaches_unfreshened(f, d, name, rn):
    """def d of `name` reaches the raise node rn along a path on which it is known to be an exception *instance*:
    paths through the false edge of `isinstance(name, BaseException)` are not counted (raising a class builds a new
    instance)."""
    g = f.cfg
    avoid_edges = set()
    for n in g.nodes:
        if n.kind == 'test':
            t, neg = strip_not(n.ast)
            if isinstance(t, ast.Call) and dotted(t.func) == 'isinstance' and len(t.args) == 2 and src(t.args[0]) == name \
                    and any(x in src(t.args[1]) for x in ('BaseException', 'Exception')):
                avoid_edges.add((n, 'true' if neg else 'false'))
    others = [n for n in g.nodes for dd in f.rd.gen.get(n, []) if dd.name == name and dd is not d]
    if d.node is rn:
        return True
    return g.can_reach(d.node, rn, avoid_nodes=[o for o in others if o is not d.node], avoid_edges=avoid_edges)


_OBJECT_MUTATORS = {'setdefault', 'update', 'append', 'extend', 'add', 'insert', 'pop', 'popitem', 'clear', 'remove', 'discard', 'sort', 'reverse',
                    'set_cookie', 'delete_cookie', 'add_header', 'set_header', '__setitem__', '__delitem__'}


def check_error_objects_read_only(P, R, rid):
    """the error / response object an application method was handed (possibly one of the shared errors_map instances) is only read:
    no attribute or item store goes through a parameter of the request-path methods of Ombott"""
    app = P.cls(f'{OM}:Ombott')
    n_ = 0
    for name in sorted(E.REQUEST_PATH_APP_METHODS):
        m = app.methods.get(name)
        if m is None or isinstance(m.node, ast.Lambda):
            continue
        for st in walk_shallow(m.node):
            if isinstance(st, ast.Call) and isinstance(st.func, ast.Attribute) and st.func.attr in _OBJECT_MUTATORS:
                # a mutator called on (something inside) a caught / received object: `resp._headers.setdefault(..)`, `err.headers.update(..)`, `err.set_cookie(..)`
                b = st.func.value
                depth_ = 0
                while isinstance(b, (ast.Attribute, ast.Subscript)):
                    b = b.value
                    depth_ += 1
                ns = m.cfg.node_of_stmt(st)
                if isinstance(b, ast.Name) and ns:
                    defs_ = m.rd.at(ns[0], b.id)
                    caught_ = bool(defs_) and all(d.kind == 'except' for d in defs_) and b.id not in m.params
                    given_ = b.id in m.params[1:] and b.id != 'environ' and bool(defs_) and all(d.kind == 'param' for d in defs_)
                    if (caught_ or given_) and (depth_ >= 1 or st.func.attr in ('set_cookie', 'delete_cookie', 'add_header', 'set_header', '__setitem__')):
                        n_ += 1
                        R.ob(rid, m, st, False, detail=
                             f'`{short(st)}` changes the {"caught" if caught_ else "received"} object `{b.id}`: the request parsers raise the single instances kept in '
                             f'config.errors_map, so what one request puts there (a request id, a CORS header) is sent with the mapped error responses of all later requests',
                             why='nothing set while serving an earlier request may appear in a later response', key_extra=f'{name}:mutates:{b.id}')
            tg = st.targets if isinstance(st, ast.Assign) else ([st.target] if isinstance(st, ast.AugAssign) else [])
            for t in tg:
                b = t
                while isinstance(b, (ast.Attribute, ast.Subscript)):
                    b = b.value
                if isinstance(t, (ast.Attribute, ast.Subscript)) and isinstance(b, ast.Name) and b.id not in m.params:
                    # a caught response / error object: `except HTTPError as err` may bind one of the shared errors_map instances (the request parsers raise them)
                    ns = m.cfg.node_of_stmt(st)
                    defs_ = m.rd.at(ns[0], b.id) if ns else []
                    if defs_ and all(d.kind == 'except' for d in defs_):
                        n_ += 1
                        R.ob(rid, m, st, False, detail=
                             f'`{short(st)}` writes into the caught object `{b.id}`: the request parsers raise the single instances kept in config.errors_map, so what one '
                             f'request stores there (e.g. the traceback text of its malformed body) is rendered into the error pages of later requests',
                             why='nothing set while serving an earlier request may appear in a later response', key_extra=f'{name}:caught:{b.id}')
                if isinstance(t, (ast.Attribute, ast.Subscript)) and isinstance(b, ast.Name) and b.id in m.params[1:] and b.id != 'environ':
                    # only while the name still is the parameter (not re-bound to a fresh object)
                    ns = m.cfg.node_of_stmt(st)
                    if ns and all(d.kind == 'param' for d in m.rd.at(ns[0], b.id)):
                        n_ += 1
                        R.ob(rid, m, st, False, detail=
                             f'`{short(st)}` writes into the object received as `{b.id}`: the errors in config.errors_map are single instances shared by all '
                             f'requests, so what one request stores there (e.g. a JSON content type) is sent with later responses',
                             why='nothing set while serving an earlier request may appear in a later response', key_extra=f'{name}:{b.id}')
    # the page renderer gets the same (possibly shared) error object
    rn = P.funcs.get('ombott.error_render:render')
    if rn is not None and rn.params:
        ep = rn.params[0]
        for st in walk_shallow(rn.node):
            tg = st.targets if isinstance(st, ast.Assign) else ([st.target] if isinstance(st, ast.AugAssign) else [])
            for t in tg:
                b = t
                while isinstance(b, (ast.Attribute, ast.Subscript)):
                    b = b.value
                if isinstance(t, (ast.Attribute, ast.Subscript)) and isinstance(b, ast.Name) and b.id == ep:
                    ns = rn.cfg.node_of_stmt(st)
                    if ns and all(d.kind == 'param' for d in rn.rd.at(ns[0], ep)):
                        n_ += 1
                        R.ob(rid, rn, st, False, detail=
                             f'`{short(st)}` rewrites the error object it renders: the errors in config.errors_map are single instances shared by all requests and threads, so each '
                             f'rendering transforms the text again (escaped twice, three times ...) and the page depends on how many other requests hit the same error',
                             why='nothing done while serving another request may appear in this response', key_extra=f'render:{ep}')
    R.ob(rid, app.fq, None, True, text=f'request-path methods of Ombott do not store into the objects they are handed ({n_} store(s) found)', nontrivial=False)


def check_apply(P, R):
    f = P.func(f'{RS}:HTTPResponse.apply')
    g = f.cfg
    rp = f.params[1]
    for st in walk_shallow(f.node):
        if isinstance(st, ast.Assign):
            flat = []
            for t in st.targets:
                flat.append(t)
            for t in flat:
                d = dotted(t) or ''
                if isinstance(t, ast.Attribute) and (t.attr == '_headers' or d.endswith('.headers.dict')) and d.startswith(rp + '.'):
                    R.ob('C09.c', f, st, False, detail=
                         'the response is re-pointed at the stored object\'s header dictionary: Content-Length / Content-Type written '
                         'while finishing this response land on the shared error object and show up in later responses',
                         why='the errors_map responses are shared by all requests (and all applications)')
    # the jar of the applied response becomes the live jar only when it holds cookies: an *empty* jar of a shared error object (errors_map) must not be the
    # object that later set_cookie() calls of this request write into
    for st in walk_shallow(f.node):
        if isinstance(st, ast.Assign) and isinstance(st.value, ast.Attribute) and st.value.attr == '_cookies' and src(st.value.value) == 'self' \
                and any(isinstance(t, ast.Attribute) and t.attr == '_cookies' and src(t.value) == rp for t in st.targets):
            sn_ = g.node_of_stmt(st)[0]
            atoms = T.guard_atoms(f, sn_)
            nonempty = any(holds_ and isinstance(e_, ast.Attribute) and src(e_) == 'self._cookies' for (e_, holds_, _t) in atoms) or \
                any(holds_ and isinstance(e_, ast.Call) and dotted(e_.func) == 'len' and 'self._cookies' in src(e_) for (e_, holds_, _t) in atoms)
            # (an `is not None` guard is as good as long as every response starts without a jar: __init__ resets the field to None and set_cookie creates it)
            bi_ = P.func(f'{RS}:BaseResponse.__init__')
            lazy = all(isinstance(s_.value, ast.Constant) and s_.value.value is None for s_ in walk_shallow(bi_.node)
                       if isinstance(s_, ast.Assign) and any(dotted(t_) == 'self._cookies' for t_ in s_.targets))
            exists_guard = any(holds_ and compare_parts(e_) and compare_parts(e_)[1] is ast.IsNot and src(compare_parts(e_)[0]) == 'self._cookies' for (e_, holds_, _t) in atoms)
            nonempty = nonempty or (lazy and exists_guard)
            R.ob('C09.c', f, st, nonempty, text=f'`{short(st)}` only for a jar that holds cookies', detail='' if nonempty else
                 f'`{short(st)}` installs the applied response\'s jar as the live jar whenever it exists, also when it is empty: the responses in config.errors_map are single '
                 f'objects, so a cookie set afterwards (a custom error handler calling response.set_cookie) lands in the shared error\'s jar and is replayed on every later '
                 f'400 / 413, and the jar grows with the requests',
                 why='nothing set while serving an earlier request may appear in a later response; retention stays bounded', key_extra='jar-alias-nonempty')
    # apply() reads the applied response and writes the live one: the applied object may be a stored one (errors_map), and what it carries is what must arrive
    from .. import effects as _E
    for x in walk_shallow(f.node):
        wr = None
        if isinstance(x, ast.Call) and isinstance(x.func, ast.Attribute) and x.func.attr in _E.MUTATORS:
            rv = T.xsrc(f, x.func.value, g.node_of_stmt(x)[0], keep=(rp,))
            if rv == 'self' or rv.startswith('self.'):
                wr = rv
        elif isinstance(x, (ast.Assign, ast.AugAssign, ast.Delete)):
            tg = x.targets if not isinstance(x, ast.AugAssign) else [x.target]
            for t in tg:
                if isinstance(t, (ast.Attribute, ast.Subscript)) and (dotted(t.value) or '').split('.')[0] == 'self':
                    wr = src(t)
        if wr:
            R.ob('C09.c', f, x, False, text=f'`{short(x)}`: apply() only reads the applied response', detail=
                 f'`{short(x)}` writes `{wr}` of the response being applied: a raised / returned response (possibly a stored one, raised again later) is changed by '
                 f'the request it was applied to - here the older state of the live response is written over what the applied response carries',
                 why='the errors_map responses are shared by all requests; what the applied response carries is what is sent', key_extra='apply-writes-source')
    calls = [c for c in walk_shallow(f.node) if isinstance(c, ast.Call) and isinstance(c.func, ast.Attribute)]
    def _recv(c_):
        return T.xsrc(f, c_.func.value, g.node_of_stmt(c_)[0], keep=(rp,))
    clear = [c for c in calls if c.func.attr == 'clear' and _recv(c) == f'{rp}._headers']
    upd = [c for c in calls if c.func.attr == 'update' and _recv(c) == f'{rp}._headers' and c.args
           and T.xsrc(f, c.args[0], g.node_of_stmt(c)[0]) == 'self._headers']
    ok = bool(clear) and bool(upd)
    if ok:
        ok = g.must_pass(g.entry, g.node_of_stmt(upd[0])[0], [g.node_of_stmt(clear[0])[0]])
    R.ob('C09.c', f, upd[0] if upd else f.node, ok, text=f'{rp}._headers.clear(); {rp}._headers.update(self._headers)', detail='' if ok else
         'headers of the stored response are not copied into the (cleared) dictionary of the live response',
         why='stale headers of the handler must not survive into the error response, and the copy must be entry by entry')
    # status / body copied
    for attr in ('_status_code', '_status_line', 'body'):
        sts = [st for st in walk_shallow(f.node) if isinstance(st, ast.Assign) and any(dotted(t) == f'{rp}.{attr}' for t in st.targets)
               and src(st.value) == f'self.{attr}']
        R.ob('C09.c', f, sts[0] if sts else f.node, bool(sts), text=f'{rp}.{attr} = self.{attr}', detail='' if sts else
             f'{attr} of the applied response is not taken over', nontrivial=False)
    # the framework's stored responses carry no cookies / list-valued headers
    from .c05 import errors_map_table
    for (cls_, status, body, v) in errors_map_table(P):
        ok = isinstance(v, ast.Call) and not any(isinstance(k.value, (ast.List, ast.Tuple, ast.Dict)) for k in v.keywords)
        R.ob('C09.c', 'ombott.ombott:DefaultConfig', None, ok, text=f'errors_map[{cls_.name}] = {short(v)}', detail='' if ok else
             'a stored error response carries list-valued headers that apply() would share by reference')


def _thread_independent_value(f, n):
    """the stored value is built only from attributes of the application object itself (self.request, self.response, ...)
    and constants: the same for every thread serving that application"""
    if not isinstance(n, ast.Assign):
        return False
    at = f.cfg.node_of_stmt(n)[0]
    for x in f.rd.closure_nodes(n.value, at):
        if isinstance(x, ast.Name) and isinstance(x.ctx, ast.Load):
            if x.id in f.params and x.id != 'self':
                return False
            if x.id == 'self' or f.rd.is_local(x.id):
                continue
            return False
        if isinstance(x, ast.Attribute):
            d = dotted(x) or ''
            if not d.startswith('self.'):
                return False
        if isinstance(x, (ast.Call, ast.Subscript)):
            return False
    return True


def _pure_memo(f, n):
    """`D[key] = value` where the value is built only from the key's own names and constants"""
    if not isinstance(n, ast.Assign):
        return False
    subs = [t for t in n.targets if isinstance(t, ast.Subscript)]
    if len(subs) != 1 or not all(isinstance(t, (ast.Subscript, ast.Name)) for t in n.targets):
        return False
    key = subs[0].slice
    if not (isinstance(key, ast.Name) or (isinstance(key, ast.Tuple) and all(isinstance(e, ast.Name) for e in key.elts))):
        return False
    keyn = names_loaded(key)
    valn = {x.id for x in ast.walk(n.value) if isinstance(x, ast.Name)}
    calls_ = [x for x in ast.walk(n.value) if isinstance(x, (ast.Call, ast.Attribute, ast.Subscript))]
    return valn <= keyn and not calls_


def request_derived(f, exprs, at):
    """some expression derives from a parameter of the function (other than self/cls), from the request objects or from the
    result of calling a parameter (stream reads)"""
    params = set(f.params) - {'self', 'cls'}
    for e in exprs:
        if e is None:
            continue
        for x in f.rd.closure_nodes(e, at):
            if isinstance(x, ast.Name) and x.id in params:
                return True
            if isinstance(x, ast.Attribute) and (dotted(x) or '').startswith(('self.environ', 'request.', 'self._env_get', 'app.request')):
                return True
    return False


CONFIG_TIME_FUNCS = {'add_hook', 'remove_hook', 'on', 'on_route', 'remove_route_hook', 'route', 'add_route', 'remove_route', 'error', 'add', '_add',
                     'remove', 'setup', 'make_filter', 'parse_rule', 'iter_parse', '_iter_parse', '_parse_param', 'hook_installer'}


def check_shared_writes(P, R, rid, strict=False, same_for_all_threads_ok=False, skip_config_time=False, skip_kinds_prefix=(), pure_memo_ok=False):
    """strict=True (C08 / C10): every write to a location that outlives the request must be in the frozen table.
    strict=False (C09): only writes that carry request-derived data into such a location and are not preceded, on every
    path, by a reset of that location (scratch use) - i.e. the ones that can carry data into a later request or grow."""
    ws = E.shared_writes(P, analysed_funcs(P)) + E.extra_shared_writes(P, analysed_funcs(P))
    # stores into the application object / the routing structures hanging off it, made on the request path (one obligation per statement)
    have = {(w['func'].fq, id(w['node'])) for w in ws}
    for w in E.shared_object_writes(P, config_time=CONFIG_TIME_FUNCS):
        pf_ = w['func']
        cfg_time = False
        while pf_ is not None:
            cfg_time = cfg_time or pf_.name in CONFIG_TIME_FUNCS
            pf_ = pf_.parent
        if cfg_time or (w['func'].fq, id(w['node'])) in have:
            continue
        if not strict and w['kind'] == 'attr-assign':
            continue      # a plain attribute rebound by every request carries nothing over and does not grow (its visibility between threads is C08's)
        have.add((w['func'].fq, id(w['node'])))
        ws.append(w)
    seen = set()
    for w in ws:
        f = w['func']
        key = (f.fq, w['target'], w['kind'])
        seen.add(key)
        ok = key in SHARED_WRITE_TABLE
        if not ok and skip_config_time and f.name in CONFIG_TIME_FUNCS:
            continue   # registration / configuration API: not executed while serving a request
        if not ok and any(w['target'].startswith(p_) for p_ in skip_kinds_prefix):
            continue
        if not ok and pure_memo_ok and _pure_memo(f, w['node']):
            continue   # value determined by the key alone: every writer stores an equal value (retention is C09's concern)
        detail = ''
        if not ok and not strict:
            n = w['node']
            g = f.cfg
            at = (g.node_of_stmt(n) or [g.entry])[0]
            vals = []
            if isinstance(n, (ast.Assign, ast.AugAssign)):
                vals.append(n.value)
                for t in (n.targets if isinstance(n, ast.Assign) else [n.target]):
                    if isinstance(t, ast.Subscript):
                        vals.append(t.slice)
            elif isinstance(n, ast.Call):
                vals.extend(n.args)
                vals.extend(k.value for k in n.keywords)
            carries = request_derived(f, vals, at) or w['kind'] in ('memo', 'handed-out', 'handed-to-request')    # a shared mutable object given to request code is written by it
            # a stateful object of the package parked in such a location is reused by later requests together with whatever state it is in
            pooled = None
            for v_ in vals:
                for x_ in ast.walk(v_):
                    if isinstance(x_, ast.Call):
                        dn_ = dotted(x_.func) or ''
                        r_ = P.resolve_name(f.module, dn_) if dn_ and dn_ != 'cls' else None
                        k_ = r_[1] if r_ and r_[0] == 'class' else (f.owner_cls if dn_ == 'cls' else None)
                        if k_ is not None and any(isinstance(s_, ast.Assign) and any(isinstance(t_, ast.Attribute) and isinstance(t_.value, ast.Name) and t_.value.id == 'self'
                                                                                     for t_ in s_.targets)
                                                  for m_ in k_.methods.values() if m_.name != '__init__' for s_ in walk_shallow(m_.node)):
                            pooled = k_
            carries = carries or pooled is not None
            # a latch: a constant stored into a class attribute whose class-level value is another constant - the first request that gets here changes what
            # every later request reads
            latch = None
            if w['kind'] == 'attr-assign' and w['target'].startswith('classattr:') and isinstance(n, ast.Assign) and isinstance(n.value, ast.Constant):
                cfq_, _, an_ = w['target'][len('classattr:'):].rpartition('.')
                k_ = P.classes.get(cfq_)
                dv_ = None
                for kk_ in (P.mro(k_) if k_ is not None else []):
                    if an_ in kk_.attrs:
                        dv_ = kk_.attrs[an_]
                        break
                if isinstance(dv_, ast.Constant) and dv_.value != n.value.value:
                    latch = (an_, dv_.value, n.value.value)
            carries = carries or latch is not None
            resets = [g.node_of_stmt(x['node'])[0] for x in ws if x['func'] is f and x['target'] == w['target']
                      and x['kind'] in ('call:clear', 'slice-assign', 'global-assign') and x is not w]
            scratch = bool(resets) and g.must_pass(g.entry, at, resets)
            ok = (not carries) or scratch
            if not ok and pooled is not None:
                detail = (f'an instance of {pooled.name} (whose methods keep state on self) is parked in {w["target"]} and reused for later requests: whatever a '
                          f'request leaves in it (e.g. the expected continuation of a cut header terminator) is applied to the next request')
            elif not ok and latch is not None:
                detail = (f'`{short(n)}` flips the class-level `{latch[0]}` from {latch[1]!r} to {latch[2]!r} for the whole process: after the first request that gets here every '
                          f'later request (and every other instance) reads the new value - the same request is answered differently depending on what was served before')
            elif not ok:
                detail = (f'request-derived data is written into {w["target"]} ({w["kind"]}), a location that outlives the request, '
                          f'without a preceding reset: it is visible to later requests and grows with the number of requests')
        elif not ok and same_for_all_threads_ok and _thread_independent_value(f, w['node']):
            ok = True   # every thread of one application stores the very same object: unobservable between threads
        elif not ok:
            detail = (f'write to the shared location {w["target"]} ({w["kind"]}) that is not in the frozen table of reasoned shared writes')
        R.ob(rid, f, w['node'], ok, detail=detail,
             why='state that outlives the request: visible to other threads, applications and later requests',
             key_extra=f'{w["target"]}|{w["kind"]}')
    for key in SHARED_WRITE_TABLE:
        if key not in seen:
            R.note(f'table entry no longer matches any write: {key}')
    R.require(len(ws) >= 2, f'shared-write detector found {len(ws)} writes (2 on the pinned tree)')
    # positive control: a planted module-level append must be recognised by the detector
    probe_src = 'CACHE = {}\ndef f(path):\n    CACHE[path] = 1\n'
    import types
    from ..loader import Module, Func
    from ..astutil import set_parents
    tree = set_parents(ast.parse(probe_src))
    pm = Module('probe', '<probe>', '<probe>', probe_src, tree)
    pm.is_pkg = False
    pm.assigns['CACHE'] = [tree.body[0].value]
    pf = Func(pm, 'f', tree.body[1], None, None)
    hits = E.shared_writes(P, [pf])
    R.require(len(hits) == 1 and hits[0]['kind'] == 'item-assign', 'shared-write detector lost its positive control')


def check_reinit_growth(P, R, rid):
    """The request and response objects are built once and re-initialised by `__init__` for every request.  Whatever `__init__` (or a method of
    self it calls) adds to a container of the object must go into a container that the same `__init__` has just re-created or re-pointed -
    otherwise the object grows by one entry per request."""
    inits = []
    for cfq in ('ombott.request_pkg.request:BaseRequest', f'{RS}:BaseResponse'):
        c = P.classes.get(cfq)
        R.require(c is not None, f'{cfq} not found')
        m = None
        for k in P.mro(c):
            if '__init__' in k.methods:
                m = k.methods['__init__']
                break
        R.require(m is not None, f'{cfq}.__init__ not found')
        inits.append((c, m))
    n_sites = 0
    for (c, init) in inits:
        g = init.cfg
        resets = {}         # attribute -> nodes that re-create / re-point it
        for st in walk_shallow(init.node):
            if isinstance(st, ast.Assign):
                for t in st.targets:
                    d0 = dotted(t) or ''
                    if d0.startswith('self.') and isinstance(t, ast.Attribute):
                        resets.setdefault(d0.split('.')[1], []).append(g.node_of_stmt(st)[0])

        def growth_sites(fn):
            for n in walk_shallow(fn.node):
                if isinstance(n, ast.Call) and isinstance(n.func, ast.Name) and fn.rd.is_local(n.func.id):
                    # a bound method picked into a local first: `add = self.headers.append; add(..)`
                    ns_ = fn.cfg.node_of_stmt(n)
                    vals_ = [d.value for d in (fn.rd.at(ns_[0], n.func.id) if ns_ else [])]
                    if vals_ and all(isinstance(v_, ast.Attribute) and v_.attr in E.MUTATORS and (dotted(v_.value) or '').startswith('self.') for v_ in vals_):
                        if vals_[0].attr not in ('clear', 'pop', 'remove', 'discard', 'popitem'):
                            yield n, dotted(vals_[0].value).split('.')[1]
                    continue
                if isinstance(n, ast.Call) and isinstance(n.func, ast.Attribute) and n.func.attr in E.MUTATORS and n.func.attr not in ('clear', 'pop', 'remove', 'discard', 'popitem'):
                    recv = n.func.value
                    while isinstance(recv, ast.Subscript):
                        recv = recv.value
                    d0 = dotted(recv) or ''
                    if d0.startswith('self.'):
                        yield n, d0.split('.')[1]
        sites = [(init, n, a, None) for (n, a) in growth_sites(init)]
        for call in [x for x in walk_shallow(init.node) if isinstance(x, ast.Call) and isinstance(x.func, ast.Attribute)
                     and isinstance(x.func.value, ast.Name) and x.func.value.id == 'self']:
            for k in P.mro(c):
                callee = k.methods.get(call.func.attr)
                if callee is not None:
                    sites += [(callee, n, a, call) for (n, a) in growth_sites(callee)]
                    break
        for (fn, n, attr, via) in sites:
            n_sites += 1
            anchor = via if via is not None else n
            at = g.node_of_stmt(anchor)[0]
            rs = resets.get(attr, [])
            ok = bool(rs) and g.must_pass(g.entry, at, rs)
            where = f'{short(n)}' + (f' (through `{short(via)}`)' if via is not None else '')
            R.ob(rid, init, anchor, ok, text=f'{c.name}.__init__: {where} adds to self.{attr}, which this __init__ has just re-created', detail='' if ok else
                 f'{c.name}.__init__ runs once per request on a long-lived object and {where} adds an entry to self.{attr}, which is created once (in __new__) and '
                 f'never re-created by __init__: the object keeps one more entry per request (unbounded growth, and every entry is called/consulted on later requests)',
                 why='the number of live framework objects does not grow with the number of requests served', key_extra=f'reinit-growth:{c.name}.{attr}')
    R.require(n_sites >= 1, 'no container addition found in the per-request initialisers (2 on the pinned tree: headers.append)')
    # what any other method of these long-lived objects stores into a container of the object must land in a container that __init__ re-creates
    for (c, init) in inits:
        g = init.cfg
        resets = {}
        for st in walk_shallow(init.node):
            if isinstance(st, ast.Assign):
                for t in st.targets:
                    d0 = dotted(t) or ''
                    if d0.startswith('self.') and isinstance(t, ast.Attribute):
                        resets.setdefault(d0.split('.')[1], []).append(g.node_of_stmt(st)[0])
        tsp = set()
        for k in P.classes.values():
            if c in P.mro(k) or k is c:
                for d in getattr(k.node, 'decorator_list', []):
                    if isinstance(d, ast.Call) and dotted(d.func) == 'ts_props':
                        tsp |= {a.value for a in d.args if isinstance(a, ast.Constant)}
        for k in P.mro(c):
            if not k.fq.startswith('ombott.'):
                continue
            for m in k.methods.values():
                if m.name in ('__init__', '__new__') or m.name in CONFIG_TIME_FUNCS or m.name in ('off',):
                    continue
                for n in walk_shallow(m.node):
                    attr = None
                    if isinstance(n, ast.Assign):
                        for t in n.targets:
                            if isinstance(t, ast.Subscript):
                                d0 = dotted(t.value) or ''
                                if d0.startswith('self.') and d0.count('.') == 1:
                                    attr = d0.split('.')[1]
                    elif isinstance(n, ast.Call) and isinstance(n.func, ast.Attribute) and n.func.attr in ('append', 'extend', 'insert', 'update', 'add', 'setdefault'):
                        d0 = dotted(n.func.value) or ''
                        if d0.startswith('self.') and d0.count('.') == 1:
                            attr = d0.split('.')[1]
                    if attr is None:
                        continue
                    rs = resets.get(attr, [])
                    ok = attr in tsp or (bool(rs) and g.must_pass(g.entry, g.exit, rs))
                    R.ob(rid, m, n, ok, text=f'{k.name}.{m.name}: `{short(n)}` goes into self.{attr}, re-created by every __init__', detail='' if ok else
                         f'`{short(n)}` stores per-request data in self.{attr} of the long-lived {c.name} object, and {c.name}.__init__ (run for every request) does not '
                         f're-create self.{attr}: what one request stores there is still there for all later requests on that thread (e.g. `request.user` set by a '
                         f'hook only when a token is present is seen by the following anonymous requests)',
                         why='each response is what a fresh application would give: nothing of an earlier request is visible', key_extra=f'carry:{k.name}.{m.name}.{attr}')
