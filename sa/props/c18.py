"""C18 - Query strings and urlencoded forms decode to exactly what was sent."""
import ast

from ..astutil import (walk_shallow, dotted, call_attr, short, src, stmt_of, names_loaded, is_const, enclosing,
                       compare_parts, strip_not, const, bool_operands)
from ..loader import AnalysisError
from .. import rules as T

ID = 'C18'
DECIDED = ('(a) the scanner terminates: on every path round the outer loop the cursor is assigned `j + 1` with j = cursor + '
           'idx, idx an enumerate index (>= 0), the bound is the constant length, inner loops are for-loops over slices; '
           '(b) nothing in the scanner raises: every call is to a total operation of the stated catalogue or to a package '
           'helper made of those, the callbacks are dict.__setitem__ at every call site; (c) repeated keys: "seen before" '
           'is decided by membership (or by truthiness only of containers that are never empty), the first value is kept, '
           'the second creates [first, second] stored once, later values are appended to that list; (d) on keys and values '
           '"+" is turned into a space before percent-decoding and never after it; forms text is taken from the body as '
           'latin1.')
DECIDED_MORE = ('Also: separators are searched in still-escaped text; the promoted list is kept under the key.')
DECIDED = DECIDED + ' ' + DECIDED_MORE
DECIDED_R6 = ('Round 6: every memo key of the parsed query is dropped by the QUERY_STRING listener; a field is skipped only for an empty name; split/partition form of the scanner; operations in neither catalogue are undecided.')
DECIDED = DECIDED + ' ' + DECIDED_R6
DECIDED_R7 = ('Round 7: the container keeps the list object it is given; every environ store (also of a new key) is followed by the change event.')
DECIDED = DECIDED + ' ' + DECIDED_R7
DECIDED_R8 = ('Round 8: no test deciding the urlencoded branch compares the whole Content-Type value with a literal; the request is bound on every way out of _handle; every memoised accessor computed from the query has its key dropped for QUERY_STRING.')
DECIDED = DECIDED + ' ' + DECIDED_R8
DECIDED_R9 = ('Round 9: removing an environ key through the request is announced to the change listeners (d).')
DECIDED = DECIDED + ' ' + DECIDED_R9
NOT_DECIDED = ('encode -> parse equality for all pair lists (urllib.parse.unquote semantics); UTF-8 decoding of escapes is '
               'urllib behaviour.')
ASSUMPTIONS = ["urllib.parse.unquote(s) with default errors='replace' raises nothing",
               'str slicing/replace/comparison raise nothing']

H = 'ombott.request_pkg.helpers'
TOTAL_CALLS = {'len', 'enumerate', 'dict', 'list', 'range', 'str'}
TOTAL_ATTRS = {'replace', 'append', 'get', 'setdefault', 'startswith', 'strip', 'lower', 'split', 'partition', 'find', 'join',
               'lstrip', 'rstrip', 'rpartition', 'rsplit', 'rfind', 'upper', 'endswith', 'splitlines', 'count', 'casefold', 'extend', 'items', 'keys', 'values',
               'isdigit', 'isalpha', 'isalnum', 'isspace', 'add', 'copy', 'clear'}
# operations that raise for some argument: a call of one of these in the scanner is a way to fail; anything in neither list is left undecided
PARTIAL_ATTRS = {'index', 'rindex', 'pop', 'remove', 'encode', 'decode', 'format', 'group', 'groups', 'popitem', 'fromhex', 'translate', 'send', 'throw'}
PARTIAL_CALLS = {'int', 'float', 'ord', 'chr', 'next', 'bytes', 'bytearray', 'complex', 'max', 'min', 'eval', 'exec', 'open', 'getattr', 'iter', 'zip'} - {'zip', 'iter'}


def unquote_names(mod):
    out = set()
    for k, v in mod.imports.items():
        if v in ('urllib.parse:unquote', 'urllib.parse:unquote_plus'):
            out.add(k)
    return out


def _nonneg(f, e, at, depth=0):
    """e >= 0: non-negative constants, enumerate() indices, sums of those"""
    rd = f.rd
    if isinstance(e, ast.Constant):
        return isinstance(e.value, int) and e.value >= 0
    if isinstance(e, ast.BinOp) and isinstance(e.op, ast.Add):
        return _nonneg(f, e.left, at, depth) and _nonneg(f, e.right, at, depth)
    if isinstance(e, ast.Call) and dotted(e.func) == 'len':
        return True
    if isinstance(e, ast.Name) and depth < 4:
        ds = rd.at(at, e.id)
        if not ds:
            return False
        for dd in ds:
            if dd.kind == 'for' and isinstance(dd.value, ast.Call) and dotted(dd.value.func) == 'enumerate' and dd.index == 0:
                continue
            if dd.kind == 'for' and isinstance(dd.value, ast.Call) and dotted(dd.value.func) == 'enumerate':
                # tuple target (idx, c): only the first element is the index
                tgt = dd.stmt.target
                if isinstance(tgt, ast.Tuple) and isinstance(tgt.elts[0], ast.Name) and tgt.elts[0].id == e.id:
                    continue
                return False
            if dd.kind == 'aug' and isinstance(dd.stmt.op, ast.Add) and _nonneg(f, dd.value, dd.node, depth + 1):
                continue
            if dd.kind == 'assign' and dd.value is not None and _nonneg(f, dd.value, dd.node, depth + 1):
                continue
            return False
        return True
    return False


def ge_cursor(f, loop, cur, bound, e, at, assume_nonneg=(), depth=0):
    """Is the value of `e` at CFG node `at` at or after the scan cursor?  True / 'guarded' (it is, provided the value is >= 0: the
    result of str.find / index started at the cursor) / False.  The cursor only moves forward, so `>=` any value it had in this
    iteration is `>=` its value at the loop head."""
    g, rd = f.cfg, f.rd
    if depth > 6:
        return False
    if isinstance(e, ast.Name) and e.id == cur:
        return True
    if isinstance(e, ast.Name) and e.id == bound:
        # the loop condition is cur < bound; holds as long as the cursor was not moved since the loop head
        head = T.loop_head(g, loop)
        return True if rd.same_defs(head, at, cur) else False
    if isinstance(e, ast.BinOp) and isinstance(e.op, ast.Add):
        l = ge_cursor(f, loop, cur, bound, e.left, at, assume_nonneg, depth + 1)
        if l is True and _nonneg(f, e.right, at):
            return True
        r = ge_cursor(f, loop, cur, bound, e.right, at, assume_nonneg, depth + 1)
        if r is True and _nonneg(f, e.left, at):
            return True
        return False
    if isinstance(e, ast.Call) and call_attr(e) in ('find', 'index') and len(e.args) >= 2:
        st_ = ge_cursor(f, loop, cur, bound, e.args[1], at, assume_nonneg, depth + 1)
        if st_ is True:
            return True if call_attr(e) == 'index' else 'guarded'
        return False
    if isinstance(e, ast.IfExp):
        cp = compare_parts(e.test)
        neg_name = None       # name known to be < 0 in the body and >= 0 in the orelse
        if cp and isinstance(cp[0], ast.Name) and cp[1] is ast.Lt and is_const(cp[2], 0):
            neg_name = cp[0].id
        b = ge_cursor(f, loop, cur, bound, e.body, at, assume_nonneg, depth + 1)
        o = ge_cursor(f, loop, cur, bound, e.orelse, at, tuple(assume_nonneg) + ((neg_name,) if neg_name else ()), depth + 1)
        if cp and isinstance(cp[0], ast.Name) and cp[1] is ast.GtE and is_const(cp[2], 0):
            b = ge_cursor(f, loop, cur, bound, e.body, at, tuple(assume_nonneg) + (cp[0].id,), depth + 1)
            o = ge_cursor(f, loop, cur, bound, e.orelse, at, assume_nonneg, depth + 1)
        return True if (b is True and o is True) else False
    if isinstance(e, ast.Name):
        ds = rd.at(at, e.id)
        if not ds:
            return False
        res = True
        for d in ds:
            if d.kind == 'aug' and isinstance(d.stmt, ast.AugAssign) and isinstance(d.stmt.op, ast.Add) and _nonneg(f, d.stmt.value, d.node):
                continue        # `j += <non-negative>`: at or after the cursor if every plain definition of j is (induction over the increments)
            if d.kind != 'assign' or d.value is None:
                return False
            v = ge_cursor(f, loop, cur, bound, d.value, d.node, assume_nonneg, depth + 1)
            if v is True:
                continue
            if v == 'guarded':
                if e.id in assume_nonneg:
                    continue
                # every way from this definition to the use goes through the `>= 0` side of a sign test of the name
                # (on the other side the name is re-bound, or the use is not reached)
                sign_edges = set()
                for tn in g.nodes:
                    if tn.kind != 'test':
                        continue
                    cp = compare_parts(tn.ast)
                    if cp and isinstance(cp[0], ast.Name) and cp[0].id == e.id:
                        if (cp[1] is ast.Lt and is_const(cp[2], 0)) or (cp[1] is ast.Eq and isinstance(cp[2], ast.UnaryOp)):
                            sign_edges.add((tn, 'true'))        # avoid the negative side
                        elif (cp[1] is ast.GtE and is_const(cp[2], 0)) or (cp[1] is ast.NotEq and isinstance(cp[2], ast.UnaryOp)):
                            sign_edges.add((tn, 'false'))
                tests = {tn for (tn, _) in sign_edges}
                if tests and not g.can_reach(d.node, at, avoid_nodes=tests) and (at in tests or True):
                    # all paths meet a sign test; the negative side must not reach the use with this definition still in force
                    redef = [n for n in g.nodes if n is not d.node and any(x.name == e.id for x in rd.gen.get(n, []))]
                    neg_ok = all(s_ in redef or not g.can_reach(s_, at, avoid_nodes=redef) for (tn, lab) in sign_edges for s_ in T.succ_by_label(tn, lab))
                    if neg_ok:
                        continue
                return False
            return False
        return res
    return False


def split_scanner(f):
    """(for-loop, split call) when the scanner is `for piece in <text>.split(<separator>)` over the text to parse, else None"""
    for lp in walk_shallow(f.node):
        if isinstance(lp, ast.For) and enclosing(lp, (ast.For, ast.While)) is None:
            it = T.expand(f, lp.iter, f.cfg.nodes_for(lp)[0])
            if isinstance(it, ast.Call) and call_attr(it) == 'split' and it.args and isinstance(it.args[0], ast.Constant) and isinstance(it.args[0].value, str) \
                    and f.params[0] in names_loaded(it.func.value):
                return lp, it
    return None


def check_cursor_progress(R, f, loop):
    g, rd = f.cfg, f.rd
    cp = compare_parts(loop.test)
    R.require(cp and cp[1] is ast.Lt and isinstance(cp[0], ast.Name) and isinstance(cp[2], ast.Name), 'scan loop is not `while i < L`')
    cur, bound = cp[0].id, cp[2].id
    head = T.loop_head(g, loop)
    # bound is len(qs), never reassigned in the loop
    bdefs = rd.at(head, bound)
    ok = len(bdefs) == 1 and isinstance(bdefs[0].value, ast.Call) and dotted(bdefs[0].value.func) == 'len'
    R.ob('C18.a', f, loop.test, ok, text=f'{bound} = len(input), loop-invariant', detail='' if ok else f'{bound} is modified inside the loop')
    # cursor assignments in the loop
    assigns = []
    for st in loop.body:
        for x in walk_shallow(st):
            if isinstance(x, ast.Assign) and any(isinstance(t, ast.Name) and t.id == cur for t in x.targets):
                assigns.append(x)
            if isinstance(x, ast.AugAssign) and isinstance(x.target, ast.Name) and x.target.id == cur:
                assigns.append(x)
    R.require(assigns, 'cursor never assigned in loop')
    adv_nodes = []
    for a in assigns:
        an = g.node_of_stmt(a)[0]
        ok, det = False, f'`{short(a)}` does not advance the cursor past the separator'
        v = a.value
        if isinstance(a, ast.Assign) and isinstance(v, ast.BinOp) and isinstance(v.op, ast.Add) and isinstance(v.left, ast.Name) \
                and isinstance(v.right, ast.Constant) and isinstance(v.right.value, int) and v.right.value >= 1:
            j = v.left.id
            ok = ge_cursor(f, loop, cur, bound, v.left, an) is True
            det = '' if ok else f'`{j}` is not known to be at or after the cursor (`{cur} + <non-negative index>`, a successful find() from the cursor, or the length)'
        elif isinstance(a, ast.AugAssign) and isinstance(a.op, ast.Add) and isinstance(v, ast.Constant) and v.value >= 1:
            ok, det = True, ''
        R.ob('C18.a', f, a, ok, detail=det, why='without progress the loop spins for ever on that input')
        if ok:
            adv_nodes.append(an)
    # every path round the loop passes an advancing assignment
    firsts = T.succ_by_label(head, 'true')
    ok = bool(adv_nodes) and all(s in adv_nodes or g.must_pass(s, head, adv_nodes) for s in firsts)
    R.ob('C18.a', f, loop.test, ok, text='every path round the scan loop advances the cursor', detail='' if ok else
         'a path back to the loop head (e.g. the `continue` for an empty key) skips the cursor advance: parsing "a=1&&b=2", "&a", "=" never ends',
         why='parsing any string whatsoever terminates', key_extra='progress')
    # inner loops are for-loops
    inner_while = [n for st in loop.body for n in walk_shallow(st) if isinstance(n, ast.While)]

    def bounded_index_loop(w):
        # `while j < L and <tests of qs[j]>: j += k` (k >= 1, nothing else in the body, L loop-invariant)
        conj = bool_operands(w.test, ast.And)
        cp0 = compare_parts(conj[0]) if conj else None
        if not (cp0 and cp0[1] is ast.Lt and isinstance(cp0[0], ast.Name) and isinstance(cp0[2], ast.Name) and cp0[2].id == bound):
            return False
        return len(w.body) == 1 and isinstance(w.body[0], ast.AugAssign) and isinstance(w.body[0].target, ast.Name) and w.body[0].target.id == cp0[0].id \
            and isinstance(w.body[0].op, ast.Add) and isinstance(w.body[0].value, ast.Constant) and isinstance(w.body[0].value.value, int) and w.body[0].value.value >= 1
    unbounded = [w for w in inner_while if not bounded_index_loop(w)]
    R.ob('C18.a', f, unbounded[0] if unbounded else loop, not unbounded, text='inner loops are bounded (for-loops, or an index counted up to the length)',
         detail='' if not unbounded else 'an inner while loop of the scanner is not of the form `while j < L and ..: j += 1`', nontrivial=False)

    return head


def check(P, R):
    R.rule('C18.a', 'scanner terminates (cursor strictly increases round the loop)', floor=3)
    R.rule('C18.b', 'scanner raises nothing', floor=5)
    R.rule('C18.c', 'list promotion keeps submission order; membership decides "seen"', floor=4)
    R.rule('C18.d', 'plus-to-space before percent-decoding', floor=3)

    f = P.func(f'{H}:parse_qsl')
    g, rd = f.cfg, f.rd
    mod = f.module
    # shape-independent: the separators are looked for in the raw text - what has been percent-decoded is never split again
    n_split = 0
    for c in walk_shallow(f.node):
        if isinstance(c, ast.Call) and call_attr(c) in ('partition', 'rpartition', 'split', 'rsplit', 'find', 'index') and c.args \
                and isinstance(c.args[0], ast.Constant) and c.args[0].value in ('=', '&', ';'):
            n_split += 1
            cl = rd.closure_nodes(c.func.value, g.node_of_stmt(c)[0], follow_mut=False)
            dec = [x for x in cl if isinstance(x, ast.Call) and (dotted(x.func) or '').split('.')[-1] in ('urlunquote', 'unquote', 'unquote_plus', 'unquote_to_bytes')]
            R.ob('C18.d', f, c, not dec, text=f'`{short(c)}` works on the still-escaped text', detail='' if not dec else
                 f'`{short(c)}` separates text that `{short(dec[0])}` has already percent-decoded: an escaped separator inside a name (%3D, %26) is decoded first and then '
                 f'taken for the real separator - `sum%28a%3Db%29=yes` parses to (\'sum(a\', \'b)=yes\')',
                 why='parsing the encoding of a list of pairs yields the same pairs, separators inside keys and values included', key_extra='split-before-decode')
    whiles = [n for n in walk_shallow(f.node) if isinstance(n, ast.While) and not any(isinstance(p_, ast.While) for p_ in T.loops_of(n)[1:] if p_ is not n)]
    whiles = [n for n in whiles if enclosing(n, ast.While) is None]
    pieces = split_scanner(f)
    if not whiles and pieces is not None:
        # the other way to write the scanner: one pass over the pieces between the pair separators
        loop, splitc = pieces
        head = T.loop_head(g, loop)
        R.ob('C18.a', f, loop, True, text=f'scanner: for {short(loop.target)} in {short(splitc)} - finitely many pieces, one pass')
        inner = [n for st in loop.body for n in walk_shallow(st) if isinstance(n, ast.While)]
        R.ob('C18.a', f, inner[0] if inner else loop, not inner, text='no open-ended loop per piece', detail='' if not inner else
             'a while loop inside the per-pair pass: its termination has no recogniser here', nontrivial=False)
        R.ob('C18.a', f, splitc, is_const(splitc.args[0], '&') and len(splitc.args) == 1 and not splitc.keywords, text='pairs are separated at every `&`',
             detail='the text is not cut at every `&`: pairs after the first cut are lost or merged',
             why='parsing the encoding of a list of pairs yields the same pairs')
        # name / value separation: at one `=` of the piece, whatever else the piece contains
        seps = [c for st in loop.body for c in walk_shallow(st) if isinstance(c, ast.Call) and call_attr(c) in ('partition', 'rpartition', 'split', 'rsplit', 'find', 'index')
                and c.args and is_const(c.args[0], '=')]
        R.ob('C18.a', f, seps[0] if seps else loop, bool(seps), text='name and value are separated at `=`', detail='' if seps else
             'no separation of name and value at `=` found', nontrivial=False)
        for c in seps:
            if call_attr(c) in ('split', 'rsplit'):
                bounded = len(c.args) >= 2 or any(k.arg == 'maxsplit' for k in c.keywords)
                st_ = stmt_of(c)
                fixed = isinstance(st_, ast.Assign) and st_.value is c and isinstance(st_.targets[0], (ast.Tuple, ast.List)) and \
                    not any(isinstance(e, ast.Starred) for e in st_.targets[0].elts)
                okc = not (fixed and not bounded) and not (fixed and len(st_.targets[0].elts) != 2)
                R.ob('C18.b', f, c, okc, text=f'`{short(st_)}` cannot fail to unpack', detail='' if okc else
                     f'`{short(st_)}` unpacks into a fixed number of names whatever the number of `=` in the piece: ValueError for "a=b=c" (or for a bare name)',
                     why='parsing any string whatsoever terminates without raising', key_extra='unpack')
            if call_attr(c) in ('find', 'index'):
                R.undecided('C18.a', f, c, 'name / value separation', f'`{short(c)}`: index arithmetic on the piece has no recogniser in the split form')
    else:
        R.require(len(whiles) == 1, f'{f.fq}: expected one scanning loop')
        loop = whiles[0]
        head = check_cursor_progress(R, f, loop)
    # ---- b: raises nothing
    unq = unquote_names(mod)
    R.require(unq, 'helpers.py does not import urllib.parse.unquote')
    check_total(P, R, f, unq, set())

    # call sites give dict.__setitem__
    for fq in ('ombott.request_pkg.body_mixin:BodyMixin.query', 'ombott.request_pkg.body_mixin:BodyMixin.POST'):
        cf = P.func(fq)
        for c in [x for x in walk_shallow(cf.node) if isinstance(x, ast.Call) and dotted(x.func) == 'parse_qsl']:
            at_ = cf.cfg.node_of_stmt(c)[0]
            kw = {k.arg: T.expand(cf, k.value, at_) for k in c.keywords}
            ok = set(kw) == {'setitem'} and isinstance(kw['setitem'], ast.Attribute) and kw['setitem'].attr == '__setitem__'
            R.ob('C18.b', cf, c, ok, detail='' if ok else 'parse_qsl is not given a plain __setitem__ callback')
            # POST: text is latin1 of the body
            if fq.endswith('POST'):
                a0 = T.expand(cf, c.args[0], at_) if c.args else None
                okl = isinstance(a0, ast.Call) and dotted(a0.func) == 'touni' and len(a0.args) == 2 and is_const(a0.args[1], 'latin1')
                R.ob('C18.d', cf, c, okl, text='forms text = touni(body, latin1)', detail='' if okl else 'the urlencoded body is not decoded as latin1 before scanning')

    # a field is skipped only when its name is empty: the test in front of the `continue` that bypasses add() is a plain emptiness test of the raw name
    add_nodes = [g.node_of_stmt(c)[0] for c in walk_shallow(loop) if isinstance(c, ast.Call) and isinstance(c.func, ast.Name) and c.func.id == 'add']
    for cont in [n for n in g.nodes if n.kind == 'stmt' and isinstance(n.ast, ast.Continue) and T._inside(n.ast, loop.body) and T.loops_of(n.ast) and T.loops_of(n.ast)[0] is loop]:
        if not any(g.can_reach(head, a_) for a_ in add_nodes):
            continue
        ifs_ = enclosing(cont.ast, ast.If)
        if ifs_ is not None and any(isinstance(c_, ast.Call) and isinstance(c_.func, ast.Name) and c_.func.id == 'add' for s_ in ifs_.body for c_ in ast.walk(s_)):
            continue          # this branch hands the field on before it moves to the next one
        guards = [(t, 'true') for t in (g.nodes_for(ifs_.test) if ifs_ is not None and T._inside(ifs_, loop.body) and any(s_ is cont.ast for s_ in ifs_.body) else [])]
        for (t, lab) in guards:
            te, neg = strip_not(t.ast)
            plain = isinstance(te, ast.Name) or (isinstance(te, ast.Call) and dotted(te.func) == 'len' and te.args and isinstance(te.args[0], ast.Name)) or \
                (compare_parts(te) and isinstance(compare_parts(te)[0], ast.Name) and isinstance(compare_parts(te)[2], ast.Constant) and compare_parts(te)[2].value in ('', 0))
            R.ob('C18.c', f, t.ast, bool(plain), text=f'`{short(t.ast)}` skips a field only for an empty name', detail='' if plain else
                 f'the field is skipped on `{short(t.ast)}`, which is more than "the name is empty": a pair whose key is made of spaces only (sent as `+=v`) is dropped '
                 f'and its value is then read as a bare name',
                 why='every pair with a non-empty key is parsed back', key_extra='skip-only-empty')
    check_query_memo(P, R)
    from . import c13 as _c13b
    from ..report import Sub as _Sub18
    _c13b.check_get_body_string(P, _Sub18(R, why='an urlencoded body up to the in-memory threshold is parsed (one byte more is read only to tell it is too long)'), 'C18.d')
    check_add(P, R, f)
    check_container_keeps_object(P, R, 'C18.c')
    check_decode_order(P, R, f, unq)
    check_callers(P, R)
    from . import c13 as _c13
    _c13.check_rewind(P, R, 'C18.d', 'the urlencoded text that is parsed is the whole body, whatever was read from request.body before')
    from . import c04
    c04.check_reader_premise(P, R, 'C18.d', 'the urlencoded text that is parsed is the whole body: a reader that stops early on a short read drops the trailing pairs')


def check_callers(P, R):
    """the accessors that feed the scanner: they raise nothing themselves and parse whatever body / query there is"""
    from ..escape import Escapes
    E = Escapes(P)
    q = P.func('ombott.request_pkg.body_mixin:BodyMixin.query')
    for (cname, origin) in sorted(E.escapes(q)):
        where = origin.rpartition(' @')[0].split(' ', 1)[-1]
        R.ob('C18.b', q, None, False, text=f'Request.query may raise {cname} ({where})', detail=
             f'{cname} from `{where}` can leave Request.query: parsing some raw query string raises instead of terminating normally',
             why='parsing any string whatsoever terminates without raising', key_extra=f'{cname}:{where}')
    R.ob('C18.b', q, q.node, True, text='escape analysis of Request.query', nontrivial=True)
    # POST: the urlencoded branch is entered for every body that is neither multipart nor JSON - whatever the framing
    check_view_guards(P, R, 'C18.b', 'ombott.request_pkg.body_mixin:BodyMixin.POST', lambda c: dotted(c.func) == 'parse_qsl', 'the urlencoded branch',
                      'URL-encoding pairs as an urlencoded body and parsing yields the same pairs')
    check_ctype_tests(P, R, 'C18.b')
    # the query that is parsed is this request's: the per-thread request object is bound to the environ on every way out of _handle (the 400 page of an
    # undecodable path included - its handler may well look at request.query)
    from ..report import Sub
    from . import c09

    class _RequestOnly(Sub):
        def ob(self, rule, *a, **kw):
            if kw.get('key_extra') != 'request.__init__(environ)':
                return None
            return Sub.ob(self, rule, *a, **kw)
    c09.check_init_dominance(P, _RequestOnly(R, why='the pairs parsed from a query string are those of the request being answered'), 'C18.d')


def check_ctype_tests(P, R, rid):
    """Content-Type carries parameters (`application/x-www-form-urlencoded; charset=UTF-8` is what browsers and libraries send): a test deciding whether the body is
    parsed as pairs looks at a prefix or at the media type (ctype[0]), never compares the whole header value with a literal"""
    po = P.func('ombott.request_pkg.body_mixin:BodyMixin.POST')
    g = po.cfg
    sinks = [x for x in walk_shallow(po.node) if isinstance(x, ast.Call) and dotted(x.func) == 'parse_qsl']
    for c in sinks:
        cn = g.node_of_stmt(c)[0]
        n_tests = 0
        for n in g.nodes:
            if n.kind != 'test' or not (g.edge_dominates(n, 'true', cn) or g.edge_dominates(n, 'false', cn)):
                continue
            n_tests += 1
            for x in ast.walk(n.ast):
                if not (isinstance(x, ast.Compare) and len(x.ops) == 1 and isinstance(x.ops[0], (ast.Eq, ast.NotEq, ast.In, ast.NotIn))):
                    continue
                l, r = x.left, x.comparators[0]
                lit = r if isinstance(r, (ast.Constant, ast.Tuple, ast.List, ast.Set)) else (l if isinstance(l, ast.Constant) else None)
                var = l if lit is r else r
                if lit is None:
                    continue
                strs = [k.value for k in ast.walk(lit) if isinstance(k, ast.Constant) and isinstance(k.value, str)]
                if not any('/' in s_ for s_ in strs):
                    continue
                vx = T.xsrc(po, var, n)
                whole = 'content_type' in vx or "'CONTENT_TYPE'" in vx
                if whole and '.split(' not in vx and 'ctype[' not in vx and '.partition(' not in vx:
                    R.ob(rid, po, x, False, text=f'`{short(x)}` decides whether the body is parsed as pairs', detail=
                         f'`{short(x)}` compares the whole Content-Type value (`{vx}`) with a literal: the header may carry parameters - '
                         f'`application/x-www-form-urlencoded; charset=UTF-8` is not equal to the literal, the branch is skipped and the form comes back empty',
                         why='URL-encoding pairs as an urlencoded body and parsing yields the same pairs', key_extra='ctype-whole-literal')
        R.ob(rid, po, c, True, text=f'the urlencoded branch: {n_tests} deciding test(s) examined for whole-value comparisons of Content-Type', nontrivial=False,
             key_extra='ctype-tests-summary')


def check_container_keeps_object(P, R, rid):
    """parse_qsl hands the list of a repeated key to the container once (at the second occurrence) and afterwards appends to that same list: the container
    must keep the very object it is given.  The containers are built by `_forms_factory` (FormsDict): no `__setitem__` of that class (or of a package base class)
    stores a copy."""
    cls = P.classes.get('ombott.request_pkg.helpers:FormsDict')
    if cls is None:
        R.undecided(rid, 'ombott.request_pkg.helpers', None, 'container of the parsed pairs', 'class FormsDict not found')
        return
    found = False
    for k in P.mro(cls):
        m = k.methods.get('__setitem__')
        if m is None or not k.fq.startswith('ombott.'):
            continue
        found = True
        vp = m.params[2] if len(m.params) > 2 else None
        ok = True
        why_not = ''
        for c in walk_shallow(m.node):
            if isinstance(c, ast.Call) and call_attr(c) == '__setitem__' and len(c.args) >= 2:
                a = c.args[-1]
                ns = m.cfg.node_of_stmt(c)
                if not (isinstance(a, ast.Name) and a.id == vp and ns and all(d.kind == 'param' for d in m.rd.at(ns[0], vp))):
                    ok = False
                    ds = [d for d in (m.rd.at(ns[0], a.id) if ns and isinstance(a, ast.Name) else []) if d.kind != 'param']
                    why_not = short(ds[0].stmt) if ds else short(a)
        R.ob(rid, m, m.node, ok, text=f'{k.name}.__setitem__ stores the object it is given', detail='' if ok else
             f'{k.name}.__setitem__ can store `{why_not}` instead of the value itself (a copy of a list): parse_qsl gives the list of a repeated key to the container '
             f'at the second occurrence and appends later values to its own reference - they never reach the stored copy, so a=1&a=2&a=3 reads as [\'1\', \'2\']',
             why='repeated keys are collected as lists in submission order', key_extra='container-copies')
    if not found:
        R.ob(rid, cls.fq, None, True, text='FormsDict stores through dict.__setitem__ (the object itself)', nontrivial=False)


def check_view_guards(P, R, rid, fq, is_sink, what, why):
    """a parsed view of the body (forms, JSON) is produced whatever the framing: no test of the declared length, the transfer coding or the verb decides
    whether the body is looked at"""
    po = P.func(fq)
    g = po.cfg
    for c in [x for x in walk_shallow(po.node) if isinstance(x, ast.Call) and is_sink(x)]:
        cn = g.node_of_stmt(c)[0]
        bad = []
        for n in g.nodes:
            if n.kind == 'test' and (g.edge_dominates(n, 'true', cn) or g.edge_dominates(n, 'false', cn)):
                extra = [x for x in ast.walk(n.ast) if isinstance(x, ast.Attribute) and x.attr in ('content_length', 'chunked', 'method')]
                extra += [x for x in ast.walk(n.ast) if isinstance(x, ast.Constant) and x.value in ('CONTENT_LENGTH', 'REQUEST_METHOD', 'HTTP_TRANSFER_ENCODING')]
                if extra:
                    bad.append(n)
        R.ob(rid, po, c, not bad, text=f'{what}: the body is parsed whatever the framing / declared length', detail='' if not bad else
             f'{what} is guarded by `{short(bad[0].ast)}`: content_length is -1 without a Content-Length header (chunked transfer), so a chunked '
             f'body is never parsed and the view comes back empty',
             why=why, key_extra='framing-guard')


def check_total(P, R, f, unq, seen, depth=0):
    if f.fq in seen or depth > 3:
        return
    seen.add(f.fq)
    local_funcs = {x.name: x for x in P.all_funcs() if x.parent is f}
    params = set(f.params)
    for c in ast.walk(f.node):
        if not isinstance(c, ast.Call):
            continue
        d = dotted(c.func)
        ok, det = True, ''
        if isinstance(c.func, ast.Name):
            nm = c.func.id
            if nm in TOTAL_CALLS or nm in unq:
                if nm in unq and any(k.arg == 'errors' and const(k.value) == 'strict' for k in c.keywords):
                    ok, det = False, "unquote(errors='strict') raises UnicodeDecodeError on a stray escape"
            elif nm in local_funcs or nm in ('add', 'append', 'setitem'):
                pass
            elif (T.resolved_callee(f, c) or '').split('.')[-1] in TOTAL_ATTRS and T.resolved_callee(f, c) != nm:
                pass   # local alias of a total method (e.g. `_append = container.append`)
            elif nm in params:
                pass
            else:
                r = P.resolve_name(f.module, nm)
                if r and r[0] == 'func':
                    check_total(P, R, r[1], unq, seen, depth + 1)
                elif r and r[0] == 'class':
                    # a small callable object of the package: constructing it and calling it must be total as well
                    for mname_ in ('__init__', '__call__'):
                        if mname_ in r[1].methods:
                            check_total(P, R, r[1].methods[mname_], unq, seen, depth + 1)
                elif nm in PARTIAL_CALLS:
                    ok, det = False, f'call of `{nm}`, which raises for some arguments'
                else:
                    R.undecided('C18.b', f, c, f'{short(c)}', f'`{nm}` is in neither catalogue (total / raising operations)')
                    continue
        elif isinstance(c.func, ast.Attribute):
            stored_callable = False
            if isinstance(c.func.value, ast.Name) and c.func.value.id == 'self' and f.owner_cls is not None and '__init__' in f.owner_cls.methods:
                init_ = f.owner_cls.methods['__init__']
                stored_callable = any(isinstance(st_, ast.Assign) and isinstance(st_.value, ast.Name) and st_.value.id in init_.params
                                      and any(dotted(t_) == f'self.{c.func.attr}' for t_ in st_.targets) for st_ in walk_shallow(init_.node))
            is_logger = False
            if isinstance(c.func.value, ast.Name) and c.func.attr in ('debug', 'info', 'warning', 'error', 'exception', 'critical', 'log'):
                mv_ = T.module_value(f, c.func.value)
                is_logger = isinstance(mv_, ast.Call) and (dotted(mv_.func) or '').endswith('getLogger')
            if stored_callable or is_logger:
                pass      # the sink callable handed to the constructor (like the `setitem` / `append` parameters); logging calls do not raise
            elif c.func.attr in PARTIAL_ATTRS:
                ok, det = False, f'method `{c.func.attr}` raises for some arguments'
            elif c.func.attr not in TOTAL_ATTRS:
                R.undecided('C18.b', f, c, f'{short(c)}', f'method `{c.func.attr}` is in neither catalogue (total / raising operations)')
                continue
        R.ob('C18.b', f, c, ok, detail=det, why='parsing any string whatsoever must not raise')
    for n in ast.walk(f.node):
        if isinstance(n, (ast.Raise, ast.Assert)):
            R.ob('C18.b', f, n, False, detail='explicit raise/assert in the scanner')
        if isinstance(n, ast.Subscript) and isinstance(n.ctx, ast.Load) and not isinstance(n.slice, ast.Slice):
            # indexing: only of dicts after a membership test / lists; flag string indexing by computed index
            v = dotted(n.value) or ''
            ok = v.startswith('_') or v in ('container',)
            if not ok and isinstance(n.slice, ast.Name):
                # `j < L and qs[j] ...`: an earlier conjunct of the same test bounds the index by the length of the indexed text
                p_ = getattr(n, '_p', None)
                child_ = n
                while p_ is not None and not isinstance(p_, ast.stmt):
                    if isinstance(p_, ast.BoolOp) and isinstance(p_.op, ast.And):
                        idx_ = next((i_ for i_, v_ in enumerate(p_.values) if any(x_ is n for x_ in ast.walk(v_))), None)
                        for v_ in p_.values[:idx_ or 0]:
                            cpv = compare_parts(v_)
                            if cpv and cpv[1] is ast.Lt and src(cpv[0]) == n.slice.id and isinstance(cpv[2], ast.Name):
                                mv_ = T.expand(f, cpv[2], f.cfg.node_of_stmt(n)[0]) if f.cfg.node_of_stmt(n) else cpv[2]
                                if isinstance(mv_, ast.Call) and dotted(mv_.func) == 'len' and mv_.args and src(mv_.args[0]) == v:
                                    ok = True
                    p_ = getattr(p_, '_p', None)
            if not ok and not isinstance(f.node, ast.Lambda):
                # `d[k]` right under `if k in d`
                nn_ = f.cfg.node_of_stmt(n)
                if nn_:
                    for (e_, holds_, _) in T.guard_atoms(f, nn_[0]):
                        cp_ = compare_parts(e_)
                        if cp_ and cp_[1] is ast.In and holds_ and src(cp_[0]) == src(n.slice) and src(cp_[2]) == src(n.value):
                            ok = True
            R.ob('C18.b', f, n, ok, detail='' if ok else f'index load `{short(n)}` may raise IndexError/KeyError', nontrivial=False)


def check_add(P, R, f):
    adds = [x for x in P.all_funcs() if x.parent is f and x.name == 'add' and isinstance(x.node, ast.FunctionDef)]
    scope_nodes = [f.node]
    sink_names = {'setitem'}
    if adds:
        # several sinks may be defined by name (one per mode): the one under examination is the one that feeds setitem
        feeding = [x for x in adds if any(isinstance(c_, ast.Call) and dotted(c_.func) in sink_names for c_ in ast.walk(x.node))]
        a = (feeding or adds)[0]
        if len(a.params) == 1:
            # the sink takes the pair as one tuple: `def add(pair): k, v = pair`
            first_ = [st_ for st_ in a.node.body if isinstance(st_, ast.Assign) and isinstance(st_.targets[0], ast.Tuple) and len(st_.targets[0].elts) == 2
                      and isinstance(st_.value, ast.Name) and st_.value.id == a.params[0] and all(isinstance(e_, ast.Name) for e_ in st_.targets[0].elts)]
            R.require(len(first_) == 1, 'parse_qsl.add: `key, value = <pair>` not found')
            k, v = [e_.id for e_ in first_[0].targets[0].elts]
        else:
            k, v = a.params[0], a.params[1]
    else:
        # the sink may be a small callable object of the package: `add = _Setter(setitem)` with the logic in __call__
        a = None
        for st_ in walk_shallow(f.node):
            if isinstance(st_, ast.Assign) and any(isinstance(t_, ast.Name) and t_.id == 'add' for t_ in st_.targets) and isinstance(st_.value, ast.Call):
                r_ = P.resolve_name(f.module, dotted(st_.value.func) or '')
                if r_ and r_[0] == 'class' and '__call__' in r_[1].methods:
                    a = r_[1].methods['__call__']
                    scope_nodes = [r_[1].node]
                    init_ = r_[1].methods.get('__init__')
                    if init_ is not None:
                        for s2 in walk_shallow(init_.node):
                            if isinstance(s2, ast.Assign) and isinstance(s2.value, ast.Name) and s2.value.id in init_.params:
                                sink_names |= {dotted(t_) for t_ in s2.targets if dotted(t_)}
        R.require(a is not None, 'parse_qsl.add not found')
        k, v = a.params[1], a.params[2]
    g, rd = a.cfg, a.rd
    # what each dict stores (from the enclosing function / class + add itself)
    stores = {}
    for root_ in scope_nodes:
        for n in ast.walk(root_):
            if isinstance(n, ast.Assign):
                for t in n.targets:
                    if isinstance(t, ast.Subscript) and dotted(t.value):
                        stores.setdefault(dotted(t.value), []).append(n.value)
            if isinstance(n, ast.Call) and call_attr(n) == 'setdefault' and dotted(n.func.value) and len(n.args) == 2:
                stores.setdefault(dotted(n.func.value), []).append(n.args[1])

    def never_empty(dname):
        vals = stores.get(dname, [])
        return bool(vals) and all(isinstance(x, (ast.List, ast.Tuple)) and len(x.elts) >= 1 for x in vals)

    # tests in add
    for n in g.nodes:
        if n.kind != 'test':
            continue
        t, neg = strip_not(n.ast)
        if isinstance(t, ast.Name):
            defs = rd.at(n, t.id)
            for d in defs:
                if d.value is not None and isinstance(d.value, ast.Call) and call_attr(d.value) == 'get' and dotted(d.value.func.value):
                    dn = dotted(d.value.func.value)
                    ok = never_empty(dn)
                    R.ob('C18.c', a, n.ast, ok, text=f'if {short(n.ast)}  [{t.id} = {short(d.value)}]', detail='' if ok else
                         f'"seen before" is decided by the truthiness of a value stored in `{dn}`, which may be the empty string: '
                         f'a repeated key whose first value is empty loses its later values',
                         why='repeated keys are collected as lists in submission order')
        else:
            cp = compare_parts(t)
            if cp and cp[1] in (ast.In, ast.NotIn) and dotted(cp[2]):
                R.ob('C18.c', a, n.ast, True, text=f'if {short(n.ast)} [membership]')
    # promotion: a list literal [first, new] where first comes from the seen-store and new is the parameter, stored once via setitem
    lists = [x for x in ast.walk(a.node) if isinstance(x, ast.List) and len(x.elts) == 2]
    ok = False

    def looked_up(name, at):
        """the dict `name` was read from under the key, at every definition: `name = D.get(k)` / `D[k]`"""
        ds = rd.at(at, name)
        out = set()
        for d in ds:
            dv = d.value
            if dv is not None and isinstance(dv, ast.Call) and call_attr(dv) == 'get' and dotted(dv.func.value) and dv.args and src(dv.args[0]) == k:
                out.add(dotted(dv.func.value))
            elif dv is not None and isinstance(dv, ast.Subscript) and dotted(dv.value) and src(dv.slice) == k:
                out.add(dotted(dv.value))
            else:
                return None
        return out if len(out) == 1 else None

    def record_first_field(e0, at):
        """`slot.first` where slot = D.get(k), D[k] is only ever bound to K(v) (the value of that occurrence), and K.__init__ keeps that argument
        in the field `first`"""
        if not (isinstance(e0, ast.Attribute) and isinstance(e0.value, ast.Name)):
            return False
        dn = looked_up(e0.value.id, at)
        if not dn:
            return False
        vals = stores.get(next(iter(dn)), [])
        if not vals:
            return False
        for x in vals:
            if not (isinstance(x, ast.Call) and len(x.args) >= 1):
                return False
            r_ = P.resolve_name(f.module, dotted(x.func) or '')
            if not (r_ and r_[0] == 'class' and '__init__' in r_[1].methods):
                return False
            init_ = r_[1].methods['__init__']
            pos = [i_ for i_, a_ in enumerate(x.args) if isinstance(a_, ast.Name) and a_.id == v]
            if len(pos) != 1 or pos[0] + 1 >= len(init_.params):
                return False
            pname = init_.params[pos[0] + 1]
            sets_ = [s_ for s_ in walk_shallow(init_.node) if isinstance(s_, ast.Assign) and any(dotted(t_) == f'self.{e0.attr}' for t_ in s_.targets)]
            if not (len(sets_) == 1 and isinstance(sets_[0].value, ast.Name) and sets_[0].value.id == pname):
                return False
            # nothing else writes the field
            if any(isinstance(t_, ast.Attribute) and t_.attr == e0.attr and isinstance(t_.ctx, ast.Store) and s_ is not sets_[0]
                   for root_ in scope_nodes + [r_[1].node] for s_ in ast.walk(root_) if isinstance(s_, (ast.Assign, ast.AugAssign))
                   for t_ in (s_.targets if isinstance(s_, ast.Assign) else [s_.target])):
                return False
        return True
    for L in lists:
        e0, e1 = L.elts
        first_from_seen = isinstance(e0, ast.Subscript) and dotted(e0.value) and src(e0.slice) == k or \
            (isinstance(e0, ast.Name) and any(d.value is not None and isinstance(d.value, (ast.Subscript, ast.Call)) for d in rd.at(g.node_of_stmt(L)[0], e0.id))) or \
            record_first_field(e0, g.node_of_stmt(L)[0])
        ok = ok or (first_from_seen and isinstance(e1, ast.Name) and e1.id == v)
    R.ob('C18.c', a, lists[0] if lists else a.node, ok, text='second value -> [first, second]', detail='' if ok else
         'the promotion does not build [first value, new value] in that order')
    # the promoted list is also kept where the next occurrence of the key looks for it
    for L in lists:
        st_ = stmt_of(L)
        kept = False
        names_ = set()
        if isinstance(st_, ast.Assign) and st_.value is L:
            for t_ in st_.targets:
                if isinstance(t_, ast.Subscript) and dotted(t_.value) and src(t_.slice) == k:
                    kept = True
                elif isinstance(t_, ast.Name):
                    names_.add(t_.id)
                elif isinstance(t_, ast.Attribute) and isinstance(t_.value, ast.Name) and looked_up(t_.value.id, g.node_of_stmt(L)[0]):
                    kept = True          # a field of the record kept under the key
        for n2 in ast.walk(a.node):
            if isinstance(n2, ast.Assign) and isinstance(n2.value, ast.Name) and n2.value.id in names_ and any(
                    isinstance(t_, ast.Subscript) and dotted(t_.value) and src(t_.slice) == k for t_ in n2.targets):
                kept = True
            if isinstance(n2, ast.Call) and call_attr(n2) in ('setdefault', '__setitem__') and dotted(n2.func.value) and len(n2.args) == 2 and src(n2.args[0]) == k \
                    and ((isinstance(n2.args[1], ast.Name) and n2.args[1].id in names_) or n2.args[1] is L) and dotted(n2.func) not in sink_names:
                kept = True
        R.ob('C18.c', a, L, kept, text=f'the promoted list `{short(L)}` is remembered under the key', detail='' if kept else
             f'the list built for the second occurrence is handed to the container but not stored where the next occurrence looks the key up: a third occurrence is '
             f'treated as a second one again and replaces the entry by [first, third] (a=1&a=2&a=3 -> [\'1\', \'3\'])',
             why='repeated keys are collected as lists in submission order', key_extra='promotion-kept')
    apps = [c for c in ast.walk(a.node) if isinstance(c, ast.Call) and call_attr(c) == 'append' and len(c.args) == 1
            and isinstance(c.args[0], ast.Name) and c.args[0].id == v]
    ins = [c for c in ast.walk(a.node) if isinstance(c, ast.Call) and call_attr(c) in ('insert', 'sort', 'reverse')]
    R.ob('C18.c', a, apps[0] if apps else a.node, bool(apps) and not ins, text='later values appended', detail='' if (apps and not ins) else
         'later values are not appended at the end of the list')
    # first value stored as scalar via setitem(k, ...)
    sets = [c for c in ast.walk(a.node) if isinstance(c, ast.Call) and dotted(c.func) in sink_names]
    ok = len(sets) >= 2 and all(c.args and isinstance(c.args[0], ast.Name) and c.args[0].id == k for c in sets)
    R.ob('C18.c', a, sets[0] if sets else a.node, ok, text='setitem(key, ...) for first value and for the promoted list', detail='' if ok else
         'the container is not updated for the first value and once for the list')


def check_decode_order(P, R, f, unq):
    g, rd = f.cfg, f.rd
    add_calls = [c for c in walk_shallow(f.node) if isinstance(c, ast.Call) and isinstance(c.func, ast.Name) and c.func.id == 'add'
                 and len(c.args) == 2]
    # (the pair may be handed over as one tuple: add((key, value)))
    for c in walk_shallow(f.node):
        if isinstance(c, ast.Call) and isinstance(c.func, ast.Name) and c.func.id == 'add' and len(c.args) == 1 and isinstance(c.args[0], ast.Tuple) \
                and len(c.args[0].elts) == 2 and not c.keywords:
            c2 = ast.copy_location(ast.Call(func=c.func, args=list(c.args[0].elts), keywords=[]), c)
            c2._p = getattr(c, '_p', None)
            c2._orig = c
            add_calls.append(c2)
    R.require(add_calls, 'parse_qsl never calls add(key, value)')

    def is_plus_replace(x):
        return isinstance(x, ast.Call) and call_attr(x) == 'replace' and len(x.args) == 2 and is_const(x.args[0], '+') and is_const(x.args[1], ' ')

    def decode_shape(P, fn, expr, at, depth=0):
        """returns list of problems for one decoded operand"""
        rdx = fn.rd
        probs = []
        cl = rdx.closure_nodes(expr, at, stop=lambda x: isinstance(x, ast.Call) and isinstance(x.func, ast.Name) and x.func.id in unq)
        # after-unquote part: everything in closure outside unquote args
        if any(is_plus_replace(x) for x in cl):
            probs.append('"+" is replaced by a space after percent-decoding: a literal plus sent as %2B becomes a space')
        uq = [x for x in cl if isinstance(x, ast.Call) and isinstance(x.func, ast.Name) and x.func.id in unq]
        helper_calls = [x for x in cl if isinstance(x, ast.Call) and isinstance(x.func, ast.Name)
                        and (P.resolve_name(fn.module, x.func.id) or (None,))[0] == 'func' and x.func.id not in unq]
        for u in uq:
            inner = ast.walk(u.args[0]) if u.args else []
            innercl = rdx.closure_nodes(u.args[0], at) if u.args else []
            plus_itself = fn.module.imports.get(u.func.id) == 'urllib.parse:unquote_plus'     # unquote_plus turns "+" into a space first
            if not plus_itself and not any(is_plus_replace(x) for x in innercl):
                probs.append('the text handed to unquote() has not had "+" turned into a space')
        for h in helper_calls:
            if depth < 2:
                hf = P.resolve_name(fn.module, h.func.id)[1]
                for r in [n for n in walk_shallow(hf.node) if isinstance(n, ast.Return) and n.value is not None]:
                    probs += decode_shape(P, hf, r.value, hf.cfg.node_of_stmt(r)[0], depth + 1)
        if not uq and not helper_calls:
            probs.append('value is not percent-decoded')
        return probs

    # a lookup table local to the parser (memo of decoded names/values) must be keyed by one kind of text only
    tables = {d.name for n in g.nodes for d in rd.gen.get(n, []) if d.kind == 'assign' and d.value is not None and
              ((isinstance(d.value, ast.Dict) and not d.value.keys) or (isinstance(d.value, ast.Call) and dotted(d.value.func) in ('dict', 'OrderedDict') and not d.value.args))}
    for tb in sorted(tables):
        keys = []
        for x in walk_shallow(f.node):
            if isinstance(x, ast.Call) and isinstance(x.func, ast.Attribute) and isinstance(x.func.value, ast.Name) and x.func.value.id == tb \
                    and x.func.attr in ('get', 'setdefault', 'pop') and x.args:
                keys.append((x, x.args[0]))
            elif isinstance(x, ast.Subscript) and isinstance(x.value, ast.Name) and x.value.id == tb:
                keys.append((x, x.slice))
        kinds = {}
        for (x, k) in keys:
            xn = g.node_of_stmt(x)
            if not xn:
                continue
            decoded = any(isinstance(y, ast.Call) and isinstance(y.func, ast.Name) and y.func.id in unq for y in rd.closure_nodes(k, xn[0], follow_mut=False))
            kinds.setdefault('decoded' if decoded else 'raw', []).append(x)
        if len(keys) >= 2:
            ok = len(kinds) == 1
            R.ob('C18.d', f, (kinds.get('decoded') or [keys[0][0]])[0], ok, text=f'lookup table `{tb}` is keyed by one kind of text', detail='' if ok else
                 f'`{tb}` is keyed both by raw (still encoded) and by decoded text: decoding is not idempotent, so a decoded name that spells an escape or a "+" '
                 f'is taken for the raw form of another name (a%2Bb=1&a+b=2 merges two different keys)',
                 why="'+' and percent-escapes decode to what was sent", key_extra=f'table:{tb}')
    for c in add_calls:
        cn = g.node_of_stmt(getattr(c, '_orig', c))[0]
        for role, arg in (('key', c.args[0]), ('value', c.args[1])):
            defs = rd.at(cn, arg.id) if isinstance(arg, ast.Name) else []
            exprs = [d.value for d in defs if d.value is not None] if defs else [arg]
            probs = []
            for e, d in zip(exprs, defs or [None]):
                if isinstance(e, ast.Constant) and e.value == '':
                    continue
                probs += decode_shape(P, f, e, d.node if d is not None else cn)
            R.ob('C18.d', f, c, not probs, text=f'{role} of add(): "+" -> space, then percent-decoding', detail='; '.join(sorted(set(probs))),
                 why="'+' and percent-escapes decode to what was sent", key_extra=role)


def check_query_memo(P, R):
    """request.query is memoised in the environ under the key the change listener drops when QUERY_STRING is written through the request
    (writer and invalidator agree on the memo key; nothing else stores the parsed query under a second key that is read back)"""
    from . import c15 as _c15
    _c15.check_env_store_emits(P, R, 'C18.d', 'the pairs parsed are those of the query string the request carries now',
                               'the query parsed while QUERY_STRING was absent (an empty dict) - stay cached, so `request["QUERY_STRING"] = "a=1"` is never parsed')
    q = P.func('ombott.request_pkg.body_mixin:BodyMixin.query')
    keys = []
    for d in q.node.decorator_list:
        if isinstance(d, ast.Call) and (dotted(d.func) or '').split('.')[-1] == 'cache_in' and d.args and isinstance(d.args[0], ast.Constant):
            m = d.args[0].value.replace(' ', '')
            if m.startswith('environ[') and m.endswith(']'):
                keys.append(m[len('environ['):-1])
    ld = listener_drops(P, 'QUERY_STRING')
    if ld is None:
        if keys:
            R.undecided('C18.d', q, q.node, 'request.query memo', 'how the change listener maps QUERY_STRING to the memos it drops has no recogniser')
        return
    dropped, prefix = ld
    if not keys:
        R.ob('C18.d', q, q.node, True, text='request.query is not memoised', nontrivial=False)
        return
    for k in keys:
        ok = any(prefix + d_ == k for d_ in dropped)
        R.ob('C18.d', q, q.node, ok, text=f'memo key `{k}` of request.query is dropped when QUERY_STRING changes', detail='' if ok else
             f'request.query is memoised under `{k}`, but the change listener drops {sorted(prefix + d_ for d_ in dropped)} for QUERY_STRING: after '
             f'`request["QUERY_STRING"] = ...` (also on a copy of the request) the pairs of the first query keep being returned',
             why='parsing the query string of the request yields its pairs', key_extra='query-memo-key')
    # ... and so is every other memoised accessor that is computed from the query (an alias spelt as a property of its own, params)
    for cfq in ('ombott.request_pkg.body_mixin:BodyMixin', 'ombott.request_pkg.props_mixin:PropsMixin'):
        c_ = P.classes.get(cfq)
        if c_ is None:
            continue
        for mname, m in sorted(c_.methods.items()):
            if m is q:
                continue
            # (the parsed pairs only: urlparts / query_string carry the raw text and are outside this property)
            uses_query = any(isinstance(x, ast.Attribute) and x.attr in ('query', 'GET') and src(x.value) == 'self' for x in walk_shallow(m.node))
            if not uses_query:
                continue
            for d in m.node.decorator_list:
                if isinstance(d, ast.Call) and (dotted(d.func) or '').split('.')[-1] == 'cache_in' and d.args and isinstance(d.args[0], ast.Constant):
                    mk = d.args[0].value.replace(' ', '')
                    if mk.startswith('environ[') and mk.endswith(']'):
                        k = mk[len('environ['):-1]
                        ok = any(prefix + d_ == k for d_ in dropped)
                        R.ob('C18.d', m, m.node, ok, text=f'memo key `{k}` of request.{mname} (computed from the query) is dropped when QUERY_STRING changes', detail='' if ok else
                             f'request.{mname} is computed from the query and memoised under `{k}`, which the change listener does not drop for QUERY_STRING '
                             f'(it drops {sorted(prefix + d_ for d_ in dropped)}): after `request["QUERY_STRING"] = ...` request.{mname} keeps returning the pairs of the old query',
                             why='parsing the query string of the request yields its pairs', key_extra=f'query-memo-key:{mname}')


def _str_consts(f, node):
    """string constants of a statement, with names of module-level constant strings / tuples of strings resolved"""
    out = set()
    for x in ast.walk(node):
        if isinstance(x, ast.Constant) and isinstance(x.value, str):
            out.add(x.value)
        elif isinstance(x, ast.Name):
            try:
                v = T.ceval(f, x)
            except T.CannotEval:
                continue
            if isinstance(v, str):
                out.add(v)
            elif isinstance(v, (tuple, list, set, frozenset)):
                out |= {e for e in v if isinstance(e, str)}
    return out


def listener_drops(P, key):
    """names of the `ombott.request.*` memos that BaseRequest._on_env_changed drops when environ key `key` ('QUERY_STRING', or 'HTTP_' for any header key) is
    written through the request - read off an if/elif chain, a module-level dict / table of pairs, or a conditional expression.  (names, prefix) or None."""
    oc = P.func('ombott.request_pkg.request:BaseRequest._on_env_changed')
    names = set()
    found = False
    prefix_kind = key.endswith('_')

    def key_test(t):
        for x in ast.walk(t):
            if prefix_kind and isinstance(x, ast.Call) and call_attr(x) == 'startswith' and x.args and is_const(T.module_value(oc, x.args[0]), key):
                return True
            cp = compare_parts(x) if isinstance(x, ast.Compare) else None
            if not prefix_kind and cp and cp[1] is ast.Eq and (is_const(T.module_value(oc, cp[2]), key) or is_const(T.module_value(oc, cp[0]), key)):
                return True
        return False
    for t in [n for n in oc.cfg.nodes if n.kind == 'test' and n.ast is not None]:
        if key_test(t.ast):
            for m_ in T.succ_by_label(t, 'true'):
                if m_.kind == 'stmt' and m_.ast is not None:
                    names |= _str_consts(oc, m_.ast)
                    found = True
    for x in ast.walk(oc.node):
        if isinstance(x, ast.IfExp) and key_test(x.test):
            names |= _str_consts(oc, x.body)
            found = True
    if not prefix_kind:
        for x in ast.walk(oc.node):
            if isinstance(x, ast.Name):
                try:
                    v = T.ceval(oc, x)
                except T.CannotEval:
                    continue
                if isinstance(v, dict) and key in v and isinstance(v[key], (tuple, list, set, frozenset)):
                    names |= {e for e in v[key] if isinstance(e, str)}
                    found = True
                elif isinstance(v, (tuple, list)) and all(isinstance(p_, (tuple, list)) and len(p_) == 2 for p_ in v):
                    for k_, vs_ in v:
                        if k_ == key and isinstance(vs_, (tuple, list, set, frozenset)):
                            names |= {e for e in vs_ if isinstance(e, str)}
                            found = True
    prefix = ''
    for x in ast.walk(oc.node):
        if isinstance(x, ast.BinOp) and isinstance(x.op, ast.Add):
            lv = T.module_value(oc, x.left)
            if isinstance(lv, ast.Constant) and isinstance(lv.value, str):
                prefix = lv.value
    names.discard(key)
    names.discard(prefix)
    return (names, prefix) if found else None
