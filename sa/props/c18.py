"""C18 - Query strings and urlencoded forms decode to exactly what was sent."""
import ast

from ..astutil import (walk_shallow, dotted, call_attr, short, src, stmt_of, names_loaded, is_const, enclosing,
                       compare_parts, strip_not, const, bool_operands)
from ..loader import AnalysisError
from .. import rules as T

ID = 'C18'
DECIDED = ('(a) the scanner terminates: on every path round the outer loop the cursor is assigned `j + 1` with j = cursor + '
           'idx, idx an enumerate index (>= 0), the bound is the constant length, inner loops are for-loops over slices; '
           '(b) nothing in the scanner raises: every call is to a total operation of the stated catalogue or to a package '
           'helper made of those, the callbacks are dict.__setitem__ at every call site; (c) repeated keys: "seen before" '
           'is decided by membership (or by truthiness only of containers that are never empty), the first value is kept, '
           'the second creates [first, second] stored once, later values are appended to that list; (d) on keys and values '
           '"+" is turned into a space before percent-decoding and never after it; forms text is taken from the body as '
           'latin1.')
NOT_DECIDED = ('encode -> parse equality for all pair lists (urllib.parse.unquote semantics); UTF-8 decoding of escapes is '
               'urllib behaviour.')
ASSUMPTIONS = ["urllib.parse.unquote(s) with default errors='replace' raises nothing",
               'str slicing/replace/comparison raise nothing']

H = 'ombott.request_pkg.helpers'
TOTAL_CALLS = {'len', 'enumerate', 'dict', 'list', 'range', 'str'}
TOTAL_ATTRS = {'replace', 'append', 'get', 'setdefault', 'startswith', 'strip', 'lower', 'split', 'partition', 'find', 'join'}


def unquote_names(mod):
    out = set()
    for k, v in mod.imports.items():
        if v in ('urllib.parse:unquote', 'urllib.parse:unquote_plus'):
            out.add(k)
    return out


def check(P, R):
    R.rule('C18.a', 'scanner terminates (cursor strictly increases round the loop)', floor=3)
    R.rule('C18.b', 'scanner raises nothing', floor=5)
    R.rule('C18.c', 'list promotion keeps submission order; membership decides "seen"', floor=4)
    R.rule('C18.d', 'plus-to-space before percent-decoding', floor=3)

    f = P.func(f'{H}:parse_qsl')
    g, rd = f.cfg, f.rd
    mod = f.module
    whiles = [n for n in walk_shallow(f.node) if isinstance(n, ast.While)]
    R.require(len(whiles) == 1, f'{f.fq}: expected one scanning loop')
    loop = whiles[0]
    cp = compare_parts(loop.test)
    R.require(cp and cp[1] is ast.Lt and isinstance(cp[0], ast.Name) and isinstance(cp[2], ast.Name), 'scan loop is not `while i < L`')
    cur, bound = cp[0].id, cp[2].id
    head = T.loop_head(g, loop)
    # bound is len(qs), never reassigned in the loop
    bdefs = rd.at(head, bound)
    ok = len(bdefs) == 1 and isinstance(bdefs[0].value, ast.Call) and dotted(bdefs[0].value.func) == 'len'
    R.ob('C18.a', f, loop.test, ok, text=f'{bound} = len(input), loop-invariant', detail='' if ok else f'{bound} is modified inside the loop')
    # cursor assignments in the loop
    assigns = []
    for st in loop.body:
        for x in walk_shallow(st):
            if isinstance(x, ast.Assign) and any(isinstance(t, ast.Name) and t.id == cur for t in x.targets):
                assigns.append(x)
            if isinstance(x, ast.AugAssign) and isinstance(x.target, ast.Name) and x.target.id == cur:
                assigns.append(x)
    R.require(assigns, 'cursor never assigned in loop')
    adv_nodes = []
    for a in assigns:
        an = g.node_of_stmt(a)[0]
        ok, det = False, f'`{short(a)}` does not advance the cursor past the separator'
        v = a.value
        if isinstance(a, ast.Assign) and isinstance(v, ast.BinOp) and isinstance(v.op, ast.Add) and isinstance(v.left, ast.Name) \
                and isinstance(v.right, ast.Constant) and isinstance(v.right.value, int) and v.right.value >= 1:
            j = v.left.id
            jd = rd.at(an, j)
            okj = bool(jd)
            for d in jd:
                w = d.value
                good = (d.kind == 'assign' and isinstance(w, ast.BinOp) and isinstance(w.op, ast.Add) and isinstance(w.left, ast.Name)
                        and w.left.id == cur and isinstance(w.right, ast.Name))
                if good:
                    # idx >= 0: enumerate index, or that plus a positive constant, or constant 0
                    for dd in rd.at(d.node, w.right.id):
                        if dd.kind == 'for' and isinstance(dd.value, ast.Call) and dotted(dd.value.func) == 'enumerate':
                            continue
                        if dd.kind == 'aug' and isinstance(dd.value, ast.Constant) and dd.value.value >= 0:
                            continue
                        if dd.kind == 'assign' and isinstance(dd.value, ast.Constant) and isinstance(dd.value.value, int) and dd.value.value >= 0:
                            continue
                        good = False
                okj = okj and good
            ok = okj
            det = '' if ok else f'`{j}` is not `{cur} + <non-negative index>`'
        elif isinstance(a, ast.AugAssign) and isinstance(a.op, ast.Add) and isinstance(v, ast.Constant) and v.value >= 1:
            ok, det = True, ''
        R.ob('C18.a', f, a, ok, detail=det, why='without progress the loop spins for ever on that input')
        if ok:
            adv_nodes.append(an)
    # every path round the loop passes an advancing assignment
    firsts = T.succ_by_label(head, 'true')
    ok = bool(adv_nodes) and all(s in adv_nodes or g.must_pass(s, head, adv_nodes) for s in firsts)
    R.ob('C18.a', f, loop.test, ok, text='every path round the scan loop advances the cursor', detail='' if ok else
         'a path back to the loop head (e.g. the `continue` for an empty key) skips the cursor advance: parsing "a=1&&b=2", "&a", "=" never ends',
         why='parsing any string whatsoever terminates', key_extra='progress')
    # inner loops are for-loops
    inner_while = [n for st in loop.body for n in walk_shallow(st) if isinstance(n, ast.While)]
    R.ob('C18.a', f, loop, not inner_while, text='inner loops are bounded for-loops', detail='' if not inner_while else 'inner while loop in the scanner',
         nontrivial=False)

    # ---- b: raises nothing
    unq = unquote_names(mod)
    R.require(unq, 'helpers.py does not import urllib.parse.unquote')
    check_total(P, R, f, unq, set())

    # call sites give dict.__setitem__
    for fq in ('ombott.request_pkg.body_mixin:BodyMixin.query', 'ombott.request_pkg.body_mixin:BodyMixin.POST'):
        cf = P.func(fq)
        for c in [x for x in walk_shallow(cf.node) if isinstance(x, ast.Call) and dotted(x.func) == 'parse_qsl']:
            kw = {k.arg: k.value for k in c.keywords}
            ok = set(kw) == {'setitem'} and isinstance(kw['setitem'], ast.Attribute) and kw['setitem'].attr == '__setitem__'
            R.ob('C18.b', cf, c, ok, detail='' if ok else 'parse_qsl is not given a plain __setitem__ callback')
            # POST: text is latin1 of the body
            if fq.endswith('POST'):
                a0 = c.args[0] if c.args else None
                okl = isinstance(a0, ast.Call) and dotted(a0.func) == 'touni' and len(a0.args) == 2 and is_const(a0.args[1], 'latin1')
                R.ob('C18.d', cf, c, okl, text='forms text = touni(body, latin1)', detail='' if okl else 'the urlencoded body is not decoded as latin1 before scanning')

    check_add(P, R, f)
    check_decode_order(P, R, f, unq)
    check_callers(P, R)


def check_callers(P, R):
    """the accessors that feed the scanner: they raise nothing themselves and parse whatever body / query there is"""
    from ..escape import Escapes
    E = Escapes(P)
    q = P.func('ombott.request_pkg.body_mixin:BodyMixin.query')
    for (cname, origin) in sorted(E.escapes(q)):
        where = origin.rpartition(' @')[0].split(' ', 1)[-1]
        R.ob('C18.b', q, None, False, text=f'Request.query may raise {cname} ({where})', detail=
             f'{cname} from `{where}` can leave Request.query: parsing some raw query string raises instead of terminating normally',
             why='parsing any string whatsoever terminates without raising', key_extra=f'{cname}:{where}')
    R.ob('C18.b', q, q.node, True, text='escape analysis of Request.query', nontrivial=True)
    # POST: the urlencoded branch is entered for every body that is neither multipart nor JSON - whatever the framing
    po = P.func('ombott.request_pkg.body_mixin:BodyMixin.POST')
    g = po.cfg
    for c in [x for x in walk_shallow(po.node) if isinstance(x, ast.Call) and dotted(x.func) == 'parse_qsl']:
        cn = g.node_of_stmt(c)[0]
        bad = []
        for n in g.nodes:
            if n.kind == 'test' and (g.edge_dominates(n, 'true', cn) or g.edge_dominates(n, 'false', cn)):
                extra = [x for x in ast.walk(n.ast) if isinstance(x, ast.Attribute) and x.attr in ('content_length', 'chunked', 'method')]
                extra += [x for x in ast.walk(n.ast) if isinstance(x, ast.Constant) and x.value in ('CONTENT_LENGTH', 'REQUEST_METHOD', 'HTTP_TRANSFER_ENCODING')]
                if extra:
                    bad.append(n)
        R.ob('C18.b', po, c, not bad, text='urlencoded bodies are parsed whatever the framing / declared length', detail='' if not bad else
             f'the urlencoded branch is guarded by `{short(bad[0].ast)}`: content_length is -1 without a Content-Length header (chunked transfer), so a chunked '
             f'urlencoded body is never parsed and the form comes back empty',
             why='URL-encoding pairs as an urlencoded body and parsing yields the same pairs', key_extra='framing-guard')


def check_total(P, R, f, unq, seen, depth=0):
    if f.fq in seen or depth > 3:
        return
    seen.add(f.fq)
    local_funcs = {x.name: x for x in P.all_funcs() if x.parent is f}
    params = set(f.params)
    for c in ast.walk(f.node):
        if not isinstance(c, ast.Call):
            continue
        d = dotted(c.func)
        ok, det = True, ''
        if isinstance(c.func, ast.Name):
            nm = c.func.id
            if nm in TOTAL_CALLS or nm in unq:
                if nm in unq and any(k.arg == 'errors' and const(k.value) == 'strict' for k in c.keywords):
                    ok, det = False, "unquote(errors='strict') raises UnicodeDecodeError on a stray escape"
            elif nm in local_funcs or nm in ('add', 'append', 'setitem'):
                pass
            elif (T.resolved_callee(f, c) or '').split('.')[-1] in TOTAL_ATTRS and T.resolved_callee(f, c) != nm:
                pass   # local alias of a total method (e.g. `_append = container.append`)
            elif nm in params:
                pass
            else:
                r = P.resolve_name(f.module, nm)
                if r and r[0] == 'func':
                    check_total(P, R, r[1], unq, seen, depth + 1)
                else:
                    ok, det = False, f'call of `{nm}` is not in the catalogue of total operations'
        elif isinstance(c.func, ast.Attribute):
            if c.func.attr not in TOTAL_ATTRS:
                ok, det = False, f'method `{c.func.attr}` is not in the catalogue of total operations'
        R.ob('C18.b', f, c, ok, detail=det, why='parsing any string whatsoever must not raise')
    for n in ast.walk(f.node):
        if isinstance(n, (ast.Raise, ast.Assert)):
            R.ob('C18.b', f, n, False, detail='explicit raise/assert in the scanner')
        if isinstance(n, ast.Subscript) and isinstance(n.ctx, ast.Load) and not isinstance(n.slice, ast.Slice):
            # indexing: only of dicts after a membership test / lists; flag string indexing by computed index
            v = dotted(n.value) or ''
            ok = v.startswith('_') or v in ('container',)
            R.ob('C18.b', f, n, ok, detail='' if ok else f'index load `{short(n)}` may raise IndexError/KeyError', nontrivial=False)


def check_add(P, R, f):
    adds = [x for x in P.all_funcs() if x.parent is f and x.name == 'add' and isinstance(x.node, ast.FunctionDef)]
    R.require(adds, 'parse_qsl.add not found')
    a = adds[0]
    g, rd = a.cfg, a.rd
    k, v = a.params[0], a.params[1]
    # what each dict stores (from the enclosing function + add itself)
    stores = {}
    for n in ast.walk(f.node):
        if isinstance(n, ast.Assign):
            for t in n.targets:
                if isinstance(t, ast.Subscript) and isinstance(t.value, ast.Name):
                    stores.setdefault(t.value.id, []).append(n.value)
        if isinstance(n, ast.Call) and call_attr(n) == 'setdefault' and isinstance(n.func.value, ast.Name) and len(n.args) == 2:
            stores.setdefault(n.func.value.id, []).append(n.args[1])

    def never_empty(dname):
        vals = stores.get(dname, [])
        return bool(vals) and all(isinstance(x, (ast.List, ast.Tuple)) and len(x.elts) >= 1 for x in vals)

    # tests in add
    for n in g.nodes:
        if n.kind != 'test':
            continue
        t, neg = strip_not(n.ast)
        if isinstance(t, ast.Name):
            defs = rd.at(n, t.id)
            for d in defs:
                if d.value is not None and isinstance(d.value, ast.Call) and call_attr(d.value) == 'get' and isinstance(d.value.func.value, ast.Name):
                    dn = d.value.func.value.id
                    ok = never_empty(dn)
                    R.ob('C18.c', a, n.ast, ok, text=f'if {short(n.ast)}  [{t.id} = {short(d.value)}]', detail='' if ok else
                         f'"seen before" is decided by the truthiness of a value stored in `{dn}`, which may be the empty string: '
                         f'a repeated key whose first value is empty loses its later values',
                         why='repeated keys are collected as lists in submission order')
        else:
            cp = compare_parts(t)
            if cp and cp[1] in (ast.In, ast.NotIn) and isinstance(cp[2], ast.Name):
                R.ob('C18.c', a, n.ast, True, text=f'if {short(n.ast)} [membership]')
    # promotion: a list literal [first, new] where first comes from the seen-store and new is the parameter, stored once via setitem
    lists = [x for x in ast.walk(a.node) if isinstance(x, ast.List) and len(x.elts) == 2]
    ok = False
    for L in lists:
        e0, e1 = L.elts
        first_from_seen = isinstance(e0, ast.Subscript) and isinstance(e0.value, ast.Name) and src(e0.slice) == k or \
            (isinstance(e0, ast.Name) and any(d.value is not None and isinstance(d.value, (ast.Subscript, ast.Call)) for d in rd.at(g.node_of_stmt(L)[0], e0.id)))
        ok = ok or (first_from_seen and isinstance(e1, ast.Name) and e1.id == v)
    R.ob('C18.c', a, lists[0] if lists else a.node, ok, text='second value -> [first, second]', detail='' if ok else
         'the promotion does not build [first value, new value] in that order')
    apps = [c for c in ast.walk(a.node) if isinstance(c, ast.Call) and call_attr(c) == 'append' and len(c.args) == 1
            and isinstance(c.args[0], ast.Name) and c.args[0].id == v]
    ins = [c for c in ast.walk(a.node) if isinstance(c, ast.Call) and call_attr(c) in ('insert', 'sort', 'reverse')]
    R.ob('C18.c', a, apps[0] if apps else a.node, bool(apps) and not ins, text='later values appended', detail='' if (apps and not ins) else
         'later values are not appended at the end of the list')
    # first value stored as scalar via setitem(k, ...)
    sets = [c for c in ast.walk(a.node) if isinstance(c, ast.Call) and isinstance(c.func, ast.Name) and c.func.id == 'setitem']
    ok = len(sets) >= 2 and all(c.args and isinstance(c.args[0], ast.Name) and c.args[0].id == k for c in sets)
    R.ob('C18.c', a, sets[0] if sets else a.node, ok, text='setitem(key, ...) for first value and for the promoted list', detail='' if ok else
         'the container is not updated for the first value and once for the list')


def check_decode_order(P, R, f, unq):
    g, rd = f.cfg, f.rd
    add_calls = [c for c in walk_shallow(f.node) if isinstance(c, ast.Call) and isinstance(c.func, ast.Name) and c.func.id == 'add'
                 and len(c.args) == 2]
    R.require(add_calls, 'parse_qsl never calls add(key, value)')

    def is_plus_replace(x):
        return isinstance(x, ast.Call) and call_attr(x) == 'replace' and len(x.args) == 2 and is_const(x.args[0], '+') and is_const(x.args[1], ' ')

    def decode_shape(P, fn, expr, at, depth=0):
        """returns list of problems for one decoded operand"""
        rdx = fn.rd
        probs = []
        cl = rdx.closure_nodes(expr, at, stop=lambda x: isinstance(x, ast.Call) and isinstance(x.func, ast.Name) and x.func.id in unq)
        # after-unquote part: everything in closure outside unquote args
        if any(is_plus_replace(x) for x in cl):
            probs.append('"+" is replaced by a space after percent-decoding: a literal plus sent as %2B becomes a space')
        uq = [x for x in cl if isinstance(x, ast.Call) and isinstance(x.func, ast.Name) and x.func.id in unq]
        helper_calls = [x for x in cl if isinstance(x, ast.Call) and isinstance(x.func, ast.Name)
                        and (P.resolve_name(fn.module, x.func.id) or (None,))[0] == 'func' and x.func.id not in unq]
        for u in uq:
            inner = ast.walk(u.args[0]) if u.args else []
            innercl = rdx.closure_nodes(u.args[0], at) if u.args else []
            plus_itself = fn.module.imports.get(u.func.id) == 'urllib.parse:unquote_plus'     # unquote_plus turns "+" into a space first
            if not plus_itself and not any(is_plus_replace(x) for x in innercl):
                probs.append('the text handed to unquote() has not had "+" turned into a space')
        for h in helper_calls:
            if depth < 2:
                hf = P.resolve_name(fn.module, h.func.id)[1]
                for r in [n for n in walk_shallow(hf.node) if isinstance(n, ast.Return) and n.value is not None]:
                    probs += decode_shape(P, hf, r.value, hf.cfg.node_of_stmt(r)[0], depth + 1)
        if not uq and not helper_calls:
            probs.append('value is not percent-decoded')
        return probs

    # a lookup table local to the parser (memo of decoded names/values) must be keyed by one kind of text only
    tables = {d.name for n in g.nodes for d in rd.gen.get(n, []) if d.kind == 'assign' and d.value is not None and
              ((isinstance(d.value, ast.Dict) and not d.value.keys) or (isinstance(d.value, ast.Call) and dotted(d.value.func) in ('dict', 'OrderedDict') and not d.value.args))}
    for tb in sorted(tables):
        keys = []
        for x in walk_shallow(f.node):
            if isinstance(x, ast.Call) and isinstance(x.func, ast.Attribute) and isinstance(x.func.value, ast.Name) and x.func.value.id == tb \
                    and x.func.attr in ('get', 'setdefault', 'pop') and x.args:
                keys.append((x, x.args[0]))
            elif isinstance(x, ast.Subscript) and isinstance(x.value, ast.Name) and x.value.id == tb:
                keys.append((x, x.slice))
        kinds = {}
        for (x, k) in keys:
            xn = g.node_of_stmt(x)
            if not xn:
                continue
            decoded = any(isinstance(y, ast.Call) and isinstance(y.func, ast.Name) and y.func.id in unq for y in rd.closure_nodes(k, xn[0], follow_mut=False))
            kinds.setdefault('decoded' if decoded else 'raw', []).append(x)
        if len(keys) >= 2:
            ok = len(kinds) == 1
            R.ob('C18.d', f, (kinds.get('decoded') or [keys[0][0]])[0], ok, text=f'lookup table `{tb}` is keyed by one kind of text', detail='' if ok else
                 f'`{tb}` is keyed both by raw (still encoded) and by decoded text: decoding is not idempotent, so a decoded name that spells an escape or a "+" '
                 f'is taken for the raw form of another name (a%2Bb=1&a+b=2 merges two different keys)',
                 why="'+' and percent-escapes decode to what was sent", key_extra=f'table:{tb}')
    for c in add_calls:
        cn = g.node_of_stmt(c)[0]
        for role, arg in (('key', c.args[0]), ('value', c.args[1])):
            defs = rd.at(cn, arg.id) if isinstance(arg, ast.Name) else []
            exprs = [d.value for d in defs if d.value is not None] if defs else [arg]
            probs = []
            for e, d in zip(exprs, defs or [None]):
                if isinstance(e, ast.Constant) and e.value == '':
                    continue
                probs += decode_shape(P, f, e, d.node if d is not None else cn)
            R.ob('C18.d', f, c, not probs, text=f'{role} of add(): "+" -> space, then percent-decoding', detail='; '.join(sorted(set(probs))),
                 why="'+' and percent-escapes decode to what was sent", key_extra=role)
