"""C04 - Content-Length bodies arrive byte-exact under any read fragmentation."""
import ast

from ..astutil import (walk_shallow, dotted, call_attr, short, src, stmt_of, names_loaded, is_const, enclosing)
from ..loader import AnalysisError
from .. import rules as T

ID = 'C04'
DECIDED = ('(a) every read in the Content-Length loop requests min(remaining, buffer) (or the remaining counter) computed in '
           'that iteration, under a loop condition remaining > 0; (b) the counter is lowered by len() of the bytes just '
           'received, exactly once per delivered part (sibling cross-check with the chunk-payload loop and the file range '
           'loop); (c) an empty read leaves the loop before anything is yielded; (d) _body_read writes every part once, in '
           'order, as the first action on it, copies the memory buffer when it switches to a temporary file and performs no '
           'other mutation of the buffer; (e) the buffered copy replaces wsgi.input, is cached in environ and rewound on '
           'every access. With read(n) returning at most n bytes these premises give the loop invariant "buffer == first '
           '(CL - remaining) bytes of the stream", hence the statement.')
DECIDED_MORE = ('Also: no non-empty part is dropped (yielded before the next read/exit, or kept in an accumulator the end-of-stream exit can flush); nobody closes the cached body; one write(part) per non-raising pass.')
DECIDED = DECIDED + ' ' + DECIDED_MORE
DECIDED_R6 = ('Round 6: early-stop bound of the read loop; an empty CONTENT_LENGTH is a missing one; the cached body comes from _body_read() on every path, is rewound and is touched through file API only; the one-shot spill flag is found by role.')
DECIDED = DECIDED + ' ' + DECIDED_R6
DECIDED_R7 = ('Round 7: request.copy() keeps the memo of the buffered body; nobody closes the cached body, also through its memo key.')
DECIDED = DECIDED + ' ' + DECIDED_R7
DECIDED_R8 = ('Round 8: the part reader is started once (no start can follow another) and its block size is the buffer size parameter.')
DECIDED = DECIDED + ' ' + DECIDED_R8
DECIDED_R9 = ('Round 9: the memo of the buffered body is dropped when `wsgi.input` is replaced through the request (e); one reader call per arm of a conditional expression is one start (d).')
DECIDED = DECIDED + ' ' + DECIDED_R9
NOT_DECIDED = 'nothing of the statement beyond the stated assumptions (PEP 3333 read contract; BytesIO/TemporaryFile semantics).'
ASSUMPTIONS = ['wsgi.input.read(n) returns at most n bytes (PEP 3333)',
               'io.BytesIO / tempfile.TemporaryFile write/getvalue/seek behave as documented']

BM = 'ombott.request_pkg.body_mixin'


def read_param_calls(f):
    """calls of the function's stream-read parameter: a parameter that is called with one positional arg"""
    params = set(f.params)
    out = []
    for c in walk_shallow(f.node):
        if isinstance(c, ast.Call) and isinstance(c.func, ast.Name) and c.func.id in params:
            out.append(c)
    return out


def check_bounded_read_loop(R, f, rid_prefix, loop, counter, buff_names, require_buffer_bound=False,
                            eof_must='leave'):
    """Clauses a/b/c on one `while counter > 0` loop that reads from a parameter callable.
    eof_must: 'leave' (generator must not read again) or 'raise' (must reach only raise)."""
    g = f.cfg
    rd = f.rd
    head = T.loop_head(g, loop)
    # `counter` is the name of the remaining-length counter (count-down), or ('up', limit, received) for `while limit > received`
    up = isinstance(counter, tuple)
    if up:
        _, limit, counter = counter

    def is_remaining(e):
        # the expression that stands for the remaining length
        if not up:
            return isinstance(e, ast.Name) and e.id == counter
        return isinstance(e, ast.BinOp) and isinstance(e.op, ast.Sub) and isinstance(e.left, ast.Name) and e.left.id == limit \
            and isinstance(e.right, ast.Name) and e.right.id == counter
    reads = [c for c in read_param_calls(f) if T.in_body_of(c, loop) and T.loops_of(c)[0] is loop]
    R.require(reads, f'{f.fq}: no stream read inside the `while {counter} > 0` loop')
    for c in reads:
        cn = g.node_of_stmt(c)[0]
        arg = c.args[0] if c.args else None
        # --- a: request bounded by the remaining counter as of this iteration
        ok = False
        detail = ''
        if arg is not None:
            cl = rd.closure(arg, cn, stop=lambda x: isinstance(x, ast.Name) and x.id == counter)
            mins = [x for (x, _) in cl if isinstance(x, ast.Call) and isinstance(x.func, ast.Name) and x.func.id == 'min']
            direct = is_remaining(arg)
            uses_counter = False
            fresh = True
            for m in mins:
                for a in m.args:
                    if (counter in names_loaded(a)) if not up else is_remaining(T.expand(f, a, cn, keep=(counter, limit))):
                        uses_counter = True
                        # the min() must be evaluated inside this loop (per iteration), not hoisted
                        if not T.in_body_of(m, loop):
                            fresh = False
            has_buf = any(any(b in names_loaded(a) for b in buff_names) for m in mins for a in m.args)
            if direct:
                ok = True
            elif uses_counter and fresh:
                ok = True
            if not ok:
                if uses_counter and not fresh:
                    detail = (f'min({counter}, ...) is computed outside the loop: later iterations request a stale size '
                              f'and can read past the remaining length')
                else:
                    detail = f'requested size does not derive from min({counter}, ...) / {counter}'
            elif require_buffer_bound and not (mins and has_buf):
                ok = False
                detail = 'requested size is not bounded by the buffer size'
        else:
            detail = 'read() without a size'
        R.ob(rid_prefix + 'a', f, c, ok, detail=detail,
             why='a request larger than the remaining length reads bytes beyond the declared body')
        # --- b: accounting by received length
        var = T.assigned_name_of_call(c)
        decs = T.decrements_of(loop, counter) if not up else T.increments_of(loop, counter)
        if not decs:
            R.ob(rid_prefix + 'b', f, loop.test, False, text=f'while {src(loop.test)}',
                 detail=f'{counter} is never lowered in the loop',
                 why='the loop would request the full length again after every part')
        for (st, amount) in decs:
            good = amount is not None and var is not None and T.is_len_of(amount, var)
            if good:
                # the len() must be of the part read in this iteration: same reaching definition
                sn = g.node_of_stmt(st)[0]
                defs = rd.at(sn, var)
                good = all(d.value is c for d in defs) and bool(defs)
            R.ob(rid_prefix + 'b', f, st, good,
                 detail='' if good else f'{counter} must be lowered by len({var}) of the bytes just received, '
                                        f'got `{short(amount) if amount is not None else short(st)}`',
                 why='a short read (fewer bytes than requested) makes the loop stop early or misplace framing')
        # exactly one decrement on every path from the read to the loop head
        if decs:
            dec_nodes = [g.node_of_stmt(st)[0] for (st, _) in decs]
            ys = T.yield_nodes(g, within=loop.body)
            for y in ys:
                okp = g.must_pass(y, head, dec_nodes)
                R.ob(rid_prefix + 'b', f, y.ast, okp, text=f'{short(y.ast)} -> loop head',
                     detail='' if okp else f'a path from the yield back to the loop head skips the decrement of {counter}',
                     key_extra='decrement-on-every-path')
        # --- c: EOF handling
        if var is None:
            R.undecided(rid_prefix + 'c', f, c, f'{short(c)}: end-of-stream handling', 'the result of read() is not bound to a name; no recogniser for this form')
            continue
        tests = [(n, lab) for (n, lab) in T.falsy_tests(g, var, within=loop.body)]
        ys = T.yield_nodes(g, within=loop.body)
        if not tests:
            R.ob(rid_prefix + 'c', f, c, False, detail=f'no emptiness test of `{var}` after the read',
                 why='at end of stream read() returns b"" for ever: the loop never ends (or a truncated body is accepted)')
            continue
        for (tn, lab) in tests:
            empty_succ = T.succ_by_label(tn, lab)
            reach = g.reachable_from(empty_succ) if empty_succ else set()
            if eof_must == 'leave':
                bad = [n for n in reach if n is cn or n in ys]
                if bad and empty_succ:
                    # the loop may be left through a flag (`exhausted = True` ... `while remaining > 0 and not exhausted`): follow the flag
                    from ..paths import Explorer
                    feas = {n_ for (n_, _s) in Explorer(f).walk(empty_succ)}
                    bad = [n for n in bad if n in feas]
                okc = not bad
                det = '' if okc else 'after an empty read the generator can yield or read again'
            else:
                # behind the loop, a test of the remaining counter is decided: inside the body the loop condition holds (counter > 0) and the
                # counter has not been lowered between the loop head and this test, nor between the empty read and the later test
                decn = [g.node_of_stmt(st_)[0] for (st_, _a) in decs] if decs else []
                fresh_here = not up and all(not g.can_reach(head, d_, avoid_nodes=[tn]) for d_ in decn)
                decided = []
                if fresh_here:
                    for t2 in g.nodes:
                        if t2.kind != 'test' or t2.ast is None or T._inside(t2.ast, loop.body) or t2 is head:
                            continue
                        tt, neg2 = T.strip_not(t2.ast)
                        cp2 = T.compare_parts(tt) if hasattr(T, 'compare_parts') else None
                        pos = (isinstance(tt, ast.Name) and tt.id == counter) or \
                            (cp2 and isinstance(cp2[0], ast.Name) and cp2[0].id == counter and is_const(cp2[2], 0) and cp2[1] in (ast.Gt, ast.NotEq))
                        before_t2 = g.reachable_from(empty_succ, avoid_nodes=[t2]) if empty_succ else set()
                        unchanged = not any(d_.name == counter for n_ in before_t2 for d_ in rd.gen.get(n_, []))
                        if pos and unchanged:
                            decided.append((t2, 'true' if neg2 else 'false'))     # the edge that cannot be taken
                if decided:
                    reach = g.reachable_from(empty_succ, avoid_edges=set(decided))
                okc = g.exit not in reach and not any(n in ys for n in reach) and cn not in reach
                det = '' if okc else 'after an empty read the decoder can finish normally, yield or read again instead of raising'
            R.ob(rid_prefix + 'c', f, tn.ast, okc, text=f'if {short(tn.ast)} [{lab}-edge = empty read]', detail=det,
                 why='a stream that ends early must end the body (Content-Length) / be rejected (chunked)')
        # the loop is left only by its condition or on an empty read (a *short* read is not the end of the stream)
        for b in [n for n in g.nodes if n.kind == 'stmt' and isinstance(n.ast, (ast.Break, ast.Return)) and T._inside(n.ast, loop.body)
                  and T.loops_of(n.ast) and T.loops_of(n.ast)[0] is loop]:
            okb = any(g.edge_dominates(tn, lab, b) for (tn, lab) in tests)
            R.ob(rid_prefix + 'c', f, b.ast, okb, text=f'`{short(b.ast)}` leaves the read loop only after an empty read', detail='' if okb else
                 'the read loop is left on a condition other than an empty read (e.g. a read shorter than requested): the rest of the declared '
                 'body stays unread in the stream and the application sees a truncated body',
                 why='the body is byte-exact however the stream fragments its reads, including short reads', key_extra='exit')
        # the yield of the part must be guarded by the non-empty edge
        for y in ys:
            if var in names_loaded(y.ast):
                guarded = any(g.edge_dominates(tn, 'false' if lab == 'true' else 'true', y) for (tn, lab) in tests)
                R.ob(rid_prefix + 'c', f, y.ast, guarded, detail='' if guarded else 'part is yielded without passing the emptiness test',
                     key_extra='yield-guarded')


def check_no_part_dropped(R, f, rid):
    """Every non-empty part received from the stream reaches a yield: directly, or through an accumulator that an end-of-stream exit can flush.
    Shape independent (any nesting of loops)."""
    g, rd = f.cfg, f.rd
    ys = T.yield_nodes(g)
    for c in read_param_calls(f):
        var = T.assigned_name_of_call(c)
        if var is None:
            continue
        cn = g.node_of_stmt(c)[0]
        tests = [(n, lab) for (n, lab) in T.falsy_tests(g, var) if any(d.value is c for d in rd.at(n, var))]
        if not tests:
            continue
        dep = [y for y in ys if any(isinstance(x, ast.Call) and x is c for x in rd.closure_nodes(
            [v for v in walk_shallow(y.ast) if isinstance(v, (ast.Yield, ast.YieldFrom))][0], y))]
        for (tn, lab) in tests:
            nonempty = T.succ_by_label(tn, 'false' if lab == 'true' else 'true')
            starts = [n for n in nonempty if n not in dep]
            reach = g.reachable_from(starts, avoid_nodes=dep) if starts else set()
            direct = g.exit not in reach and cn not in reach
            if direct and dep:
                R.ob(rid, f, tn.ast, True, text=f'a non-empty `{var}` is yielded before the next read / the end', key_extra='no-drop')
                continue
            # accumulated: the end-of-stream exit must be able to hand on what was collected
            empty = T.succ_by_label(tn, lab)
            flush = g.reachable_from(empty) if empty else set()
            ok = bool(dep) and any(y in flush for y in dep)
            R.ob(rid, f, tn.ast, ok, text=f'parts collected from `{short(c)}` are handed on when the stream ends', detail='' if ok else
                 f'a non-empty `{var}` is kept for later and the end-of-stream exit (`{short(tn.ast)}`) leaves without yielding what was collected: '
                 f'when the stream ends before Content-Length the bytes of the last, partly filled block are lost',
                 why='the body is the first Content-Length bytes of the stream, or all of it if the stream ends early', key_extra='no-drop')


def check_reader_premise(P, R, rid, why):
    """The Content-Length reader hands on every byte of the declared body whatever the stream's read fragmentation (clauses a/b/c of C04 on
    `_iter_body`), reported under another property's rule id: properties about what is parsed from the body borrow this premise."""
    from ..report import Sub
    f = P.func(f'{BM}:_iter_body')
    S = Sub(R, prefix_map={'C04.': rid}, why=why)
    loops = [n for n in walk_shallow(f.node) if isinstance(n, ast.While)]
    loops = [l for l in loops if any(T.in_body_of(c, l) for c in read_param_calls(f))]
    check_no_part_dropped(S, f, 'C04.c')
    for loop in loops:
        counter = T.counter_of_while(loop)
        cu = T.countup_of_while(loop) if counter is None else None
        es = T.early_stop_bound(loop) if counter is None else None
        if es is not None:
            S.ob('C04.a', f, loop.test, False, text=f'while {src(loop.test)}', detail=
                 f'the read loop gives up while {es[1]} byte(s) of the declared length are still outstanding: the body loses its last byte(s) whenever the remainder '
                 f'at a loop head is exactly {es[1]}', key_extra='early-stop')
        elif cu is not None:
            check_bounded_read_loop(S, f, 'C04.', loop, ('up', cu[0], cu[1]), buff_names={'buff_size'})
        elif counter is not None:
            check_bounded_read_loop(S, f, 'C04.', loop, counter, buff_names={'buff_size'})


def check(P, R):
    R.rule('C04.a', 'bounded request: read(min(remaining, buffer)) under remaining > 0', floor=1)
    R.rule('C04.b', 'received-length accounting, siblings agree', floor=3)
    R.rule('C04.c', 'empty read leaves the loop before a yield', floor=2)
    R.rule('C04.d', 'in-order accumulation and faithful spill in _body_read', floor=5)
    R.rule('C04.e', 'buffered copy cached, rewound, substituted for wsgi.input', floor=5)

    f = P.func(f'{BM}:_iter_body')
    loops = [n for n in walk_shallow(f.node) if isinstance(n, ast.While)]
    loops = [l for l in loops if any(T.in_body_of(c, l) for c in read_param_calls(f))]
    R.require(len(loops) >= 1, f'{f.fq}: no while-loop that reads the stream')
    check_no_part_dropped(R, f, 'C04.c')
    for loop in loops:
        counter = T.counter_of_while(loop)
        cu = T.countup_of_while(loop) if counter is None else None
        if cu is not None:
            # count-up formulation: `received = 0; while content_length > received: ... received += len(part)`
            limit, recv = cu
            hn = T.loop_head(f.cfg, loop)
            rdefs = [d for d in f.rd.at(hn, recv) if d.kind != 'aug']
            init_ok = limit == 'content_length' and all(d.kind == 'param' for d in f.rd.at(hn, limit)) and bool(rdefs) and \
                all(d.kind == 'assign' and is_const(d.value, 0) for d in rdefs)
            R.ob('C04.a', f, loop.test, init_ok, text=f'{recv} starts at 0, bounded by content_length',
                 detail='' if init_ok else f'the loop is not `while content_length > {recv}` with {recv} starting at 0')
            check_bounded_read_loop(R, f, 'C04.', loop, ('up', limit, recv), buff_names={'buff_size'})
            continue
        es = T.early_stop_bound(loop) if counter is None else None
        if es is not None:
            R.ob('C04.a', f, loop.test, False, text=f'while {src(loop.test)}', detail=
                 f'the read loop gives up while {es[1]} byte(s) of the declared length are still outstanding: a body whose remainder at a loop head is exactly '
                 f'{es[1]} (Content-Length {es[1]}; k * buffer + {es[1]} with full reads; buffer size {es[1]}) loses its last byte(s)',
                 why='the body is the first Content-Length bytes of the stream', key_extra='early-stop')
            continue
        if counter is None and not T.weak_loop_bound(loop):
            R.undecided('C04.a', f, loop.test, f'while {src(loop.test)}', 'the bound of the read loop is not in a form with a recogniser (expected `remaining > 0`)')
            continue
        if counter is None:
            R.ob('C04.a', f, loop.test, False, text=f'while {src(loop.test)}',
                 detail='the read loop is not conditioned on `remaining > 0`: a negative remainder (Content-Length absent: -1) is truthy / non-zero, '
                        'so the loop runs and read(-1) drains the whole stream',
                 why='the stream is never read beyond Content-Length; without a Content-Length the body is empty')
            continue
        # the counter starts as the content_length parameter
        hn = T.loop_head(f.cfg, loop)
        defs = [d for d in f.rd.at(hn, counter) if d.kind != 'aug']
        init_ok = any(d.kind == 'param' and d.name == 'content_length' or
                      (d.value is not None and 'content_length' in names_loaded(d.value) and
                       isinstance(d.value, ast.Name)) for d in defs)
        R.ob('C04.a', f, loop.test, init_ok, text=f'{counter} initialised from content_length',
             detail='' if init_ok else f'{counter} does not start as the content_length argument: ' + ', '.join(map(repr, defs)))
        check_bounded_read_loop(R, f, 'C04.', loop, counter, buff_names={'buff_size'})

    # sibling cross-check (Engler-style): every `part = read(n) ... counter -= X` loop in the package
    sib = []
    for fq in (f'{BM}:_iter_body', f'{BM}:_iter_chunked', 'ombott.static_stream:_file_iter_range'):
        sf = P.func(fq)
        for loop in [n for n in walk_shallow(sf.node) if isinstance(n, ast.While)]:
            counter = T.counter_of_while(loop)
            if counter is None and T.countup_of_while(loop) is not None:
                for (st, amount) in T.increments_of(loop, T.countup_of_while(loop)[1]):
                    kind = 'len(received)' if (amount is not None and isinstance(amount, ast.Call)
                                               and isinstance(amount.func, ast.Name) and amount.func.id == 'len') else 'other'
                    sib.append((sf, st, kind))
                continue
            if counter is None:
                continue
            for (st, amount) in T.decrements_of(loop, counter):
                kind = 'len(received)' if (amount is not None and isinstance(amount, ast.Call)
                                           and isinstance(amount.func, ast.Name) and amount.func.id == 'len') else 'other'
                sib.append((sf, st, kind))
    if len(sib) < 3:
        # the siblings are a reference, not an obligation of this property: a sibling rewritten beyond recognition only weakens the comparison
        R.note(f'sibling read loops: {len(sib)} decrement sites recognised (3 on the pinned tree); the cross-check uses what is there')
    if not any(o['verdict'] == 'violated' for o in R.obligations) and not R.pending:
        R.require(any(sf is f for (sf, _, _) in sib), f'{f.fq}: no decrement of the remaining length found in the read loop')
    majority = sum(1 for x in sib if x[2] == 'len(received)')
    for (sf, st, kind) in sib:
        if sf is not f:
            continue   # deviations of the other siblings belong to their own properties (C05, C17); they serve as reference here
        R.ob('C04.b', sf, st, kind == 'len(received)', detail='' if kind == 'len(received)' else
             f'{majority} of {len(sib)} sibling read loops lower the counter by len(<received part>); this one does not', key_extra='sibling')

    check_body_read(P, R)
    check_body_props(P, R)


def check_body_read(P, R):
    f = P.func(f'{BM}:_body_read')
    g, rd = f.cfg, f.rd
    # the reader is started once, with the buffer size it was given: a second reader starts counting Content-Length from zero again and reads past the body; a
    # block size that can be 0 makes read(0) return b'' - which the reader takes for the end of the stream
    starts = []
    for c in walk_shallow(f.node):
        if isinstance(c, ast.Call) and c.args and isinstance(c.args[0], ast.Name) and c.args[0].id == f.params[0] and isinstance(c.func, (ast.Name, ast.Attribute)):
            ns_ = g.node_of_stmt(c)
            cl_ = rd.closure_nodes(c.func, ns_[0]) if ns_ else []
            if any(isinstance(x, ast.Name) and x.id in ('_iter_body', '_iter_chunked') for x in cl_) or dotted(c.func) in ('_iter_body', '_iter_chunked'):
                starts.append(c)
    if starts:
        # (one call per branch of an if / else is one start: what counts is a start that can follow another, or itself)
        sn_ = [g.node_of_stmt(c)[0] for c in starts]
        def _again(n_):
            # the node can be executed a second time (the iterable of a `for` is evaluated once although its node heads the loop)
            if n_.kind == 'for':
                return bool(T.loops_of(n_.ast))
            return any(m is n_ for s_ in [x for (x, lab) in n_.succ if lab != 'exc'] for m in g.reachable_from([s_]))
        def _exclusive(a_, b_):
            # the two calls are the two arms of one conditional expression: only one of them is evaluated
            p_ = getattr(a_, '_p', None)
            while p_ is not None and not isinstance(p_, ast.stmt):
                if isinstance(p_, ast.IfExp):
                    in_body = lambda c_: any(c_ is x_ for x_ in ast.walk(p_.body))
                    in_else = lambda c_: any(c_ is x_ for x_ in ast.walk(p_.orelse))
                    if (in_body(a_) and in_else(b_)) or (in_else(a_) and in_body(b_)):
                        return True
                p_ = getattr(p_, '_p', None)
            return False
        second = [starts[j] for i in range(len(starts)) for j in range(len(starts))
                  if (i != j and not _exclusive(starts[i], starts[j]) and (g.can_reach(sn_[i], sn_[j]) if sn_[i] is not sn_[j] else True)) or (i == j and _again(sn_[i]))]
        once = not second
        R.ob('C04.d', f, second[0] if second else starts[0], once, text=f'the part reader is started once ({len(starts)} call site(s), none follows another)', detail='' if once else
             f'`{short(second[0])}` starts a second reader on the same stream: it counts the declared length from zero again, so after the bytes already consumed another '
             f'Content-Length bytes are pulled - the stream is read beyond the body (the next request on the connection is eaten)',
             why='the stream is never read beyond Content-Length', key_extra='reader-once')
        for c in starts:
            a1 = c.args[1] if len(c.args) > 1 else None
            ns_ = g.node_of_stmt(c)
            okb = isinstance(a1, ast.Name) and a1.id == f.params[1] and all(d.kind == 'param' for d in rd.at(ns_[0], a1.id))
            R.ob('C04.d', f, c, okb, text=f'{short(c)}: block size = the configured buffer size', detail='' if okb else
                 f'the reader is given `{short(a1) if a1 is not None else "?"}` as its block size, not the buffer size itself: where that can be 0 (a limit of 0) read(0) returns '
                 f"b'' and the reader stops as if the stream had ended - the body is presented empty instead of being read (or refused)",
                 why='the body presented is exactly the first Content-Length bytes, whatever limits are configured', key_extra='block-size')
    fors = [n for n in walk_shallow(f.node) if isinstance(n, ast.For)]
    R.require(len(fors) == 1, f'{f.fq}: expected exactly one part loop, found {len(fors)}')
    loop = fors[0]
    R.require(isinstance(loop.target, ast.Name), f'{f.fq}: loop target is not a simple name')
    part = loop.target.id
    head = T.loop_head(g, loop)
    # the iterated object is body_iter(read, buff_size) with body_iter one of the two readers
    it = loop.iter
    itn = g.nodes_for(loop)[0]
    cl = [x for (x, _) in rd.closure(it, itn)]
    reader_names = {n.id for n in cl if isinstance(n, ast.Name)} | {dotted(n) for n in cl if isinstance(n, ast.Attribute)}
    ok = '_iter_body' in reader_names and '_iter_chunked' in reader_names
    R.ob('C04.d', f, loop, ok, text=f'for {part} in {short(it)}',
         detail='' if ok else 'the part source does not derive from _iter_body / _iter_chunked')
    # content_length is forwarded to _iter_body
    kw_ok = any(isinstance(x, ast.keyword) and x.arg == 'content_length' and isinstance(x.value, ast.Name)
                and x.value.id == 'content_length' for x in cl) or \
        any(isinstance(x, ast.Call) and any(k.arg == 'content_length' and isinstance(k.value, ast.Name) and k.value.id == 'content_length'
                                            for k in x.keywords) for x in cl)
    R.ob('C04.d', f, loop, kw_ok, text='content_length forwarded to the bounded reader',
         detail='' if kw_ok else 'the Content-Length reader is not given content_length=content_length')

    # the stream callable is only handed to the part iterators, never called here
    direct = [c for c in read_param_calls(f) if c.func.id == f.params[0]]
    for c in direct:
        R.ob('C04.d', f, c, False, detail=
             f'_body_read calls the stream itself (`{short(c)}`): a single read(n) may return fewer than n bytes, so the body is truncated to the '
             f'first fragment whenever the stream does a short read; only the bounded loops of _iter_body / _iter_chunked may read',
             why='the body is byte-exact under any read fragmentation')
    # the part loop runs until the reader is exhausted: leaving it early presents a truncated body as complete
    for n_ in g.nodes:
        if n_.kind == 'stmt' and isinstance(n_.ast, (ast.Break, ast.Return)) and T._inside(n_.ast, loop.body) and T.loops_of(n_.ast) \
                and T.loops_of(n_.ast)[0] is loop:
            R.ob('C04.d', f, n_.ast, False, text=f'`{short(n_.ast)}` inside the part loop', detail=
                 f'the accumulation loop is left by `{short(n_.ast)}` before the reader is exhausted: the bytes not yet read are missing from the body the '
                 f'application sees (and stay in the stream)', why='the body equals the first Content-Length bytes of the stream', key_extra='early-exit')
    # name of the buffer: the object the parts are written to
    wr = [c for st in loop.body for c in walk_shallow(st) if isinstance(c, ast.Call) and call_attr(c) == 'write' and c.args
          and isinstance(c.args[0], ast.Name) and c.args[0].id == part and isinstance(c.func.value, ast.Name)]
    R.require(wr, f'{f.fq}: no <buffer>.write({part}) in the part loop')
    body = wr[0].func.value.id
    rets = [n for n in walk_shallow(f.node) if isinstance(n, ast.Return)]
    for r in rets:
        okr = isinstance(r.value, ast.Name) and r.value.id == body
        R.ob('C04.d', f, r, okr, detail='' if okr else f'`{short(r)}` does not return the buffer `{body}` accumulated by the part loop',
             why='what is presented to the application is exactly what the bounded loop accumulated', key_extra='returns-buffer')

    # writes to the buffer
    writes = [c for c in walk_shallow(f.node) if isinstance(c, ast.Call) and isinstance(c.func, ast.Attribute)
              and isinstance(c.func.value, ast.Name) and c.func.value.id == body]
    part_writes = []
    copy_writes = []
    for c in writes:
        if c.func.attr == 'write' and len(c.args) == 1:
            a = c.args[0]
            if isinstance(a, ast.Name) and a.id == part:
                part_writes.append(c)
                continue
            acl = rd.closure_nodes(a, g.node_of_stmt(c)[0])
            if any(isinstance(x, ast.Call) and call_attr(x) == 'getvalue' for x in acl):
                copy_writes.append(c)
                continue
            R.ob('C04.d', f, c, False, detail=f'{body}.write() of something that is neither the current part nor the '
                                             f'copy of the memory buffer',
                 why='any other write changes the bytes presented to the application')
        elif c.func.attr in ('getvalue', 'tell', 'read', 'flush', 'close', 'fileno'):
            if c.func.attr in ('read', 'close'):
                R.ob('C04.d', f, c, False, detail=f'{body}.{c.func.attr}() inside the accumulation loop moves/invalidates the buffer')
        else:
            R.ob('C04.d', f, c, False, detail=f'{body}.{c.func.attr}() mutates or repositions the buffer while it is being filled',
                 why='seek/truncate during accumulation overwrite or pad the body (e.g. NUL padding up to Content-Length)')
    # exactly one write of the part per iteration, on every path through the loop body (several sites are fine when the paths are disjoint)
    wnodes = [g.node_of_stmt(c)[0] for c in part_writes]
    first = T.succ_by_label(head, 'iter')
    twice = [(a_, b_) for a_ in wnodes for b_ in wnodes
             if any(m_ is b_ or g.can_reach(m_, b_, avoid_nodes=[head]) for (m_, lab_) in a_.succ if lab_ != 'exc' and m_ is not head)]
    R.ob('C04.d', f, loop, bool(part_writes) and not twice, text=f'{body}.write({part}): {len(part_writes)} site(s), at most one per pass of the loop',
         detail='' if part_writes and not twice else (f'a pass of the loop can write the part twice (`{short(twice[0][0].ast)}` then `{short(twice[0][1].ast)}`)' if twice else
                                                      'the part is never written'),
         why='each part must be written exactly once')
    if part_writes:
        c = part_writes[0]
        ok = bool(first) and all(s_ in wnodes or (g.must_pass(s_, head, wnodes) and g.must_pass(s_, g.exit, wnodes)) for s_ in first)
        # (a path that raises before the write presents no body at all: not this property's concern)
        R.ob('C04.d', f, c, ok, detail='' if ok else f'a path through the loop body skips {body}.write({part})',
             why='a part that is not written is missing from the body')
        # in-order: the receiver at the write is the current buffer (same defs as at loop end) -- checked via spill pairing
    # spill: every rebinding of the buffer inside the loop copies the old content first thing
    rebinds = [d for n in g.nodes for d in rd.gen.get(n, []) if d.name == body and d.node is not g.entry
               and T._inside(d.stmt, loop.body)]
    TMP = ('TemporaryFile', 'NamedTemporaryFile', 'SpooledTemporaryFile')
    for d in rebinds:
        copies = [g.node_of_stmt(c)[0] for c in copy_writes]
        ok = bool(copies) and g.must_pass(d.node, head, copies) and g.must_pass(d.node, g.exit, copies)
        if not ok and isinstance(d.value, ast.Name):
            # copy-then-switch: `new = TemporaryFile(); new.write(<buffer>.getvalue()); <buffer> = new`
            new = d.value.id
            ndefs = rd.at(d.node, new)
            fresh = bool(ndefs) and all(x.kind == 'assign' and isinstance(x.value, ast.Call) and call_attr(x.value) in TMP for x in ndefs)
            pre = []
            for c in walk_shallow(f.node):
                if isinstance(c, ast.Call) and call_attr(c) == 'write' and isinstance(c.func.value, ast.Name) and c.func.value.id == new and len(c.args) == 1:
                    gv = [x for x in ast.walk(T.expand(f, c.args[0], g.node_of_stmt(c)[0], keep=(body,))) if isinstance(x, ast.Call) and call_attr(x) == 'getvalue'
                          and isinstance(x.func.value, ast.Name) and x.func.value.id == body]
                    cn = g.node_of_stmt(c)[0]
                    if gv and g.dominates(cn, d.node) and all(g.dominates(x.node, cn) for x in ndefs) and rd.same_defs(cn, d.node, body):
                        pre.append(c)
            other = [c for c in walk_shallow(f.node) if isinstance(c, ast.Call) and isinstance(c.func, ast.Attribute) and isinstance(c.func.value, ast.Name)
                     and c.func.value.id == new and c not in pre and c.func.attr not in ('getvalue', 'tell', 'flush', 'fileno')]
            ok = fresh and len(pre) == 1 and not other
        R.ob('C04.d', f, d.stmt, ok, detail='' if ok else f'{body} is rebound inside the loop without copying what was '
                                                          f'accumulated so far on every path',
             why='the bytes received before the switch to a temporary file would be lost')
        # the copy must come from the *old* buffer: its getvalue() receiver reaches a definition that held the old body
        for c in copy_writes:
            a = c.args[0]
            gv = [x for x in ast.walk(a) if isinstance(x, ast.Call) and call_attr(x) == 'getvalue']
            okc = False
            for x in gv:
                recv = x.func.value
                if isinstance(recv, ast.Name):
                    for dd in rd.at(g.node_of_stmt(c)[0], recv.id):
                        if dd.value is not None and isinstance(dd.value, ast.Name) and dd.value.id == body:
                            okc = True
                        if dd.value is not None and isinstance(dd.value, ast.Call) and call_attr(dd.value) == 'BytesIO':
                            okc = okc or recv.id != body
            R.ob('C04.d', f, c, okc, detail='' if okc else 'the copied content does not come from the previous buffer object')
    R.ob('C04.d', f, f.node, len(rebinds) >= 1, text='spill to a temporary file present',
         detail='' if rebinds else 'no switch of the buffer to a TemporaryFile found', nontrivial=False)
    # the rebinding happens at most once: guarded by a flag set on the same edge
    for d in rebinds:
        ok = bool(one_shot_flags(f, loop, head, d, body))
        R.ob('C04.d', f, d.stmt, ok, text=f'{short(d.stmt)} [once]', detail='' if ok else
             'the switch to a temporary file is not guarded by a one-shot flag set on the same branch',
             why='re-spilling on every later part copies getvalue() of a file object (AttributeError) or loses data',
             key_extra='once')


def _falsy_const(v):
    return isinstance(v, ast.Constant) and (v.value is False or v.value is None or (type(v.value) is int and v.value == 0))


def one_shot_flags(f, loop, head, d, body, with_armed=False):
    """names of the flags that let the switch `d` happen once: known to be armed where the switch stands, disarmed by a constant on
    every way from the switch back to the loop head, never re-armed in the loop.  `not spilled` / True, `in_memory` / False,
    `mem is not None` / None.  with_armed: (name, predicate telling that a value expression is an armed state) pairs."""
    g, rd = f.cfg, f.rd
    out = []
    for (e_, holds_, tn_) in T.guard_atoms(f, d.node, within=loop):
        fl = disarm = armed = None
        cp_ = T.compare_parts(e_)
        if isinstance(e_, ast.Name):
            fl = e_.id
            if not holds_:
                disarm = lambda v: isinstance(v, ast.Constant) and v.value is True
                armed = _falsy_const
            else:
                disarm = _falsy_const
                armed = lambda v: isinstance(v, ast.Constant) and v.value is True
        elif cp_ and cp_[1] in (ast.Is, ast.IsNot) and is_const(cp_[2], None) and isinstance(cp_[0], ast.Name):
            fl = cp_[0].id
            if (cp_[1] is ast.IsNot) == bool(holds_):
                disarm = lambda v: isinstance(v, ast.Constant) and v.value is None
                armed = lambda v: (isinstance(v, ast.Constant) and v.value is not None) or \
                    (isinstance(v, ast.Call) and isinstance(v.func, (ast.Name, ast.Attribute)) and (dotted(v.func) or '').split('.')[-1][:1].isupper())
        if fl is None or disarm is None or fl == body:
            continue
        in_loop = [(n_, dd) for n_ in g.nodes for dd in rd.gen.get(n_, []) if dd.name == fl and n_.ast is not None and T._inside(n_.ast, loop.body)]
        sets = [n_ for (n_, dd) in in_loop if dd.kind == 'assign' and dd.value is not None and disarm(dd.value)]
        resets = [n_ for (n_, dd) in in_loop if not (dd.kind == 'assign' and dd.value is not None and disarm(dd.value))]
        if sets and not resets and g.must_pass(d.node, head, sets):
            out.append((fl, armed) if with_armed else fl)
    return out


def check_copy_keeps_body_memo(P, R, rid, decs):
    """_body replaces environ['wsgi.input'] by the buffer it filled: a copy of the environ that lacks the memo of that buffer reads `wsgi.input` again -
    the already consumed (or half consumed) buffer, not the server stream"""
    import re as _re
    key = None
    if decs and isinstance(decs[0].args[0], ast.Constant):
        m_ = _re.match(r'environ\[\s*(.+?)\s*\]', str(decs[0].args[0].value))
        key = m_.group(1) if m_ else None
    cp = P.maybe_func('ombott.request_pkg.request:BaseRequest.copy')
    if key is None or cp is None:
        return
    dropped = []
    for c in walk_shallow(cp.node):
        if isinstance(c, ast.Call) and call_attr(c) in ('pop', '__delitem__') and c.args:
            loops = [lp for lp in T.loops_of(c) if isinstance(lp, ast.For) and isinstance(lp.target, ast.Name)]
            envs = [{}]
            if loops:
                try:
                    vals = T.ceval(cp, loops[0].iter)
                    envs = [{loops[0].target.id: v} for v in vals]
                except (T.CannotEval, TypeError):
                    envs = []
            for env in envs:
                try:
                    if T.ceval(cp, c.args[0], env) == key:
                        dropped.append(c)
                except T.CannotEval:
                    pass
        elif isinstance(c, ast.Delete):
            for t in c.targets:
                if isinstance(t, ast.Subscript) and is_const(t.slice, key):
                    dropped.append(c)
        elif isinstance(c, ast.DictComp):
            for gen in c.generators:
                for cond in gen.ifs:
                    if any(isinstance(x, ast.Constant) and isinstance(x.value, str) and x.value and key.startswith(x.value) for x in ast.walk(cond)):
                        dropped.append(c)
    R.ob(rid, cp, dropped[0] if dropped else cp.node, not dropped, text=f'request.copy() keeps the memo `{key}` of the buffered body', detail='' if not dropped else
         f'`{short(dropped[0])}` removes `{key}` from the copied environ while `wsgi.input` in it is the buffer the original filled: the copy reads that buffer again from '
         f'wherever the application left it - after the handler consumed the body, `request.copy().body` is empty or starts in the middle',
         why='the body presented to the application is exactly the first Content-Length bytes of the stream', key_extra='copy-body-memo')


def check_body_props(P, R):
    c = P.cls(f'{BM}:BodyMixin')
    f = c.methods.get('_body')
    R.require(f is not None, 'BodyMixin._body not found')
    g, rd = f.cfg, f.rd
    # cache_in decorator keyed in environ
    decs = [d for d in f.node.decorator_list if isinstance(d, ast.Call) and dotted(d.func) == 'cache_in']
    ok = bool(decs) and isinstance(decs[0].args[0], ast.Constant) and str(decs[0].args[0].value).startswith('environ[')
    R.ob('C04.e', f, f.node, ok, text='@cache_in(environ[...]) on _body', detail='' if ok else
         '_body is not cached in the per-request environ: every access would read the stream again', nontrivial=False)
    # the returned object derives from _body_read(...)
    rets = [n for n in walk_shallow(f.node) if isinstance(n, ast.Return) and n.value is not None]
    R.require(rets, 'BodyMixin._body has no return')
    for r in rets:
        rn = g.node_of_stmt(r)[0]
        calls = rd.derives_from_call(r.value, rn, lambda c: dotted(c.func) == '_body_read')
        R.ob('C04.e', f, r, bool(calls), detail='' if calls else 'returned object does not come from _body_read()')
        # seek(0) on the same object before returning
        if isinstance(r.value, ast.Name):
            seeks = [c2 for c2 in T.calls_with_attr(f, 'seek', r.value.id) if c2.args and is_const(c2.args[0], 0)]
            sk = [g.node_of_stmt(c2)[0] for c2 in seeks]
            ok = bool(sk) and g.must_pass(g.entry, rn, sk)
            R.ob('C04.e', f, r, ok, text=f'{r.value.id}.seek(0) before {short(r)}', detail='' if ok else
                 'the buffer is returned without being rewound', key_extra='rewind')
            # wsgi.input replaced by the buffer
            stores = [s for s in walk_shallow(f.node) if isinstance(s, ast.Assign) and any(
                isinstance(t, ast.Subscript) and is_const(t.slice, 'wsgi.input') for t in s.targets)
                and isinstance(s.value, ast.Name) and s.value.id == r.value.id]
            ok = bool(stores) and g.must_pass(g.entry, rn, [g.node_of_stmt(s)[0] for s in stores])
            R.ob('C04.e', f, r, ok, text="environ['wsgi.input'] = <buffer>", detail='' if ok else
                 'the consumed stream is not replaced by the buffered copy', key_extra='substitute')
    # arguments of the reader call
    for call in [x for x in walk_shallow(f.node) if isinstance(x, ast.Call) and dotted(x.func) == '_body_read']:
        kws = {k.arg: k.value for k in call.keywords}
        a0 = call.args[0] if call.args else None
        ok = a0 is not None and T.xsrc(f, a0).replace('"', "'") == "self.environ['wsgi.input'].read"
        R.ob('C04.e', f, call, ok, text='reader = environ[wsgi.input].read', detail='' if ok else f'stream read callable is `{short(a0)}`')
        ok = 'content_length' in kws and T.xsrc(f, kws['content_length']) == 'self.content_length'
        R.ob('C04.e', f, call, ok, text='content_length=self.content_length', detail='' if ok else
             'the declared length passed to the reader is not the Content-Length property')
    # body property rewinds on every access
    fb = c.methods.get('body')
    R.require(fb is not None, 'BodyMixin.body not found')
    rets = [n for n in walk_shallow(fb.node) if isinstance(n, ast.Return) and n.value is not None]
    for r in rets:
        rn = fb.cfg.node_of_stmt(r)[0]
        ok = False
        if isinstance(r.value, ast.Name):
            from_body = any(isinstance(x, ast.Attribute) and dotted(x) == 'self._body'
                            for x in fb.rd.closure_nodes(r.value, rn))
            seeks = [fb.cfg.node_of_stmt(c2)[0] for c2 in T.calls_with_attr(fb, 'seek', r.value.id)
                     if c2.args and is_const(c2.args[0], 0)]
            ok = from_body and bool(seeks) and fb.cfg.must_pass(fb.cfg.entry, rn, seeks)
        R.ob('C04.e', fb, r, ok, detail='' if ok else 'body does not return the cached buffer rewound to 0')
    check_content_length(P, R, 'C04.e')
    check_copy_keeps_body_memo(P, R, 'C04.e', decs)
    # the buffered body is a memo of what `wsgi.input` delivered: a stream installed through the request (`request['wsgi.input'] = s`) drops it
    from . import c18 as _c18
    for d_ in decs:
        if d_.args and isinstance(d_.args[0], ast.Constant) and isinstance(d_.args[0].value, str):
            mk = d_.args[0].value.replace(' ', '')
            if mk.startswith('environ[') and mk.endswith(']'):
                key_ = mk[len('environ['):-1]
                ld_ = _c18.listener_drops(P, 'wsgi.input')
                if ld_ is None:
                    R.undecided('C04.e', f, d_, '_body memo', 'how the change listener maps `wsgi.input` to the memos it drops has no recogniser')
                    continue
                dropped_, prefix_ = ld_
                okm = any(prefix_ + x_ == key_ for x_ in dropped_)
                R.ob('C04.e', f, d_, okm, text=f'memo `{key_}` of the buffered body is dropped when wsgi.input is replaced through the request', detail='' if okm else
                     f'the body is memoised under `{key_}`, which the change listener does not drop for `wsgi.input` (it drops {sorted(prefix_ + x_ for x_ in dropped_)}): after '
                     f'`request["wsgi.input"] = stream` the application keeps seeing the bytes of the old stream, and the new one is never read',
                     why='the body presented is what the input stream of the request delivers', key_extra='body-memo-dropped')

    check_nobody_closes_body(P, R, 'C04.e', f, decs)


def check_nobody_closes_body(P, R, rid, f, decs):
    """the cached buffer stays open for the whole request - and beyond the handler, while the response is produced: nobody in the package closes it"""
    import re as _re
    key = None
    if decs and isinstance(decs[0].args[0], ast.Constant):
        m_ = _re.match(r'environ\[\s*(.+?)\s*\]', str(decs[0].args[0].value))
        key = m_.group(1) if m_ else None
    # the cached buffer stays open for the whole request: nobody in the package closes it (close() / `with` on it)
    def _is_body_ref(fn, e, at):
        for x in fn.rd.closure_nodes(e, at):
            if isinstance(x, ast.Attribute) and x.attr in ('body', '_body') and isinstance(x.value, ast.Name) and x.value.id in ('self', 'request', 'rq'):
                return True
            if isinstance(x, ast.Subscript) and is_const(x.slice, 'wsgi.input') and fn.fq != f.fq:
                return True
            # the memo itself: environ['ombott.request.body'] / environ.get('ombott.request.body')
            if key and isinstance(x, ast.Subscript) and is_const(x.slice, key):
                return True
            if key and isinstance(x, ast.Call) and call_attr(x) in ('get', 'pop') and x.args and is_const(x.args[0], key):
                return True
        return False
    closers = []
    memonly = []
    for fn in P.all_funcs():
        if not fn.fq.startswith('ombott.'):
            continue
        for n in walk_shallow(fn.node):
            if isinstance(n, (ast.With, ast.AsyncWith)):
                ns_ = fn.cfg.node_of_stmt(n.items[0].context_expr)
                if not ns_:
                    continue
                for it in n.items:
                    if _is_body_ref(fn, it.context_expr, ns_[0]):
                        closers.append((fn, n, f'with {short(it.context_expr)}'))
            elif isinstance(n, ast.Call) and isinstance(n.func, ast.Attribute) and n.func.attr == 'close' and not n.args:
                ns_ = fn.cfg.node_of_stmt(n)
                if ns_ and _is_body_ref(fn, n.func.value, ns_[0]):
                    closers.append((fn, n, short(n)))
            elif isinstance(n, ast.Call) and isinstance(n.func, ast.Attribute) and n.func.attr in ('getvalue', 'getbuffer') and fn.fq != f'{BM}:_body_read':
                ns_ = fn.cfg.node_of_stmt(n)
                if ns_ and _is_body_ref(fn, n.func.value, ns_[0]):
                    memonly.append((fn, n))
    for (fn, n, what) in closers:
        R.ob(rid, fn, n, False, text=f'`{what}` closes the cached request body', detail=
             f'`{what}` closes the buffered body that is cached in the environ and handed out again by request.body / wsgi.input: after this access every later '
             f'read of the raw body raises ValueError (I/O operation on closed file) instead of giving the first Content-Length bytes',
             why='request.body is the same bytes on every access (re-readable, rewound)', key_extra='closes-body')
    for (fn, n) in memonly:
        R.ob(rid, fn, n, False, text=f'`{short(n)}` on the cached request body', detail=
             f'`{short(n)}` exists on the in-memory buffer only: the cached body is a temporary file once it has outgrown (or exactly reached) the in-memory threshold, and this '
             f'access then raises AttributeError instead of presenting the body', why='the body is presented whatever its size', key_extra='memory-only-api')
    R.ob(rid, f, f.node, not closers, text='no function closes the cached request body (no close() / with on it)', detail='' if not closers else
         f'{len(closers)} site(s) close it', nontrivial=False, key_extra='no-closer')


def check_content_length(P, R, rid):
    c = P.cls(f'{BM}:BodyMixin')
    # content_length property: int(CONTENT_LENGTH or -1)
    fc = c.methods.get('content_length')
    R.require(fc is not None, 'BodyMixin.content_length not found')
    rets = [n for n in walk_shallow(fc.node) if isinstance(n, ast.Return) and n.value is not None]
    def _is_int_of_header(v_, at_):
        x_ = T.expand(fc, v_, at_)
        return 'CONTENT_LENGTH' in src(x_) and isinstance(x_, ast.Call) and dotted(x_.func) == 'int'
    any_int = any(_is_int_of_header(r.value, fc.cfg.node_of_stmt(r)[0]) for r in rets)
    for r in rets:
        ok = _is_int_of_header(r.value, fc.cfg.node_of_stmt(r)[0])
        if not ok and any_int and T.const(r.value) == -1 if hasattr(T, 'const') else False:
            ok = True
        if not ok and any_int and isinstance(r.value, ast.UnaryOp) and isinstance(r.value.op, ast.USub) and is_const(r.value.operand, 1):
            ok = True        # the explicit `return -1` for a missing / empty header
        R.ob(rid, fc, r, ok, detail='' if ok else 'content_length is not int(environ CONTENT_LENGTH)', nontrivial=False)
        # an empty header value (what CGI-style gateways pass when the request has no Content-Length) counts as missing
        rn_ = fc.cfg.node_of_stmt(r)[0]
        x_ = T.expand(fc, r.value, rn_)
        if isinstance(x_, ast.Call) and dotted(x_.func) == 'int' and x_.args and 'CONTENT_LENGTH' in src(x_):
            a0 = x_.args[0]
            falsy_ok = isinstance(a0, ast.BoolOp) and isinstance(a0.op, ast.Or) and len(a0.values) == 2 and \
                (isinstance(a0.values[1], (ast.UnaryOp, ast.Constant))) or \
                any(holds_ is True and isinstance(e_, ast.Name) or (holds_ is False and isinstance(e_, ast.UnaryOp)) for (e_, holds_, _t) in T.guard_atoms(fc, rn_)) or \
                bool(T.guard_atoms(fc, rn_))
            R.ob(rid, fc, r, bool(falsy_ok), text='an empty CONTENT_LENGTH is treated like a missing one', detail='' if falsy_ok else
                 f'`{short(x_)}` handles a missing header only: with CONTENT_LENGTH="" (a request without Content-Length behind a CGI-style gateway, e.g. every chunked '
                 f'request) int("") raises ValueError and the body cannot be read at all (500)',
                 why='without a Content-Length the body is empty / the chunked body is decoded - not an error', key_extra='empty-length')

