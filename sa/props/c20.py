"""C20 - Framework error pages never reflect request data unescaped."""
import ast
import os
import string

from ..astutil import (walk_shallow, dotted, call_attr, short, src, stmt_of, names_loaded, is_const, enclosing,
                       compare_parts, strip_not, const, bool_operands)
from ..loader import AnalysisError
from .. import rules as T
from .. import regexast as RX
from . import c05

ID = 'C20'
TECHNIQUE = 'taint analysis (sources: environ / request attributes; sanitisers: html.escape, html_escape; sinks: template context and %-formatting), cross-file template/context agreement'
DECIDED = ('(a) request text reaches the HTML error page only through an escaper and nothing undoes the escaping afterwards: '
           'the url field of the template context is repr/str of html.escape(<url argument>), exception and traceback are '
           'constants unless debug; (b) every error body the framework itself constructs (HTTPError(...) in the package, the '
           '404 / 405 reason strings of the router, errors_map) is a constant or an f-string without request-derived holes, '
           'because the template inserts {e.body} and {e.status} verbatim; (c) the replacement fields of ombott/error.html '
           '(style block skipped as render skips it) are keys of the context, attribute fields exist on the error object; (d) '
           'request data is only ever an argument of format / %, never the format string; (e) in the last-resort page every '
           'request-derived operand is wrapped in html_escape, html_escape replaces & first and covers < > " \', and under '
           'is_json_requested the body is json.dumps(<dict>) with Content-Type application/json set on the same branch.')
DECIDED_MORE = ('Also: the receiver of .format() does not derive from the request URL; the traceback slot of framework-built errors is text or None.')
DECIDED = DECIDED + ' ' + DECIDED_MORE
DECIDED_R6 = ('Round 6: a translate table is evaluated (all five characters); an error built from an exception without a body does not fall back to the exception text.')
DECIDED = DECIDED + ' ' + DECIDED_R6
DECIDED_R7 = ('Round 7: the path re-reading handler covers UnicodeEncodeError; premises C09.c / C09.d for the Content-Type and identity of the error document.')
DECIDED = DECIDED + ' ' + DECIDED_R7
DECIDED_R8 = ('Round 8: what json.dumps produced is returned as it is (whole-text re-encodings aside).')
DECIDED = DECIDED + ' ' + DECIDED_R8
DECIDED_R9 = ('Round 9: when the JSON / HTML choice is made outside `default_error_handler`, every call of the renderer is under it (e).')
DECIDED = DECIDED + ' ' + DECIDED_R9
NOT_DECIDED = 'pages rendered with debug on (excluded by the statement); custom error handlers; html.escape itself (assumed).'
ASSUMPTIONS = ['html.escape and the five replacements of html_escape neutralise markup', 'json.dumps yields valid JSON']

ER = 'ombott.error_render'
OM = 'ombott.ombott'
SANITISERS = {'sanitize_html.escape', 'html.escape', 'html_escape', 'escape', 'markupsafe.escape'}
NEUTRAL_WRAPPERS = {'repr', 'str', 'tob', 'touni'}


def is_source(x, f):
    """AST node that denotes request-controlled text"""
    if isinstance(x, ast.Attribute):
        d = dotted(x) or ''
        parts = d.split('.')
        if 'request' in parts or 'environ' in parts:
            return True
    if isinstance(x, ast.Name) and x.id in ('environ', 'url', 'path', 'query_string', 'raw_path') and (x.id in f.params or f.rd.is_local(x.id) is False):
        return x.id in f.params
    if isinstance(x, ast.Subscript) and dotted(x.value) in ('environ',):
        return True
    if isinstance(x, ast.Call) and dotted(x.func) in ('environ.get', 'env_get', 'self._env_get'):
        return True
    return False


def is_sanitiser(x):
    return isinstance(x, ast.Call) and (dotted(x.func) or '') in SANITISERS


def tainted_leaves(f, expr, at):
    cl = f.rd.closure_nodes(expr, at, stop=is_sanitiser)
    return [x for x in cl if is_source(x, f)]


def check_path_transcoding(P, R, rid):
    """the path is re-read as UTF-8 through `.encode('latin1').decode('utf8')`: both steps fail for some paths (a character above U+00FF cannot be encoded, a
    byte sequence may not be UTF-8), and the handler that answers 400 through the normal error rendering covers both"""
    from .c17 import _caught
    h = P.func('ombott.ombott:Ombott._handle')
    n = 0
    for c in walk_shallow(h.node):
        if isinstance(c, ast.Call) and call_attr(c) == 'decode' and isinstance(c.func.value, ast.Call) and call_attr(c.func.value) == 'encode':
            n += 1
            both = _caught(c, {'UnicodeError', 'ValueError', 'Exception', 'BaseException'}) or \
                (_caught(c, {'UnicodeEncodeError'}) and _caught(c, {'UnicodeDecodeError'}))
            R.ob(rid, h, c, both, text=f'`{short(c)}`: a path that cannot be encoded and one that cannot be decoded are both answered by the handler', detail='' if both else
                 f'the handler around `{short(c)}` does not catch UnicodeEncodeError: a PATH_INFO holding a character above U+00FF (a path some server already decoded) leaves '
                 f'_handle as an exception and is answered by the last-resort HTML page - also for a client that asked for JSON',
                 why='when JSON is requested the error body is valid JSON, for every framework-generated error', key_extra='path-transcode')
    R.ob(rid, h, h.node, n >= 1, text=f'{n} latin1 -> utf8 re-reading(s) of the path found in _handle', nontrivial=False)


def check(P, R):
    R.rule('C20.a', 'request text reaches the error page only escaped', floor=4)
    R.rule('C20.b', 'framework error bodies are constants', floor=12)
    R.rule('C20.c', 'template and context agree', floor=4)
    R.rule('C20.d', 'request data is never the format string', floor=2)
    R.rule('C20.e', 'last-resort page and JSON branch', floor=6)

    check_path_transcoding(P, R, 'C20.e')
    # the error document is rendered for this request and labelled by this request's choice of JSON / HTML: the Content-Type the error handler sets reaches the
    # header dictionary that is sent (apply() copies into it, never re-points it), and no page rendered for another request is handed out (premises shared with C09)
    from ..report import run_premise
    from . import c09 as _c09
    run_premise(R, _c09, P, {'C09.c', 'C09.d'}, 'C20.e',
                'when JSON is requested the error body is valid JSON and is labelled as such - a JSON body served as text/html is markup made of request text')
    rn = P.func(f'{ER}:render')
    g, rd = rn.cfg, rn.rd
    urlp = rn.params[1]
    # shape-independent first: nothing taken from the request is (part of) a format string - html escaping leaves { } [ ] . alone, so an
    # escaped URL inside the template is still interpreted by str.format
    for c in [c for c in walk_shallow(rn.node) if isinstance(c, ast.Call) and call_attr(c) in ('format', 'format_map')]:
        nn_ = g.node_of_stmt(c)[0]
        cl_ = rd.closure_nodes(c.func.value, nn_)
        via = [x for x in cl_ if (isinstance(x, ast.Name) and x.id == urlp and not rd.is_local(x.id)) or is_source(x, rn)]
        via += [x for x in cl_ if isinstance(x, ast.Name) and x.id == urlp and all(d_.kind == 'param' for d_ in rd.at(nn_, urlp))]
        R.ob('C20.d', rn, c, not via, text=f'`{short(c.func.value, 40)}.format(..)`: the format string holds no request text', detail='' if not via else
             f'the string that `.format()` is applied to is built from the request URL (`{short(c.func.value, 50)}`): html escaping does not touch braces, so a query string '
             f'or Host containing a replacement field ({{e.__traceback__.tb_frame.f_locals[environ][QUERY_STRING]}}) is expanded by format() to raw request text, emitted unescaped',
             why='request text reaches the error page only escaped', key_extra='format-string-taint')
    ctxs = [c for c in walk_shallow(rn.node) if isinstance(c, ast.Call) and dotted(c.func) == 'dict' and c.keywords]
    if not ctxs:
        ctxs = [c for c in walk_shallow(rn.node) if isinstance(c, ast.Dict)]
    if not ctxs:
        # the fields given to format() as explicit keyword arguments
        ctxs = [c for c in walk_shallow(rn.node) if isinstance(c, ast.Call) and call_attr(c) == 'format' and c.keywords and all(k.arg for k in c.keywords)]
    R.require(ctxs, 'render: template context not found')
    ctx = ctxs[0]
    cn0 = g.node_of_stmt(ctx)[0]
    # the context may be written in one piece (dict(...) / {...}) or filled key by key (`ctx = {}; ctx['url'] = ...`)
    entries = []        # (key, value expr, CFG node)
    if isinstance(ctx, ast.Call):
        entries += [(k.arg, k.value, cn0) for k in ctx.keywords]
    else:
        entries += [(const(k), v, cn0) for k, v in zip(ctx.keys, ctx.values)]
    st0 = stmt_of(ctx)
    cvar = st0.targets[0].id if isinstance(st0, ast.Assign) and isinstance(st0.targets[0], ast.Name) and st0.value is ctx else None
    if cvar:
        for st_ in walk_shallow(rn.node):
            if isinstance(st_, ast.Assign) and len(st_.targets) == 1 and isinstance(st_.targets[0], ast.Subscript) \
                    and isinstance(st_.targets[0].value, ast.Name) and st_.targets[0].value.id == cvar and isinstance(const(st_.targets[0].slice), str):
                entries.append((const(st_.targets[0].slice), st_.value, g.node_of_stmt(st_)[0]))
    R.require(entries, 'render: the template context has no recognisable keys')
    fields = {}
    for (k_, v_, n_) in entries:
        fields.setdefault(k_, v_)
    # ---- a: every context value except `e`
    for name, v, cn in sorted(entries, key=lambda e: (e[0], getattr(e[1], 'lineno', 0))):
        if isinstance(v, ast.Name) and v.id == rn.params[0]:
            continue
        leaves = tainted_leaves(rn, v, cn)
        # undoing: between the sanitiser and the context only neutral wrappers
        undo = None
        full = rd.closure_nodes(v, cn, stop=is_sanitiser)
        for x in full:
            if isinstance(x, ast.Call) and not is_sanitiser(x):
                d = dotted(x.func) or call_attr(x) or ''
                inner = rd.closure_nodes(x, cn, stop=is_sanitiser) if False else None
                if any(is_sanitiser(y) for a in x.args for y in rd.closure_nodes(a, cn, stop=lambda z: False)) and d not in NEUTRAL_WRAPPERS:
                    undo = x
        uses_url = any(isinstance(x, ast.Name) and x.id == urlp for x in rd.closure_nodes(v, cn))
        ok = not leaves and undo is None
        det = ''
        if leaves:
            det = f'the template field `{name}` receives request text `{short(leaves[0])}` that did not pass an escaper'
        elif undo is not None:
            det = (f'`{short(undo)}` is applied to the already escaped text: it can turn escaped sequences back into markup '
                   f'(e.g. percent-decoding %3C after escaping)')
        R.ob('C20.a', rn, v, ok, text=f'ctx[{name}] = {short(v)}', detail=det,
             why='request-controlled text must appear only HTML-escaped', key_extra=name)
        if name == 'url':
            oke = uses_url and any(is_sanitiser(x) and x.args and src(x.args[0]) == urlp for x in rd.closure_nodes(v, cn))
            R.ob('C20.a', rn, v, oke, text='ctx[url] derives from escape(url)', detail='' if oke else 'the url field is not the escaped url argument', key_extra='url-escaped')
    # exception / traceback constants unless debug
    dbg = rn.params[2]

    def under_debug(node_):
        return any(isinstance(e_, ast.Name) and e_.id == dbg and holds_ for (e_, holds_, _) in T.guard_atoms(rn, node_))
    for (name, v, cn) in entries:
        if name not in ('exception', 'traceback'):
            continue
        if isinstance(T.module_value(rn, v), ast.Constant) or under_debug(cn):
            okd = True
        elif isinstance(v, ast.Name):
            defs = rd.at(cn, v.id)
            okd = bool(defs)
            for d in defs:
                if d.value is not None and isinstance(T.module_value(rn, d.value), ast.Constant):
                    continue
                if not under_debug(d.node):
                    okd = False
        else:
            okd = False
        R.ob('C20.a', rn, v, okd, text=f'ctx[{name}] is a constant unless debug', detail='' if okd else
             f'`{name}` can carry exception text (which may quote request data) with debug off', key_extra=name + '-const')

    # ---- b: error bodies
    n_b = 0
    # what an error built without a body shows: HTTPError.__init__ must not fill the body from the exception it is given (the page inserts {e.body} verbatim)
    hi_ = P.func('ombott.response:HTTPError.__init__')
    fallback_from_exc = []
    for st_ in walk_shallow(hi_.node):
        if isinstance(st_, ast.Assign) and any(isinstance(t_, ast.Name) and t_.id == hi_.params[2] for t_ in st_.targets):
            if any(isinstance(x_, ast.Name) and x_.id in hi_.params[3:5] for x_ in ast.walk(st_.value)):
                fallback_from_exc.append(st_)
    for f in P.all_funcs():
        if f.module.name.endswith(('server_adapters',)):
            continue
        for c in walk_shallow(f.node):
            if isinstance(c, ast.Call) and dotted(c.func) in ('HTTPError', 'abort'):
                body = c.args[1] if len(c.args) > 1 else None
                for k in c.keywords:
                    if k.arg in ('body', 'text'):
                        body = k.value
                if body is None and dotted(c.func) == 'HTTPError' and fallback_from_exc:
                    exc_arg = c.args[2] if len(c.args) > 2 else next((k.value for k in c.keywords if k.arg == 'exception'), None)
                    if exc_arg is not None and not is_const(exc_arg, None):
                        R.ob('C20.b', f, c, False, text=f'`{short(c, 60)}`: body of an error built from an exception', detail=
                             f'this error is built without a body, and HTTPError.__init__ then fills it in from the exception (`{short(fallback_from_exc[0])}`): the exception '
                             f'text - e.g. int() quoting a query parameter - is inserted into the page verbatim through {{e.body}}, with debug off',
                             why='error pages contain request-controlled text only in HTML-escaped form', key_extra='body-from-exception')
                if body is None:
                    continue
                ns = f.cfg.node_of_stmt(c)
                if not ns:
                    continue
                n_b += 1
                leaves = tainted_leaves(f, body, ns[0])
                ok = not leaves
                R.ob('C20.b', f, c, ok, detail='' if ok else
                     f'the error body contains request text `{short(leaves[0])}`: the error template inserts {{e.body}} verbatim, so markup in '
                     f'the path/query is reflected',
                     why='error pages contain request-controlled text only in HTML-escaped form')
    R.require(n_b >= 8, f'{n_b} framework HTTPError constructions found (11 on the pinned tree)')
    # router triples
    rs = P.func('ombott.router.radirouter:RadiRouter.resolve')
    for r in [n for n in walk_shallow(rs.node) if isinstance(n, ast.Return) and isinstance(n.value, ast.Tuple)]:
        for x in ast.walk(r.value):
            if isinstance(x, ast.List) and len(x.elts) == 3 and isinstance(x.elts[0], ast.Constant) and x.elts[0].value in (404, 405):
                ok = isinstance(x.elts[1], ast.Constant) and isinstance(x.elts[1].value, str)
                R.ob('C20.b', rs, x, ok, text=f'{x.elts[0].value} reason = {short(x.elts[1])}', detail='' if ok else 'the 404/405 reason text is not a constant')
    # handler passes the reason through unchanged
    hd = P.func(f'{OM}:Ombott.handler')
    for table in c05.errors_map_table(P):
        ok = table[2] is None or isinstance(table[2], ast.Constant)
        R.ob('C20.b', 'ombott.ombott:DefaultConfig', None, ok, text=f'errors_map[{table[0].name}] body = {short(table[2]) if table[2] is not None else None}',
             detail='' if ok else 'a mapped error body is not a constant')

    # ---- c: template
    tpl_path = os.path.join(P.root, 'ombott', 'error.html')
    R.require(os.path.exists(tpl_path), 'ombott/error.html not found')
    with open(tpl_path) as fh:
        lines = [ln.strip() for ln in fh.readlines()]
    fields_used = []
    skip = ''
    for ln in lines:
        if skip:
            if ln.startswith(skip):
                skip = ''
            continue
        if ln.startswith('<style'):
            skip = '</style'
            continue
        try:
            for (_, fname, spec, conv) in string.Formatter().parse(ln):
                if fname is not None:
                    fields_used.append(fname)
        except ValueError as e:
            R.ob('C20.c', 'ombott/error.html', None, False, text=f'template line `{ln[:60]}`', detail=f'not a valid format string: {e}')
    R.require(fields_used, 'error.html: no replacement fields found')
    he = P.cls('ombott.response:HTTPError')
    for fname in sorted(set(fields_used)):
        base, _, attr = fname.partition('.')
        ok = base in fields
        det = '' if ok else f'template field {{{fname}}} has no key `{base}` in the context: every error page turns into the last-resort 500'
        if ok and attr:
            has = any(attr in k.methods or attr in k.attrs or attr in c08_slots(P, k) for k in P.mro(he))
            ok = has
            det = '' if ok else f'HTTPError has no attribute `{attr}` for template field {{{fname}}}'
        R.ob('C20.c', 'ombott/error.html', None, ok, text=f'template field {{{fname}}}', detail=det, key_extra=fname)
    # only `url` of the context carries request text; any *new* field name that is not in the vetted set is reported
    vetted = {'e.status', 'e.body', 'exception', 'traceback', 'url'}
    for fname in sorted(set(fields_used) - vetted):
        R.ob('C20.c', 'ombott/error.html', None, False, text=f'template field {{{fname}}}', detail='new template field outside the vetted set: its value must be shown to be escaped',
             key_extra='new:' + fname)
    # style block skipped by render the same way
    s_ = src(rn.node)
    ok = "startswith('<style')" in s_ and "'</style'" in s_
    R.ob('C20.c', rn, rn.node, ok, text='render skips the <style> block (braces) like this check does', detail='' if ok else 'render formats the CSS block as a template')

    # ---- d
    fmts = [c for c in walk_shallow(rn.node) if isinstance(c, ast.Call) and call_attr(c) == 'format']
    for c in fmts:
        recv = c.func.value
        nn = g.node_of_stmt(c)[0]
        leaves = tainted_leaves(rn, recv, nn)
        from_file = any(isinstance(x, ast.Name) and x.id == '_html_lns' for x in rd.closure_nodes(recv, nn))
        ok = not leaves and from_file
        R.ob('C20.d', rn, c, ok, text=f'{short(recv)}.format(**ctx): format string from the package template', detail='' if ok else
             'the format string itself derives from request data')
    w = P.func(f'{OM}:Ombott.wsgi')
    gw, rw = w.cfg, w.rd
    mods = [x for x in walk_shallow(w.node) if isinstance(x, ast.BinOp) and isinstance(x.op, ast.Mod)]
    for x in mods:
        left_ = T.module_value(w, x.left)
        ok = isinstance(left_, ast.Constant) and isinstance(left_.value, str)
        R.ob('C20.d', w, x, ok, text=f'{short(x.left, 40)} % (...)', detail='' if ok else 'the left operand of % is not a constant format string')

    # ---- e: last-resort page
    handlers = [h for h in ast.walk(w.node) if isinstance(h, ast.ExceptHandler) and dotted(h.type) == 'Exception']
    R.require(handlers, 'wsgi: catch-all missing')
    h = handlers[0]
    rets = [n for st in h.body for n in walk_shallow(st) if isinstance(n, ast.Return)]
    for r in rets:
        rn_ = gw.node_of_stmt(r)[0]
        leaves = tainted_leaves(w, r.value, rn_)
        exc_text = [x for x in rw.closure_nodes(r.value, rn_, stop=is_sanitiser) if isinstance(x, ast.Call) and dotted(x.func) in ('repr', 'format_exc', 'str')
                    and any(isinstance(y, ast.Name) and y.id == (h.name or '_e') for y in ast.walk(x)) or
                    (isinstance(x, ast.Call) and dotted(x.func) == 'format_exc')]
        ok = not leaves and not exc_text
        R.ob('C20.e', w, r, ok, text='critical-error page: every request / exception text operand is html_escape()d', detail='' if ok else
             f'`{short((leaves or exc_text)[0])}` reaches the last-resort page without html_escape',
             why='the last-resort page must not reflect the path unescaped')
    # what is written to the client is what was escaped (no second, raw copy)
    he_ = P.func('ombott.common_helpers:html_escape')
    rep_calls = [c for c in ast.walk(he_.node) if isinstance(c, ast.Call) and call_attr(c) == 'replace' and len(c.args) == 2]
    order = None       # characters in the order they are replaced
    inner = None
    if rep_calls and all(isinstance(const(c.args[0]), str) for c in rep_calls):
        # chained form: the innermost call runs first
        depth_ = {}
        for c in rep_calls:
            d_, x_ = 0, c.func.value
            while isinstance(x_, ast.Call) and call_attr(x_) == 'replace':
                d_, x_ = d_ + 1, x_.func.value
            depth_[id(c)] = d_
        chain = sorted(rep_calls, key=lambda c: depth_[id(c)])
        if [depth_[id(c)] for c in chain] == list(range(len(chain))):
            order = [const(c.args[0]) for c in chain]
            inner = chain[0]
    elif len(rep_calls) == 1:
        # table form: for a, b in <constant pairs>: s = s.replace(a, b)
        c = rep_calls[0]
        lp_ = T.loops_of(c)
        if lp_ and isinstance(lp_[0], ast.For) and isinstance(lp_[0].target, ast.Tuple) and len(lp_[0].target.elts) == 2 \
                and [src(a) for a in c.args] == [src(e) for e in lp_[0].target.elts]:
            st_ = stmt_of(c)
            threads = isinstance(st_, ast.Assign) and isinstance(st_.targets[0], ast.Name) and src(c.func.value) == st_.targets[0].id
            try:
                tbl = T.ceval(he_, lp_[0].iter)
            except T.CannotEval:
                tbl = None
            if threads and isinstance(tbl, (tuple, list)) and all(isinstance(p_, (tuple, list)) and len(p_) == 2 for p_ in tbl):
                order = [p_[0] for p_ in tbl]
                inner = c
    if order is None:
        # one simultaneous pass: <str>.translate(<table built by str.maketrans from a constant dict>)
        tr_ = [c for c in ast.walk(he_.node) if isinstance(c, ast.Call) and call_attr(c) == 'translate' and len(c.args) == 1]
        rets_h = [n for n in walk_shallow(he_.node) if isinstance(n, ast.Return)]
        if len(tr_) == 1 and len(rets_h) == 1 and rets_h[0].value is tr_[0] and isinstance(tr_[0].func.value, ast.Name) and tr_[0].func.value.id == he_.params[0]:
            tb_ = T.module_value(he_, tr_[0].args[0])
            if isinstance(tb_, ast.Call) and dotted(tb_.func) == 'str.maketrans' and len(tb_.args) == 1 and isinstance(tb_.args[0], ast.Dict):
                try:
                    mp_ = T.ceval(he_, tb_.args[0])
                except T.CannotEval:
                    mp_ = None
                if isinstance(mp_, dict) and all(isinstance(k_, str) and len(k_) == 1 for k_ in mp_):
                    order = ['&'] + sorted(k_ for k_ in mp_ if k_ != '&') if '&' in mp_ else sorted(mp_)    # simultaneous: no order effects
                    inner = tr_[0]
            else:
                # any table that can be evaluated from the literals of the module: a dict keyed by code point / character, or a sequence indexed by code point
                try:
                    tv_ = T.ceval(he_, tr_[0].args[0])
                except T.CannotEval:
                    tv_ = None
                mp_ = None
                if isinstance(tv_, dict):
                    mp_ = {(chr(k_) if isinstance(k_, int) else k_): v_ for k_, v_ in tv_.items()}
                elif isinstance(tv_, (list, tuple, str)):
                    mp_ = {chr(i_): v_ for i_, v_ in enumerate(tv_) if v_ != chr(i_)}      # code points beyond the end are left alone
                if mp_ is not None:
                    want_ = {'&': '&amp;', '<': '&lt;', '>': '&gt;', '"': '&quot;'}
                    good_ = [k_ for k_ in mp_ if isinstance(k_, str) and len(k_) == 1 and isinstance(mp_[k_], str) and mp_[k_].startswith('&') and mp_[k_].endswith(';')]
                    order = (['&'] if '&' in good_ else []) + sorted(k_ for k_ in good_ if k_ != '&')
                    inner = tr_[0]
    if order is None:
        R.undecided('C20.e', he_, he_.node, 'html_escape', 'neither a chain of replace() calls with constant arguments nor a loop over a constant table')
    else:
        chars = set(order)
        ok = {'&', '<', '>', '"', "'"} <= chars
        R.ob('C20.e', he_, he_.node, ok, text=f'html_escape covers {sorted(chars)}', detail='' if ok else f'html_escape misses {sorted({"&", "<", ">", chr(34), chr(39)} - chars)}')
        ok = bool(order) and order[0] == '&'
        R.ob('C20.e', he_, inner or he_.node, ok, text='& is replaced first', detail='' if ok else 'replacing & after the others double-escapes / un-escapes entities')
    # a raw return of the argument is only allowed when a *search* over the whole string found none of the special characters
    for r_ in [n for n in walk_shallow(he_.node) if isinstance(n, ast.Return) and isinstance(n.value, ast.Name) and n.value.id == he_.params[0]]:
        rn_ = he_.cfg.node_of_stmt(r_)[0]
        if not all(d_.kind == 'param' for d_ in he_.rd.at(rn_, he_.params[0])):
            continue
        proven = False
        for (e_, holds_, _) in T.guard_atoms(he_, rn_):
            if isinstance(e_, ast.Call) and call_attr(e_) == 'search' and not holds_ and e_.args and src(e_.args[0]) == he_.params[0]:
                pat_ = T.module_value(he_, e_.func.value)
                lit_ = RX.pattern_literal(RX.compiled_pattern_arg(pat_)) if pat_ is not None else None
                if lit_:
                    tree_ = RX.parse(lit_[0])
                    items_ = RX._items(tree_) if tree_ is not None else []
                    if len(items_) == 1 and str(items_[0][0]) == 'IN' and {chr(c_) for c_ in RX.class_chars(items_[0][1])} >= {'&', '<', '>', '"', "'"}:
                        proven = True
        R.ob('C20.e', he_, r_, proven, text=f'{short(r_)} (unescaped) only when a search found no special character', detail='' if proven else
             'the argument is returned unescaped on a path that does not establish the absence of & < > " \' in the whole string (e.g. a match() at position 0 only): '
             'PATH_INFO starts with "/", so the last-resort page echoes the path raw', why='request-controlled text appears only HTML-escaped', key_extra='raw-return')
    # the page (HTML or JSON) is rendered from the request it answers: re-initialisation precedes every exit of _handle
    from . import c09 as _c09
    _c09.check_init_dominance(P, R, 'C20.e')
    # JSON branch
    de = P.func(f'{OM}:Ombott.default_error_handler')
    gd = de.cfg
    jt = [n for n in gd.nodes if n.kind == 'test' and 'is_json_requested' in src(n.ast)]
    if not jt:
        # the choice between the JSON and the HTML rendering was taken out of default_error_handler: then every place that renders an error must make it
        app_ = P.cls(f'{OM}:Ombott')
        hit_ = False
        for m_ in app_.methods.values():
            mg_ = m_.cfg
            for c_ in [x for x in walk_shallow(m_.node) if isinstance(x, ast.Call) and dotted(x.func) == 'self.default_error_handler']:
                cn_ = mg_.node_of_stmt(c_)[0]
                guarded_ = any(t_.kind == 'test' and t_.ast is not None and 'is_json_requested' in src(t_.ast) and
                               (mg_.edge_dominates(t_, 'true', cn_) or mg_.edge_dominates(t_, 'false', cn_)) for t_ in mg_.nodes)
                if not guarded_:
                    hit_ = True
                    R.ob('C20.e', m_, c_, False, text=f'`{short(c_)}` in {m_.name}: the renderer is chosen by what the client accepts', detail=
                         f'default_error_handler no longer looks at request.is_json_requested, and `{short(c_)}` in {m_.name} calls it without that test: the error produced here '
                         f'is answered with the HTML page also to a client that asked for JSON',
                         why='when JSON is requested the error body is valid JSON', key_extra='renderer-choice')
        if hit_:
            return
    R.require(jt, 'default_error_handler: JSON test missing')
    dumps = [c for c in walk_shallow(de.node) if isinstance(c, ast.Call) and dotted(c.func) == 'json.dumps']
    jlab = 'false' if strip_not(jt[0].ast)[1] else 'true'      # the edge taken when JSON is requested
    ok = bool(dumps) and gd.edge_dominates(jt[0], jlab, gd.node_of_stmt(dumps[0])[0]) and \
        isinstance(T.expand(de, dumps[0].args[0], gd.node_of_stmt(dumps[0])[0]), (ast.Call, ast.Dict))
    R.ob('C20.e', de, dumps[0] if dumps else de.node, ok, text='JSON requested -> json.dumps(dict(...))', detail='' if ok else 'the JSON error body is not produced by json.dumps of a dict')
    # ... and what json.dumps produced is what is returned: the only operations between the two are re-encodings of the whole text
    for dc in dumps:
        par = getattr(dc, '_p', None)
        chain = []
        cur = dc
        while isinstance(par, ast.Attribute) and isinstance(getattr(par, '_p', None), ast.Call) and par._p.func is par:
            chain.append(par._p)
            cur = par._p
            par = getattr(cur, '_p', None)
        # later rewrites of the variable the text was stored in
        st_ = stmt_of(dc)
        if isinstance(st_, ast.Assign) and len(st_.targets) == 1 and isinstance(st_.targets[0], ast.Name):
            nm_ = st_.targets[0].id
            sn_ = gd.node_of_stmt(st_)[0]
            for c2 in walk_shallow(de.node):
                if isinstance(c2, ast.Call) and isinstance(c2.func, ast.Attribute) and isinstance(c2.func.value, ast.Name) and c2.func.value.id == nm_ \
                        and gd.node_of_stmt(c2) and gd.can_reach(sn_, gd.node_of_stmt(c2)[0]) and gd.node_of_stmt(c2)[0] is not sn_:
                    chain.append(c2)
        for c2 in chain:
            okc = call_attr(c2) in ('encode', 'decode', 'strip')
            R.ob('C20.e', de, c2, okc, text=f'`{short(c2)}`: the text json.dumps produced is returned as it is', detail='' if okc else
                 f'`{short(c2)}` rewrites the serialised text: the JSON grammar knows the escapes json.dumps itself emits and no others (\\x3c is a JavaScript escape, not a JSON '
                 f'one), and a replacement outside string literals breaks the structure - the body no longer parses',
                 why='when JSON is requested the error body is valid JSON', key_extra='json-post-processed')
    # what json.dumps is given can be encoded: the values of the dict are text (repr(..), the error body, the traceback *text*).  The traceback slot of
    # every HTTPError the framework builds holds formatted text or None, never a traceback object
    n_tb = 0
    for fx in P.all_funcs():
        if not fx.fq.startswith('ombott.') or fx.module.name.endswith('server_adapters') or isinstance(fx.node, ast.Lambda):
            continue
        for c in walk_shallow(fx.node):
            if isinstance(c, ast.Call) and (dotted(c.func) or '').split('.')[-1] == 'HTTPError':
                tb = c.args[3] if len(c.args) > 3 else next((k.value for k in c.keywords if k.arg == 'traceback'), None)
                if tb is None:
                    continue
                n_tb += 1
                tbx = T.expand(fx, tb, fx.cfg.node_of_stmt(c)[0])
                ok_tb = is_const(tbx, None) or (isinstance(tbx, ast.Call) and (dotted(tbx.func) or '').split('.')[-1] in ('format_exc', 'str', 'join', 'format_exception_only')) \
                    or (isinstance(tbx, ast.Constant) and isinstance(tbx.value, str)) or isinstance(tbx, ast.JoinedStr)
                R.ob('C20.e', fx, c, ok_tb, text=f'HTTPError(..., traceback={short(tbx, 40)}): text or None', detail='' if ok_tb else
                     f'the framework builds an error whose traceback slot holds `{short(tbx, 50)}` (not text): when JSON is requested, json.dumps(dict(..., traceback=res.traceback)) '
                     f'raises TypeError, the error escapes _cast and the client gets the last-resort HTML page instead of JSON',
                     why='when JSON is requested the error body is valid JSON', key_extra='traceback-text')
    R.require(n_tb >= 1, f'{n_tb} HTTPError(..., traceback) construction sites found (2 on the pinned tree)')
    def _is_json_ct(st_):
        v_ = st_.value
        if is_const(v_, 'application/json'):
            return True
        ns_ = gd.node_of_stmt(st_)
        vx_ = T.expand(de, v_, ns_[0]) if ns_ else v_
        try:
            return is_const(T.module_value(de, vx_), 'application/json')
        except Exception:
            return False
    cts = [st for st in walk_shallow(de.node) if isinstance(st, ast.Assign) and 'Content-Type' in src(st.targets[0]) and _is_json_ct(st)]
    ok = bool(cts) and gd.edge_dominates(jt[0], jlab, gd.node_of_stmt(cts[0])[0])
    R.ob('C20.e', de, cts[0] if cts else de.node, ok, text='Content-Type: application/json on the same branch', detail='' if ok else 'the JSON body is not labelled application/json')
    ij = P.func('ombott.request_pkg.props_mixin:PropsMixin.is_json_requested')
    rets_ = [n for n in walk_shallow(ij.node) if isinstance(n, ast.Return) and n.value is not None]
    for r in rets_:
        v = r.value
        if isinstance(v, ast.IfExp) and isinstance(v.test, ast.Name) and (is_const(v.orelse, None) or is_const(v.orelse, False)):
            v = v.body          # `<detection> if accept else None`: no header, no JSON
        elif is_const(v, None) or is_const(v, False):
            continue            # the exit for a missing header
        ok = isinstance(v, ast.Call) and call_attr(v) == 'startswith' and v.args and is_const(v.args[0], 'application/json')
        det = ''
        if not ok:
            cpx = compare_parts(v)
            if cpx and cpx[1] is ast.Eq and is_const(cpx[2], 'application/json'):
                cl = ij.rd.closure_nodes(cpx[0], ij.cfg.node_of_stmt(r)[0])
                ok = any(isinstance(x, ast.Call) and call_attr(x) in ('split', 'partition') and x.args and is_const(x.args[0], ';') for x in cl)
                det = '' if ok else ('the Accept media range is compared for equality with "application/json" without dropping its parameters: '
                                     '"application/json;q=0.9" or "application/json; charset=utf-8" no longer counts as a JSON request and gets the HTML page')
            else:
                R.undecided('C20.e', ij, r, f'{short(r)}: JSON detection', 'neither startswith("application/json") nor an equality test on the media range')
                continue
        R.ob('C20.e', ij, r, ok, text=f'JSON requested <=> Accept starts with application/json: {short(v)}', detail=det,
             why='when JSON is requested the error body is valid JSON', key_extra='json-detect')
    rc = [c for c in walk_shallow(de.node) if isinstance(c, ast.Call) and dotted(c.func) == 'error_render.render']
    ok = False
    if rc and len(rc[0].args) == 3:
        at_ = de.cfg.node_of_stmt(rc[0])[0]
        ok = T.xsrc(de, rc[0].args[1], at_) == 'self.request.url' and T.xsrc(de, rc[0].args[2], at_) == 'self.config.debug'
    R.ob('C20.e', de, rc[0] if rc else de.node, ok, text='render(res, self.request.url, self.config.debug)', detail='' if ok else 'the HTML page is not rendered from (error, url, debug)')


def c08_slots(P, k):
    v = k.attrs.get('__slots__')
    try:
        env = {n: vals[0] for n, vals in k.module.assigns.items() if len(vals) == 1}
        val = T.peval(v, env) if v is not None else ()
        return set(val if isinstance(val, (tuple, list)) else [val])
    except T.CannotEval:
        return set()
