"""C17 - Range and conditional requests describe exactly the bytes delivered."""
import ast

from ..astutil import (walk_shallow, dotted, call_attr, short, src, stmt_of, names_loaded, is_const, enclosing,
                       compare_parts, strip_not, const, bool_operands)
from ..loader import AnalysisError
from .. import rules as T

ID = 'C17'
DECIDED = ('(a) in the 206 branch Content-Range, Content-Length and the arguments of the streaming iterator are functions '
           'of one (offset, end) pair unpacked from one get_first_range(<Range header>, <file length>) result: range text '
           'offset / end-1 / length, Content-Length end-offset, iterator (offset, end-offset); a falsy parse result returns '
           '416 first; (b) every pair returned by get_first_range is dominated by 0 <= start < end <= maxlen, its '
           'conversions and unpackings are guarded (no exception escapes), and the three range forms are clipped as '
           'suffix / open / inclusive-to-exclusive (+1); (c) the streaming loop requests min(remaining, maxread) computed '
           'per read, lowers the counter by len(received), stops on an empty read and seeks to the offset first; (d) the '
           'full response carries os.stat(<checked name>).st_size; (e) the 304 response is returned before the file is '
           'opened and carries no body, HEAD gets an empty body; (f) the If-Modified-Since value reaching the comparison '
           'is None or a parsed number, and it is compared with the whole-second modification time.')
DECIDED_MORE = ('Also: every file-delivering answer is dominated by the Range-header test; no naive datetime.timestamp() in parse_date.')
DECIDED = DECIDED + ' ' + DECIDED_MORE
DECIDED_R6 = ('Round 6: the header dictionary is an object of this call; no range form under a guard that contradicts it; HeaderDict.append stores on every returning path.')
DECIDED = DECIDED + ' ' + DECIDED_R6
DECIDED_R7 = ('Round 7: a pre-check of a byte position tolerates the white space int() tolerates; the verb is read from the environ at every use; the (start, end) pair may be handed over whole.')
DECIDED = DECIDED + ' ' + DECIDED_R7
DECIDED_R8 = ("Round 8: the error renderer hands the optional fields of an error to None-tolerant operations only; a method call on the body ('' for HEAD) is under a truth test of it.")
DECIDED = DECIDED + ' ' + DECIDED_R8
DECIDED_R9 = ('Round 9: an iterator-class range body neither positions nor reads the file in `__iter__` (c); the 304 answer is not under a test of the request method (e).')
DECIDED = DECIDED + ' ' + DECIDED_R9
NOT_DECIDED = ('RFC 7233 arithmetic for every header string (integer semantics of the parser over all strings, e.g. multiple '
               'ranges, whitespace, huge numbers); equality of delivered bytes with the file slice at run time.')
ASSUMPTIONS = ['file.read(n) returns at most n bytes', 'email.utils.formatdate emits whole seconds']

SS = 'ombott.static_stream'


def atomic_constraints(test):
    """flatten `a <= b < c` / `x and y` into a set of normalised (left, op, right) strings with op in {<, <=}"""
    out = set()
    for part in bool_operands(test, ast.And):
        if not isinstance(part, ast.Compare):
            out.add(('?', src(part), '?'))
            continue
        left = part.left
        for op, right in zip(part.ops, part.comparators):
            l, r = src(left), src(right)
            if isinstance(op, ast.Lt):
                out.add((l, '<', r))
            elif isinstance(op, ast.LtE):
                out.add((l, '<=', r))
            elif isinstance(op, ast.Gt):
                out.add((r, '<', l))
            elif isinstance(op, ast.GtE):
                out.add((r, '<=', l))
            else:
                out.add((l, type(op).__name__, r))
            left = right
    return out


def check_parser(P, R):
    f = P.func(f'{SS}:get_first_range')
    g, rd = f.cfg, f.rd
    maxlen = f.params[1] if len(f.params) > 1 else 'maxlen'
    rets = [n for n in walk_shallow(f.node) if isinstance(n, ast.Return) and n.value is not None and not
            (isinstance(n.value, ast.Constant) and n.value.value is None)]
    R.require(rets, 'get_first_range returns no pair')
    for r in rets:
        rn = g.node_of_stmt(r)[0]
        v = r.value
        ok = False
        det = 'returned value is not a (start, end) pair of names'
        if isinstance(v, ast.Tuple) and len(v.elts) == 2 and all(isinstance(e, ast.Name) for e in v.elts):
            s, e = v.elts[0].id, v.elts[1].id
            need = {('0', '<=', s), (s, '<', e), (e, '<=', maxlen)}
            det = f'no test 0 <= {s} < {e} <= {maxlen} dominates this return'
            for n in g.nodes:
                if n.kind == 'test' and g.edge_dominates(n, 'true', rn):
                    have = atomic_constraints(n.ast)
                    if need <= have and rd.same_defs(n, rn, s) and rd.same_defs(n, rn, e):
                        ok, det = True, ''
                    elif {(s, '<=', e)} & have or {(e, '<=', s)} & have:
                        det = f'the guarding test `{short(n.ast)}` admits an empty or reversed range ({s} <= {e})'
        R.ob('C17.b', f, r, ok, detail=det,
             why='an empty/reversed/out-of-bounds pair yields 206 with a malformed Content-Range instead of 416')
    # guarded conversions: every int() and every tuple-unpack of split() is inside a try that catches ValueError;
    # subscripts of split() results inside a try that catches IndexError
    for c in walk_shallow(f.node):
        if isinstance(c, ast.Call) and dotted(c.func) == 'int':
            ok = _caught(c, {'ValueError', 'Exception'})
            R.ob('C17.b', f, c, ok, detail='' if ok else 'int() of header text outside try/except ValueError',
                 why='a junk Range header must give 416, not a 500', key_extra='conv')
        if isinstance(c, ast.Assign) and isinstance(c.targets[0], (ast.Tuple, ast.List)) and isinstance(c.value, ast.Call) \
                and call_attr(c.value) == 'split':
            ok = _caught(c, {'ValueError', 'Exception'})
            R.ob('C17.b', f, c, ok, detail='' if ok else 'unpacking of split() outside try/except ValueError', key_extra='unpack')
        if isinstance(c, ast.Subscript) and isinstance(c.ctx, ast.Load) and isinstance(c.value, ast.Call) \
                and call_attr(c.value) == 'split' and not isinstance(c.slice, ast.Slice):
            idx = const(c.slice)
            ok = idx == 0 or _caught(c, {'IndexError', 'LookupError', 'Exception'})
            R.ob('C17.b', f, c, ok, detail='' if ok else 'indexing of split() outside try/except IndexError', key_extra='index')
    # clipping arithmetic of the three forms
    forms = {'suffix': False, 'open': False, 'closed': False}
    unp = [st for st in walk_shallow(f.node) if isinstance(st, ast.Assign) and isinstance(st.targets[0], ast.Tuple) and len(st.targets[0].elts) == 2
           and isinstance(st.value, ast.Call) and call_attr(st.value) == 'split']
    part3 = [st for st in walk_shallow(f.node) if isinstance(st, ast.Assign) and isinstance(st.targets[0], ast.Tuple) and len(st.targets[0].elts) == 3
             and isinstance(st.value, ast.Call) and call_attr(st.value) in ('partition', 'rpartition') and st.value.args and is_const(st.value.args[0], '-')]
    if not unp and part3:
        # start, sep, end = spec.partition('-'): unlike the two-name unpacking of split('-') this never fails, so a spec without '-' must be refused explicitly
        st3 = part3[0]
        sep_t = st3.targets[0].elts[1]
        tested = isinstance(sep_t, ast.Name) and any(n.kind == 'test' and sep_t.id in names_loaded(n.ast) for n in g.nodes)
        R.ob('C17.b', f, st3, tested, text=f'{short(st3)}: a spec without "-" is refused', detail='' if tested else
             'partition() never fails: a range spec without any "-" (`bytes=5`) is taken for the open range `5-` and answered 206 instead of 416',
             why='a junk Range header must give 416', key_extra='partition-sep')
        unp = [ast.Assign(targets=[ast.Tuple(elts=[st3.targets[0].elts[0], st3.targets[0].elts[2]], ctx=ast.Store())], value=st3.value)]
    if not unp:
        # bounds = spec.split('-'); if len(bounds) != 2: return; start, end = bounds
        for st in walk_shallow(f.node):
            if isinstance(st, ast.Assign) and isinstance(st.targets[0], ast.Tuple) and len(st.targets[0].elts) == 2 and isinstance(st.value, ast.Name):
                sn_ = g.node_of_stmt(st)[0]
                defs_ = rd.at(sn_, st.value.id)
                if defs_ and all(isinstance(d.value, ast.Call) and call_attr(d.value) == 'split' and d.value.args and is_const(d.value.args[0], '-') for d in defs_):
                    lens_ok = False
                    for tn in g.nodes:
                        cp_ = compare_parts(tn.ast) if tn.kind == 'test' and tn.ast is not None else None
                        if cp_ and src(cp_[0]) == f'len({st.value.id})' and is_const(cp_[2], 2) and cp_[1] in (ast.Eq, ast.NotEq):
                            if g.edge_dominates(tn, 'true' if cp_[1] is ast.Eq else 'false', sn_):
                                lens_ok = True
                    R.ob('C17.b', f, st, lens_ok, text=f'{short(st)} only when the split gave exactly two pieces', detail='' if lens_ok else
                         'the two-name unpacking of the split is not preceded by a length test: a spec with no or several "-" raises ValueError (500 instead of 416)',
                         why='a junk Range header must give 416, not a 500', key_extra='unpack-len')
                    unp = [st]
    R.require(unp, 'get_first_range: `start, end = <range>.split("-")` not found')
    sname, ename = [e.id for e in unp[0].targets[0].elts]
    pair_values = [st.value for st in walk_shallow(f.node) if isinstance(st, ast.Assign) and isinstance(st.value, ast.Tuple) and len(st.value.elts) == 2]
    # the same pair written as two consecutive assignments `start = A; end = B` (B not reading the new start)
    for holder in ast.walk(f.node):
        for fld in ('body', 'orelse'):
            blk = getattr(holder, fld, None)
            if not isinstance(blk, list):
                continue
            for s1, s2 in zip(blk, blk[1:]):
                if isinstance(s1, ast.Assign) and isinstance(s2, ast.Assign) and len(s1.targets) == 1 and len(s2.targets) == 1 \
                        and isinstance(s1.targets[0], ast.Name) and isinstance(s2.targets[0], ast.Name) and s1.targets[0].id == sname and s2.targets[0].id == ename \
                        and not any(isinstance(x_, ast.Name) and x_.id == sname for x_ in ast.walk(s2.value)):
                    pair_values.append(ast.copy_location(ast.Tuple(elts=[s1.value, s2.value], ctx=ast.Load()), s1))
    for pv in pair_values:
        if True:
            a, b = pv.elts
            sa, sb = src(a), src(b)
            if isinstance(a, ast.Call) and dotted(a.func) == 'max' and sb == maxlen:
                # max(0, maxlen - int(end))
                inner = [src(x) for x in a.args]
                forms['suffix'] = '0' in inner and any(s.replace(' ', '') == f'{maxlen}-int({ename})' for s in inner)
            elif isinstance(a, ast.Call) and dotted(a.func) == 'int' and sb == maxlen:
                forms['open'] = True
            elif isinstance(a, ast.Call) and dotted(a.func) == 'int' and isinstance(b, ast.Call) and dotted(b.func) == 'min':
                inner = [src(x).replace(' ', '') for x in b.args]
                forms['closed'] = maxlen in inner and f'int({ename})+1' in inner
    # a pre-check of the position texts must accept what the list grammar allows around a range-spec: optional white space next to the comma
    # (`bytes=0-5 ,7-9`) ends up inside the text, int() ignores it, a bare isdigit() / pattern test does not
    for x in walk_shallow(f.node):
        if isinstance(x, ast.Call) and call_attr(x) in ('isdigit', 'isdecimal', 'isnumeric', 'fullmatch', 'match'):
            recv = x.func.value if call_attr(x) in ('isdigit', 'isdecimal', 'isnumeric') else (x.args[-1] if x.args else None)
            if recv is None:
                continue
            base = recv
            stripped = False
            while isinstance(base, ast.Call) and isinstance(base.func, ast.Attribute):
                stripped = stripped or base.func.attr in ('strip', 'lstrip', 'rstrip')
                base = base.func.value
            about = isinstance(base, ast.Name) and (base.id in (sname, ename) or any(
                isinstance(c_, (ast.GeneratorExp, ast.ListComp)) and any(isinstance(g_.target, ast.Name) and g_.target.id == base.id and
                                                                           {sname, ename} & names_loaded(g_.iter) for g_ in c_.generators)
                for c_ in ast.walk(f.node)))
            if about:
                R.ob('C17.b', f, x, stripped, text=f'`{short(x)}`: a pre-check of a byte position tolerates the white space int() tolerates', detail='' if stripped else
                     f'`{short(x)}` refuses a position text that int() converts: in `bytes=0-5 ,7-9` the first range-spec is `0-5 ` (optional white space before the comma, allowed '
                     f'by the list grammar), its last position `5 ` is not all digits, and the request is answered 416 instead of 206 for bytes 0-5',
                     why='the first requested range clipped to the file as RFC 7233 defines', key_extra='pos-precheck')
    # ... each under the spelling it belongs to: what is known about the two halves of the spec where a form is computed must not contradict it
    def _truth(atoms, name):
        for (e_, holds_, _t) in atoms:
            if isinstance(e_, ast.Name) and e_.id == name:
                return holds_
            cp_ = compare_parts(e_)
            if cp_ and isinstance(cp_[0], ast.Name) and cp_[0].id == name and isinstance(cp_[2], ast.Constant) and cp_[2].value == '' and cp_[1] in (ast.Eq, ast.NotEq):
                return holds_ != (cp_[1] is ast.Eq)
        return None
    for st in walk_shallow(f.node):
        if isinstance(st, ast.Assign) and isinstance(st.value, ast.Tuple) and len(st.value.elts) == 2:
            a, b = st.value.elts
            sn_ = g.node_of_stmt(st)
            if not sn_:
                continue
            atoms = T.guard_atoms(f, sn_[0])
            if isinstance(a, ast.Call) and dotted(a.func) == 'max' and src(b) == maxlen and _truth(atoms, sname) is True:
                R.ob('C17.b', f, st, False, text=f'{short(st)}: the suffix form, where a first position was given', detail=
                     f'the suffix arithmetic `{short(st.value)}` is applied to a spec that has a first byte position: `bytes=100-200` is answered with the last 200 bytes',
                     why='the first requested range clipped to the file as RFC 7233 defines', key_extra='form-guard-suffix')
            elif isinstance(a, ast.Call) and dotted(a.func) == 'int' and src(b) == maxlen and _truth(atoms, ename) is True:
                R.ob('C17.b', f, st, False, text=f'{short(st)}: the open form, where a last position was given', detail=
                     f'the open-ended arithmetic `{short(st.value)}` is applied to a spec that has a last byte position: `bytes=100-200` is answered up to the end of the file',
                     why='the first requested range clipped to the file as RFC 7233 defines', key_extra='form-guard-open')
    for k, v in forms.items():
        R.ob('C17.b', f, f.node, v, text=f'{k} range form clipped to the file', detail='' if v else
             {'suffix': 'suffix form must be (max(0, maxlen - int(end)), maxlen)',
              'open': 'open form must be (int(start), maxlen)',
              'closed': 'closed form must be (int(start), min(int(end) + 1, maxlen)): inclusive last byte -> exclusive end'}[k],
             why='the first requested range clipped to the file as RFC 7233 defines', key_extra=k)


def _caught(node, names):
    p = getattr(node, '_p', None)
    child = node
    while p is not None and not isinstance(p, (ast.FunctionDef, ast.AsyncFunctionDef)):
        if isinstance(p, ast.Try) and any(child is st for st in p.body):
            for h in p.handlers:
                if h.type is None:
                    return True
                hn = [dotted(e) for e in (h.type.elts if isinstance(h.type, ast.Tuple) else [h.type])]
                if set(hn) & names:
                    return True
        child = p
        p = getattr(p, '_p', None)
    return False


def check_stream(P, R):
    # the range body as an iterator *class*: iter() is called on a response body more than once (by _cast, which peeks the first chunk and chains the rest, and by
    # servers) - `__iter__` must not position or read the file
    m_ = P.module(SS)
    al_ = m_.assigns.get('_file_iter_range')
    if al_ and isinstance(al_[0], ast.Name) and f'{SS}:{al_[0].id}' in P.classes and f'{SS}:_file_iter_range' not in P.funcs:
        K = P.classes[f'{SS}:{al_[0].id}']
        it = K.methods.get('__iter__')
        nx = K.methods.get('__next__')
        if it is not None and nx is not None:
            eff = [c for c in walk_shallow(it.node) if isinstance(c, ast.Call) and isinstance(c.func, ast.Attribute) and c.func.attr in ('seek', 'read', 'readinto', 'truncate', 'close')]
            for c in eff:
                R.ob('C17.c', it, c, False, text=f'`{short(c)}` in {K.name}.__iter__: asking for the iterator again does not move the file', detail=
                     f'`{short(c)}` runs at every iter() of the body: _cast takes the first chunk and then chains the rest (a second iter()), so after the first chunk the file '
                     f'is positioned at the start of the slice again - the chunks that follow repeat bytes already sent while Content-Range / Content-Length announce the slice',
                     why='Content-Range, Content-Length and the delivered bytes describe the same slice', key_extra='iter-repositions')
            if eff:
                return
        R.undecided('C17.c', K.fq, None, '_file_iter_range', f'the range body is the iterator class {K.name}: no recogniser for its read accounting')
        return
    f = P.func(f'{SS}:_file_iter_range')
    g, rd = f.cfg, f.rd
    fp = f.params[0]
    npos = len(f.node.args.args)
    if npos >= 3:
        offset, count = f.params[1], f.params[2]
        maxread = f.params[3] if len(f.params) > 3 else None
    else:
        # the slice may arrive as one (start, end) pair: `offset, end = pair; bytes_len = end - offset`
        R.require(npos == 2, f'{f.fq}: parameters not recognised')
        pair = f.params[1]
        unp = [st for st in f.node.body if isinstance(st, ast.Assign) and isinstance(st.targets[0], ast.Tuple) and len(st.targets[0].elts) == 2
               and isinstance(st.value, ast.Name) and st.value.id == pair and all(isinstance(e, ast.Name) for e in st.targets[0].elts)]
        R.require(len(unp) == 1, f'{f.fq}: `start, end = {pair}` not found')
        offset, end_n = [e.id for e in unp[0].targets[0].elts]
        lens = [st for st in f.node.body if isinstance(st, ast.Assign) and len(st.targets) == 1 and isinstance(st.targets[0], ast.Name)
                and src(st.value).replace(' ', '') == f'{end_n}-{offset}']
        R.require(len(lens) == 1, f'{f.fq}: `<length> = {end_n} - {offset}` not found')
        count = lens[0].targets[0].id
        rebound = [d for ds2 in rd.gen.values() for d in ds2 if d.name in (offset, end_n) and d.stmt is not unp[0]]
        R.ob('C17.c', f, unp[0], not rebound, text=f'{offset}, {end_n} = {pair}; {count} = {end_n} - {offset}', detail='' if not rebound else
             'the bounds taken from the pair are re-bound afterwards', nontrivial=False)
        maxread = f.params[2] if len(f.params) > 2 else None
    loops = [n for n in walk_shallow(f.node) if isinstance(n, ast.While)]
    R.require(len(loops) == 1, f'{f.fq}: expected one loop')
    loop = loops[0]
    counter = T.counter_of_while(loop)
    if counter is not None and counter != count:
        # the count may be kept in a local that starts as a copy of the parameter (which is then left alone)
        hn_ = T.loop_head(g, loop)
        ds_ = [d for d in rd.at(hn_, counter) if d.kind != 'aug']
        if ds_ and all(d.kind == 'assign' and isinstance(d.value, ast.Name) and d.value.id == count and not T._inside(d.stmt, loop.body) for d in ds_) \
                and not any(d.name == count for ds2 in rd.gen.values() for d in ds2 if d.kind != 'param'):
            count = counter
    okc = counter == count
    es = T.early_stop_bound(loop) if counter is None else None
    if es is not None:
        R.ob('C17.c', f, loop.test, False, text=f'while {src(loop.test)}', detail=
             f'the streaming loop gives up while {es[1]} byte(s) of the slice are still outstanding: fewer bytes are delivered than Content-Length / Content-Range announce',
             why='Content-Range, Content-Length and the delivered bytes describe the same slice', key_extra='early-stop')
        return
    cu = T.countup_of_while(loop) if counter is None else None
    if cu is not None:
        return check_stream_countup(P, R, f, loop, cu)
    if counter is None and not T.weak_loop_bound(loop):
        R.undecided('C17.c', f, loop.test, f'while {src(loop.test)}', f'the bound of the streaming loop is not in a form with a recogniser (expected `{count} > 0`)')
        return
    R.ob('C17.c', f, loop.test, okc, text=f'while {src(loop.test)}', detail='' if okc else
         f'the loop is not conditioned on `{count} > 0`', why='without the bound the iterator streams past the requested slice')
    reads = [c for c in walk_shallow(f.node) if isinstance(c, ast.Call) and call_attr(c) == 'read'
             and isinstance(c.func.value, ast.Name) and c.func.value.id == fp]
    R.require(len(reads) >= 1, f'{f.fq}: no read')
    for i, c in enumerate(reads):
        cn = g.node_of_stmt(c)[0]
        arg = c.args[0] if c.args else None
        ok, det = False, 'read() without a size'
        if arg is not None:
            cl = rd.closure(arg, cn, stop=lambda x: isinstance(x, ast.Name) and x.id == count)
            mins = [x for (x, _) in cl if isinstance(x, ast.Call) and dotted(x.func) == 'min']
            det = f'requested size does not derive from min({count}, {maxread})'
            for m in mins:
                names = set()
                for a in m.args:
                    names |= names_loaded(a)
                if count in names and (maxread is None or maxread in names):
                    # freshness: the min() must be evaluated after the last decrement, i.e. in the read's own statement,
                    # or in the loop body when the read is in the loop body
                    in_loop = T.in_body_of(c, loop)
                    if (not in_loop) or T.in_body_of(m, loop):
                        ok, det = True, ''
                    else:
                        det = (f'min({count}, ...) is computed once outside the loop: the last read of a slice that is not a '
                               f'multiple of the buffer over-reads')
        R.ob('C17.c', f, c, ok, detail=det, why='delivered bytes would exceed Content-Length / Content-Range; no chunk larger than the buffer',
             key_extra=f'read#{i}')
    var = None
    for c in reads:
        var = T.assigned_name_of_call(c) or var
    decs = T.decrements_of(loop, counter or count)
    R.ob('C17.c', f, loop, bool(decs), text='counter lowered in loop', detail='' if decs else 'remaining length never lowered')
    for (st, amount) in decs:
        ok = amount is not None and var is not None and T.is_len_of(amount, var)
        R.ob('C17.c', f, st, ok, detail='' if ok else f'counter must be lowered by len({var})')
    # empty read stops: loop condition includes the part's truthiness, or a falsy test leaves
    cond_names = names_loaded(loop.test)
    ok = var in cond_names or bool(T.falsy_tests(g, var, within=loop.body))
    R.ob('C17.c', f, loop.test, ok, text='empty read ends the loop', detail='' if ok else 'an empty read does not end the loop')
    # seek(offset) first
    seeks = [c for c in walk_shallow(f.node) if isinstance(c, ast.Call) and call_attr(c) == 'seek' and c.args
             and isinstance(c.args[0], ast.Name) and c.args[0].id == offset]
    ok = bool(seeks) and all(g.must_pass(g.entry, g.node_of_stmt(r)[0], [g.node_of_stmt(s)[0] for s in seeks]) for r in reads)
    R.ob('C17.c', f, seeks[0] if seeks else f.node, ok, text=f'{fp}.seek({offset}) before reading', detail='' if ok else
         'the file is not positioned at the range offset before reading')
    # the yielded value is the part read
    for y in T.yield_nodes(g):
        yv = [x for x in walk_shallow(y.ast) if isinstance(x, ast.Yield)][0].value
        ok = isinstance(yv, ast.Name) and yv.id == var
        R.ob('C17.c', f, y.ast, ok, detail='' if ok else 'the iterator yields something other than the part read')


def check_stream_countup(P, R, f, loop, cu):
    """the same clauses for `sent = 0; while sent < bytes_len and part: ...; sent += len(part); part = read(min(bytes_len - sent, maxread))`"""
    g, rd = f.cfg, f.rd
    fp, offset, count = f.params[0], f.params[1], f.params[2]
    maxread = f.params[3] if len(f.params) > 3 else None
    limit, recv = cu
    hn = T.loop_head(g, loop)
    rdefs = [d for d in rd.at(hn, recv) if d.kind != 'aug']
    okc = limit == count and all(d.kind == 'param' for d in rd.at(hn, limit)) and bool(rdefs) and all(d.kind == 'assign' and is_const(d.value, 0) for d in rdefs)
    R.ob('C17.c', f, loop.test, okc, text=f'while {src(loop.test)} [{recv} starts at 0]', detail='' if okc else
         f'the loop is not conditioned on `{recv} < {count}` with {recv} starting at 0', why='without the bound the iterator streams past the requested slice')
    reads = [c for c in walk_shallow(f.node) if isinstance(c, ast.Call) and call_attr(c) == 'read' and isinstance(c.func.value, ast.Name) and c.func.value.id == fp]
    R.require(len(reads) >= 1, f'{f.fq}: no read')

    def is_remaining(e, at):
        e = T.expand(f, e, at, keep=(limit, recv))
        if isinstance(e, ast.Name) and e.id == limit:
            # before anything was delivered the remainder is the whole slice
            return all(d.kind == 'assign' and is_const(d.value, 0) for d in rd.at(at, recv)) if rd.at(at, recv) else True
        return isinstance(e, ast.BinOp) and isinstance(e.op, ast.Sub) and isinstance(e.left, ast.Name) and e.left.id == limit \
            and isinstance(e.right, ast.Name) and e.right.id == recv
    for i, c in enumerate(reads):
        cn = g.node_of_stmt(c)[0]
        arg = c.args[0] if c.args else None
        ok, det = False, 'read() without a size'
        if arg is not None:
            ax = T.expand(f, arg, cn, keep=(limit, recv))
            det = f'requested size is not min({count} - {recv}, {maxread}) computed for this read'
            if isinstance(ax, ast.Call) and dotted(ax.func) == 'min':
                has_rem = any(is_remaining(a_, cn) for a_ in ax.args)
                has_buf = maxread is None or any(maxread in names_loaded(a_) for a_ in ax.args)
                # freshness: the arguments are evaluated with the current value of the received counter (no definition of it between)
                ok = has_rem and has_buf
                if ok and isinstance(arg, ast.Name):
                    ds = rd.at(cn, arg.id)
                    ok = all(rd.same_defs(d.node, cn, recv) for d in ds)
                    if not ok:
                        det = f'min({count} - {recv}, ...) is computed before the last update of {recv}: the last read over-reads'
                if ok:
                    det = ''
        R.ob('C17.c', f, c, ok, detail=det, why='delivered bytes would exceed Content-Length / Content-Range; no chunk larger than the buffer', key_extra=f'read#{i}')
    var = None
    for c in reads:
        var = T.assigned_name_of_call(c) or var
    incs = T.increments_of(loop, recv)
    R.ob('C17.c', f, loop, bool(incs), text='counter raised in loop', detail='' if incs else 'delivered length never counted')
    for (st, amount) in incs:
        ok = amount is not None and var is not None and T.is_len_of(amount, var)
        R.ob('C17.c', f, st, ok, detail='' if ok else f'counter must be raised by len({var})')
    cond_names = names_loaded(loop.test)
    ok = var in cond_names or bool(T.falsy_tests(g, var, within=loop.body))
    R.ob('C17.c', f, loop.test, ok, text='empty read ends the loop', detail='' if ok else 'an empty read does not end the loop')
    seeks = [c for c in walk_shallow(f.node) if isinstance(c, ast.Call) and call_attr(c) == 'seek' and c.args and isinstance(c.args[0], ast.Name) and c.args[0].id == offset]
    ok = bool(seeks) and all(g.must_pass(g.entry, g.node_of_stmt(r)[0], [g.node_of_stmt(s)[0] for s in seeks]) for r in reads)
    R.ob('C17.c', f, seeks[0] if seeks else f.node, ok, text=f'{fp}.seek({offset}) before reading', detail='' if ok else
         'the file is not positioned at the range offset before reading')
    for y in T.yield_nodes(g):
        yv = [x for x in walk_shallow(y.ast) if isinstance(x, ast.Yield)][0].value
        ok = isinstance(yv, ast.Name) and yv.id == var
        R.ob('C17.c', f, y.ast, ok, detail='' if ok else 'the iterator yields something other than the part read')


def check_static_file(P, R):
    f = P.func(f'{SS}:static_file')
    g, rd = f.cfg, f.rd
    calls = [c for c in walk_shallow(f.node) if isinstance(c, ast.Call) and dotted(c.func) == 'get_first_range']
    R.require(len(calls) == 1, 'static_file: expected one get_first_range call')
    call = calls[0]
    cn = g.node_of_stmt(call)[0]
    res = T.assigned_name_of_call(call)
    R.require(res, 'get_first_range result is not bound')
    # length argument = st_size of os.stat(checked filename)
    lenarg = call.args[1] if len(call.args) > 1 else None
    cl = rd.closure_nodes(lenarg, cn) if lenarg is not None else []
    ok = any(isinstance(x, ast.Attribute) and x.attr == 'st_size' for x in cl)
    R.ob('C17.a', f, call, ok, text='maxlen argument = stat().st_size', detail='' if ok else 'the parser is not given the file length')
    hdr = call.args[0] if call.args else None
    cl = rd.closure_nodes(hdr, cn) if hdr is not None else []
    ok = any(isinstance(x, ast.Constant) and x.value == 'HTTP_RANGE' for x in cl)
    R.ob('C17.a', f, call, ok, text='header argument = HTTP_RANGE', detail='' if ok else 'the parser is not given the Range header', nontrivial=False)
    # the header set of an answer is built for that answer: the dictionary the per-request headers are written into is created by this call
    hd_names = set()
    for r_ in [n for n in walk_shallow(f.node) if isinstance(n, ast.Return) and isinstance(n.value, ast.Call)]:
        for k_ in r_.value.keywords:
            if k_.arg is None and isinstance(k_.value, ast.Name):
                hd_names.add(k_.value.id)
    for hn_ in sorted(hd_names):
        for d in [d for n in g.nodes for d in rd.gen.get(n, []) if d.name == hn_ and d.kind == 'assign' and d.value is not None]:
            v = d.value
            fresh = isinstance(v, ast.Dict) or (isinstance(v, ast.Call) and (dotted(v.func) in ('dict', 'OrderedDict', 'collections.OrderedDict') or call_attr(v) == 'copy'))
            memo = False
            if isinstance(v, ast.Call) and isinstance(v.func, ast.Name):
                r2 = P.resolve_name(f.module, v.func.id)
                if r2 and r2[0] == 'func':
                    memo = any((dotted(x.func) if isinstance(x, ast.Call) else dotted(x) or '').split('.')[-1] in ('lru_cache', 'cache') for x in r2[1].node.decorator_list)
            if not fresh and not memo:
                R.undecided('C17.a', f, d.stmt, 'static_file headers', f'`{short(v)}` is neither a new dictionary nor the result of a memoised helper')
                continue
            R.ob('C17.a', f, d.stmt, fresh, text=f'`{short(d.stmt)}`: a dictionary of this call', detail='' if fresh else
                 f'`{hn_}` is the object a memoised helper (`{short(v)}`) returns for every call with these arguments, and static_file goes on writing Content-Length, Content-Range, '
                 f'Accept-Ranges into it: after one 206 every later full answer for the same file carries the stale Content-Range',
                 why='Content-Range, Content-Length and the delivered bytes describe the same slice; without a Range header the whole file is delivered', key_extra='headers-fresh')
    # every answer that delivers the file (not 304 / 4xx) is given after the Range header has been looked at
    rtests = [n for n in g.nodes if n.kind == 'test' and n.ast is not None and g.dominates(n, cn) and any(
        isinstance(x, ast.Constant) and x.value == 'HTTP_RANGE' for x in rd.closure_nodes(n.ast, n))]
    if not rtests:
        R.undecided('C17.a', f, call, 'static_file', 'no test of the Range header dominates the range parser call')
    else:
        rt_ = rtests[-1]
        for r_ in [n for n in g.nodes if n.kind == 'stmt' and isinstance(n.ast, ast.Return) and isinstance(n.ast.value, ast.Call)
                   and (dotted(n.ast.value.func) or '').split('.')[-1] == 'HTTPResponse']:
            kws = {k.arg: k.value for k in r_.ast.value.keywords}
            stv = kws.get('status')
            if stv is not None and isinstance(stv, ast.Constant) and stv.value not in (200, None):
                continue          # 304 / 206 are decided elsewhere
            ok = g.dominates(rt_, r_)
            R.ob('C17.a', f, r_.ast, ok, text=f'`{short(r_.ast)}` only after the Range header was examined', detail='' if ok else
                 f'`{short(r_.ast)}` answers before the Range header is looked at: a request with a Range header gets a plain 200 on this path (for an empty file '
                 f'no range is satisfiable, so the answer must be 416), neither 206 nor 416',
                 why='a Range request is answered 206 with the slice or 416, never silently 200', key_extra='range-first')
    # falsy -> 416 before use
    tests = [(n, lab) for (n, lab) in T.falsy_tests(g, res)]
    from .c16 import deny_return
    ok416 = False
    for (n, lab) in tests:
        okd, st = deny_return(g, n, lab, {416})
        if okd:
            ok416 = True
            passlab = 'false' if lab == 'true' else 'true'
            guard416 = (n, passlab)
    R.ob('C17.a', f, call, ok416, text='unsatisfiable range -> 416', detail='' if ok416 else 'a failed parse does not return 416')
    # the pair
    unpacks = [st for st in walk_shallow(f.node) if isinstance(st, ast.Assign) and isinstance(st.targets[0], ast.Tuple)
               and isinstance(st.value, ast.Name) and st.value.id == res and len(st.targets[0].elts) == 2]
    R.require(len(unpacks) == 1, 'static_file: cannot find `offset, end = <range>`')
    un = unpacks[0]
    off, end = [e.id for e in un.targets[0].elts]
    un_node = g.node_of_stmt(un)[0]
    if ok416:
        ok = g.edge_dominates(guard416[0], guard416[1], un_node)
        R.ob('C17.a', f, un, ok, detail='' if ok else 'the pair is unpacked without passing the 416 test')
    clen_name = lenarg.id if isinstance(lenarg, ast.Name) else None

    def same_pair(node):
        return rd.same_defs(un_node, node, off) or all(d.stmt is un for d in rd.at(node, off))

    # Content-Range text
    stores = {}
    for st in walk_shallow(f.node):
        if isinstance(st, ast.Assign):
            for t in st.targets:
                if isinstance(t, ast.Subscript) and isinstance(t.slice, ast.Constant) and isinstance(t.slice.value, str):
                    stores.setdefault(t.slice.value, []).append(st)
    cr = [s for s in stores.get('Content-Range', [])]
    R.require(cr, 'static_file sets no Content-Range')
    for st in cr:
        sn = g.node_of_stmt(st)[0]
        v = T.expand(f, st.value, sn, keep=(off, end, clen_name))
        ok, det = False, 'Content-Range is not an f-string of offset, end-1, length'
        if isinstance(v, ast.JoinedStr):
            vals = [x.value for x in v.values if isinstance(x, ast.FormattedValue)]
            lits = ''.join(str(x.value) for x in v.values if isinstance(x, ast.Constant))
            if len(vals) == 3:
                a, b, c = vals
                okb = (isinstance(b, ast.BinOp) and isinstance(b.op, ast.Sub) and isinstance(b.left, ast.Name)
                       and b.left.id == end and is_const(b.right, 1))
                oka = isinstance(a, ast.Name) and a.id == off
                okc = isinstance(c, ast.Name) and c.id == clen_name
                okl = lits.replace(' ', '') == 'bytes-/'
                ok = oka and okb and okc and okl and all(d.stmt is un for d in rd.at(sn, off) + rd.at(sn, end))
                det = '' if ok else (f'Content-Range must read "bytes {off}-{end}-1/{clen_name}" of the unpacked pair; got `{short(v)}`')
        elif isinstance(v, ast.BinOp) or isinstance(v, ast.Call):
            names = names_loaded(v)
            ok = {off, end, clen_name} <= names and any(isinstance(x, ast.BinOp) and isinstance(x.op, ast.Sub) and is_const(x.right, 1)
                                                         and isinstance(x.left, ast.Name) and x.left.id == end for x in ast.walk(v))
            det = '' if ok else 'Content-Range does not use offset, end-1 and the file length'
        R.ob('C17.a', f, st, ok, detail=det, why='Content-Range names the last byte inclusively: end-1')
    # Content-Length in the range branch
    cls = [s for s in stores.get('Content-Length', []) if g.can_reach(un_node, g.node_of_stmt(s)[0])]
    R.ob('C17.a', f, un, bool(cls), text='Content-Length rewritten for the slice', detail='' if cls else
         'the 206 response keeps the full-file Content-Length')
    for st in cls:
        sn = g.node_of_stmt(st)[0]
        ok = any(isinstance(x, ast.BinOp) and isinstance(x.op, ast.Sub) and isinstance(x.left, ast.Name) and x.left.id == end
                 and isinstance(x.right, ast.Name) and x.right.id == off for x in ast.walk(T.expand(f, st.value, sn, keep=(off, end)))) \
            and all(d.stmt is un for d in rd.at(sn, off) + rd.at(sn, end))
        R.ob('C17.a', f, st, ok, detail='' if ok else f'Content-Length of the 206 response is not {end} - {off}')
    # iterator args
    its = [c for c in walk_shallow(f.node) if isinstance(c, ast.Call) and dotted(c.func) == '_file_iter_range']
    R.require(its, 'static_file does not call _file_iter_range')
    for c in its:
        sn = g.node_of_stmt(c)[0]
        a = [a_ if i_ == 0 else T.expand(f, a_, sn, keep=(off, end)) for i_, a_ in enumerate(c.args)]
        ok = len(a) >= 3 and isinstance(a[1], ast.Name) and a[1].id == off and isinstance(a[2], ast.BinOp) \
            and isinstance(a[2].op, ast.Sub) and src(a[2].left) == end and src(a[2].right) == off \
            and all(d.stmt is un for d in rd.at(sn, off) + rd.at(sn, end))
        if not ok and len(c.args) == 2 and len(P.func(f'{SS}:_file_iter_range').node.args.args) == 2:
            # the (start, end) pair handed over whole: the parser's result itself, or the two names unpacked from it
            a1 = c.args[1]
            ok = (isinstance(a1, ast.Name) and a1.id == res and bool(rd.at(sn, res)) and all(d.value is call for d in rd.at(sn, res))) or \
                (isinstance(a1, ast.Tuple) and [src(e) for e in a1.elts] == [off, end] and all(d.stmt is un for d in rd.at(sn, off) + rd.at(sn, end)))
        R.ob('C17.a', f, c, ok, detail='' if ok else f'the iterator must get ({off}, {end} - {off})')
        # body wrapped only if truthy (HEAD keeps '')
        okb = False
        tst = enclosing(c, ast.If)
        if tst is not None and isinstance(a[0], ast.Name) and isinstance(tst.test, ast.Name) and tst.test.id == a[0].id:
            okb = True
        for (e_, holds_, _t) in ([] if okb else T.guard_atoms(f, sn)):
            # ... or only when the request is known not to be a HEAD (directly or through a flag)
            cp_ = compare_parts(e_)
            if cp_ and any(is_const(x_, 'HEAD') for x_ in (cp_[0], cp_[2])) and ((cp_[1] is ast.Eq and not holds_) or (cp_[1] is ast.NotEq and holds_)):
                okb = True
            if isinstance(e_, ast.Name) and isinstance(a[0], ast.Name) and e_.id == a[0].id and holds_:
                okb = True
        R.ob('C17.e', f, c, okb, text='range iterator only when a body exists', detail='' if okb else
             'the range iterator wraps the body even for HEAD')
    # d: full Content-Length = st_size of stat(filename)
    full = [s for s in stores.get('Content-Length', []) if s not in cls]
    R.ob('C17.d', f, f.node, bool(full), text='full response sets Content-Length', detail='' if full else 'no Content-Length for the 200 response')
    for st in full:
        sn = g.node_of_stmt(st)[0]
        cl = rd.closure_nodes(st.value, sn)
        ok = any(isinstance(x, ast.Attribute) and x.attr == 'st_size' for x in cl) and \
            any(isinstance(x, ast.Call) and dotted(x.func) == 'os.stat' for x in cl)
        R.ob('C17.d', f, st, ok, detail='' if ok else 'Content-Length is not os.stat(name).st_size')
    # e: 304 before open, without body; HEAD
    sinks = [c for c in walk_shallow(f.node) if isinstance(c, ast.Call) and dotted(c.func) == 'open']
    r304 = [n for n in walk_shallow(f.node) if isinstance(n, ast.Return) and isinstance(n.value, ast.Call)
            and any(k.arg == 'status' and is_const(k.value, 304) for k in n.value.keywords)]
    R.require(r304, 'static_file has no 304 return')
    for r in r304:
        rn = g.node_of_stmt(r)[0]
        nobody = not r.value.args and not any(k.arg == 'body' for k in r.value.keywords)
        before = all(not g.can_reach(g.node_of_stmt(s)[0], rn) for s in sinks)
        R.ob('C17.e', f, r, nobody and before, detail='' if nobody and before else
             ('the 304 response is given a body' if not nobody else 'the file is opened before the 304 decision (handle leaked / body attached)'))
        # condition
        tst = enclosing(r, ast.If)
        ok, det = False, 'cannot find the If-Modified-Since comparison'
        if tst is not None:
            test_expr, tn = tst.test, g.nodes_for(tst.test)[0]
            if isinstance(test_expr, ast.Name):
                # the decision was computed into a flag: the definitions that are not the constant False carry the condition
                conds = [d for d in rd.root_defs(tn, test_expr.id) if not (d.value is not None and is_const(d.value, False))]
                if len(conds) == 1 and conds[0].kind == 'assign' and conds[0].value is not None:
                    test_expr, tn = conds[0].value, conds[0].node
            parts = bool_operands(test_expr, ast.And)
            cmp = [p for p in parts if isinstance(p, ast.Compare) and isinstance(p.ops[0], (ast.GtE, ast.LtE, ast.Gt, ast.Lt))]
            nn = [p for p in parts if isinstance(p, ast.Compare) and isinstance(p.ops[0], ast.IsNot) and is_const(p.comparators[0], None)]
            if cmp:
                c0 = cmp[0]
                lhs, op, rhs = c0.left, c0.ops[0], c0.comparators[0]
                ims = lhs if isinstance(lhs, ast.Name) else rhs
                other = rhs if ims is lhs else lhs
                # f: abstract values of ims at the comparison
                defs = rd.at(tn, ims.id) if isinstance(ims, ast.Name) else []
                vals_ok = bool(defs)
                why = ''
                for d in defs:
                    if isinstance(d.value, ast.IfExp):
                        cl_t = rd.closure_nodes(d.value.test, d.node)
                        hdrs = sorted({x.value for x in cl_t if isinstance(x, ast.Constant) and isinstance(x.value, str) and x.value.startswith('HTTP_')} - {'HTTP_IF_MODIFIED_SINCE'})
                        R.ob('C17.f', f, d.value.test, not hdrs, text=f'whether the date is parsed depends on the If-Modified-Since value alone: `{short(d.value.test)}`',
                             detail='' if not hdrs else f'the conditional check is skipped depending on {hdrs}: a request that carries a date not older than the file '
                             f'(together with that header) is answered 200 / 206 instead of 304', why='a date not older than the file must yield 304', key_extra='ims-only')
                    if not value_is_none_or_parsed(d.value):
                        vals_ok = False
                        why = f'`{ims.id}` may still hold `{short(d.value) if d.value is not None else d.kind}` (a str such as the empty header value) at the comparison'
                guard_ok = any(isinstance(p.left, ast.Name) and p.left.id == ims.id for p in nn) or \
                    (isinstance(ims, ast.Name) and T.holds_not_none(T.guard_atoms(f, tn), ims.id))      # the None test may be an enclosing `if`
                okf = vals_ok and guard_ok
                R.ob('C17.f', f, c0, okf, detail='' if okf else (why or 'the comparison is not guarded by `is not None`'),
                     why='an empty / unparsable If-Modified-Since would raise TypeError -> 500')
                other = T.expand(f, other, tn)
                whole = any(isinstance(x, ast.Call) and dotted(x.func) in ('int', 'math.floor') for x in ast.walk(other)) \
                    or any(isinstance(x, ast.BinOp) and isinstance(x.op, ast.FloorDiv) for x in ast.walk(other))
                mt = any(isinstance(x, ast.Attribute) and x.attr == 'st_mtime' for x in ast.walk(other))
                dirok = (isinstance(op, ast.GtE) and ims is lhs) or (isinstance(op, ast.LtE) and ims is rhs)
                R.ob('C17.f', f, c0, whole and mt and dirok, text=f'{short(c0)} [whole seconds, not older]',
                     detail='' if (whole and mt and dirok) else
                     ('the date is compared with the fractional st_mtime although Last-Modified carries whole seconds: a client '
                      'echoing Last-Modified gets 200 instead of 304' if mt and not whole else
                      'the comparison is not `date >= int(st_mtime)`'),
                     why='a date not older than the file must yield 304', key_extra='whole')
    # the Content-Length announced for a HEAD answer (whole file or slice) survives the framework's handling of the empty body
    cast_ = P.func('ombott.ombott:Ombott._cast')
    for st_ in walk_shallow(cast_.node):
        if isinstance(st_, ast.Assign) and any(isinstance(t_, ast.Subscript) and is_const(t_.slice, 'Content-Length') for t_ in st_.targets):
            R.ob('C17.e', cast_, st_, False, detail='_cast overwrites a Content-Length the handler announced (setdefault only fills it in): the HEAD answer of a file '
                 'reports Content-Length: 0 while GET reports the file length', why='HEAD answers carry the same headers as GET', key_extra='cl-overwrite')
    sd_ = [c_ for c_ in walk_shallow(cast_.node) if isinstance(c_, ast.Call) and call_attr(c_) == 'setdefault' and c_.args and is_const(c_.args[0], 'Content-Length')]
    R.ob('C17.e', cast_, sd_[0] if sd_ else cast_.node, bool(sd_), text='_cast only fills in a missing Content-Length (setdefault)', detail='' if sd_ else
         '_cast does not default the Content-Length', nontrivial=False)
    # the verb static_file decides by is the verb of this request: a memo of it (in the environ) survives a change of REQUEST_METHOD and the re-use of the environ
    from . import c02 as _c02
    _c02.check_plain_property(P, R, 'C17.e', 'ombott.request_pkg.props_mixin:PropsMixin.method', 'request.method',
                              'static_file picks the body by the remembered verb while the framework strips HEAD bodies by the live one: after HEAD-then-GET on one environ the '
                              'file is announced with its length and delivered empty, after GET-then-HEAD the file is opened for a HEAD', 'HEAD yields the same headers with no body, GET the body')
    # HEAD -> empty body
    heads = []
    for n in walk_shallow(f.node):
        if isinstance(n, ast.IfExp):
            ns_ = g.node_of_stmt(n)
            tx_ = T.expand(f, n.test, ns_[0]) if ns_ else n.test          # the test may be a flag computed from the method
            if any(isinstance(x, ast.Constant) and x.value == 'HEAD' for x in ast.walk(tx_)):
                heads.append((n, tx_))
    ok = False
    for (h, tx_) in heads:
        cp = compare_parts(tx_)
        if cp and cp[1] is ast.Eq and isinstance(h.body, ast.Constant) and not h.body.value:
            ok = any(isinstance(x, ast.Call) and dotted(x.func) == 'open' for x in ast.walk(h.orelse))
        elif cp and cp[1] is ast.NotEq and isinstance(h.orelse, ast.Constant) and not h.orelse.value:
            ok = True
    if not heads:
        # statement form: wherever the file is opened, `<method> == 'HEAD'` is known to be false (directly or through a flag)
        def not_head(node_):
            for (e_, holds_, _) in T.guard_atoms(f, node_):
                cp_ = compare_parts(e_)
                if cp_ and any(is_const(x_, 'HEAD') for x_ in (cp_[0], cp_[2])):
                    if (cp_[1] is ast.Eq and not holds_) or (cp_[1] is ast.NotEq and holds_):
                        return True
            return False
        ok = bool(sinks) and all(not_head(g.node_of_stmt(s_)[0]) for s_ in sinks)
    R.ob('C17.e', f, heads[0][0] if heads else f.node, ok, text='HEAD -> empty body', detail='' if ok else
         'HEAD requests are given the file body')


def value_is_none_or_parsed(v):
    if v is None:
        return False
    if isinstance(v, ast.Constant):
        return v.value is None
    if isinstance(v, ast.IfExp):
        return value_is_none_or_parsed(v.body) and value_is_none_or_parsed(v.orelse)
    if isinstance(v, ast.Call) and dotted(v.func) == 'parse_date':
        return True
    return False


def check_parse_date(P, R):
    f = P.func('ombott.common_helpers:parse_date')
    mk = [c for c in walk_shallow(f.node) if isinstance(c, ast.Call) and dotted(c.func) in ('time.mktime', 'calendar.timegm')]
    if not mk:
        # the datetime route: email.utils.parsedate_to_datetime() gives a *naive* datetime for a date without a zone (the asctime form of
        # HTTP-date, which names UTC), and naive.timestamp() reads it in the server's local zone
        ts_calls = [c for c in walk_shallow(f.node) if isinstance(c, ast.Call) and call_attr(c) == 'timestamp' and not c.args]
        for c in ts_calls:
            cl = f.rd.closure_nodes(c.func.value, f.cfg.node_of_stmt(c)[0])
            from_p2d = any(isinstance(x, ast.Call) and (dotted(x.func) or '').endswith('parsedate_to_datetime') for x in cl)
            fixed = any(isinstance(x, ast.Call) and call_attr(x) in ('replace', 'astimezone') and any(k.arg == 'tzinfo' for k in x.keywords) for x in cl) or \
                any(isinstance(x, ast.Attribute) and x.attr == 'tzinfo' for x in ast.walk(f.node))
            if from_p2d:
                R.ob('C17.f', f, c, fixed, text=f'`{short(c)}`: a date without a zone is read as UTC', detail='' if fixed else
                     f'`{short(c)}` converts the result of parsedate_to_datetime(): for the zone-less asctime form of an HTTP date that is a naive datetime, and '
                     f'naive.timestamp() interprets it in the server\'s local time zone - on a server east of Greenwich a date equal to the file\'s is parsed too '
                     f'small and the answer is 200 instead of 304',
                     why='an If-Modified-Since date not older than the file yields 304 (all three HTTP-date forms)', key_extra='naive-timestamp')
    R.require(mk, 'parse_date: no mktime/timegm conversion')
    for c in mk:
        a = c.args[0] if c.args else None
        if dotted(c.func) == 'calendar.timegm':
            R.ob('C17.f', f, c, True, text='calendar.timegm (UTC, no DST)')
            continue
        uses_tz = any(isinstance(x, ast.Attribute) and dotted(x) == 'time.timezone' for x in ast.walk(f.node))
        dst0 = isinstance(a, ast.BinOp) and isinstance(a.op, ast.Add) and isinstance(a.right, ast.Tuple) and len(a.right.elts) == 1 and is_const(a.right.elts[0], 0)
        ok = dst0 or not uses_tz
        R.ob('C17.f', f, c, ok, text=f'{short(c)}: tm_isdst forced to 0 (the result is corrected by the non-DST offset time.timezone)', detail='' if ok else
             'mktime() is given the parsed tuple with tm_isdst = -1, so it guesses daylight saving from the local zone, while the correction term subtracts the '
             'non-DST offset: in a DST period every HTTP date parses one hour early and If-Modified-Since equal to the file time compares as older (200 instead of 304)',
             why='a date not older than the file yields 304', key_extra='isdst')


NONE_TOLERANT = {'repr', 'str', 'type', 'isinstance', 'dict', 'format', 'id', 'bool', 'print', 'getattr', 'hasattr'}


def check_error_page_total(P, R, rid):
    """the 416 of static_file is an HTTPError built from a status and a text: its `traceback` and `exception` are None.  The page renderer hands them only to
    operations defined on None, else the 416 leaves the framework as a 500"""
    f = P.maybe_func('ombott.error_render:render')
    if f is None:
        R.undecided(rid, 'ombott.error_render:render', None, 'render', 'the error page renderer was not found')
        return
    g, rd = f.cfg, f.rd
    ep = f.params[0]

    def optional_field(e, at):
        if isinstance(e, ast.Attribute) and e.attr in ('traceback', 'exception') and isinstance(e.value, ast.Name) and e.value.id == ep:
            return e.attr
        if isinstance(e, ast.Name) and rd.is_local(e.id):
            ds = rd.at(at, e.id)
            hit = [optional_field(d.value, d.node) for d in ds if d.kind == 'assign' and d.value is not None]
            hit = [h_ for h_ in hit if h_]
            return hit[0] if hit else None
        return None
    n_ok = 0
    for c in walk_shallow(f.node):
        if not isinstance(c, ast.Call):
            continue
        ns_ = g.node_of_stmt(c)
        if not ns_:
            continue
        at = ns_[0]
        for a in c.args:
            fld = optional_field(a, at)
            if not fld:
                continue
            callee = (dotted(c.func) or '').split('.')[-1]
            atoms = T.guard_atoms(f, at)
            guarded = any(holds_ and (src(e_) == src(a) or (compare_parts(e_) and compare_parts(e_)[1] is ast.IsNot and src(compare_parts(e_)[0]) == src(a))) for (e_, holds_, _t) in atoms)
            in_try = enclosing(c, ast.Try)
            caught = in_try is not None and any(c is x for st in in_try.body for x in ast.walk(st)) and any(
                h.type is None or src(h.type) in ('Exception', 'BaseException') for h in in_try.handlers)
            ok = callee in NONE_TOLERANT or guarded or caught
            n_ok += ok
            R.ob(rid, f, c, ok, text=f'`{short(c)}`: {ep}.{fld} may be None', detail='' if ok else
                 f'`{short(c)}` is given {ep}.{fld}, which is None for an error built from a status and a text (static_file\'s 416): the renderer raises inside _cast and '
                 f'the catch-all answers "500 Critical error" where 416 was due',
                 why='an unsatisfiable Range is answered 416', key_extra=f'none-field:{fld}')
    R.ob(rid, f, f.node, True, text=f'renderer: {n_ok} call(s) take the optional fields of the error, all None-tolerant', nontrivial=False, key_extra='none-field-summary')


def check_conditional_for_every_verb(P, R, rid):
    """HEAD yields what GET yields, without the body: the 304 answer does not depend on the request method"""
    f = P.func(f'{SS}:static_file')
    g = f.cfg
    rets = [n for n in g.nodes if n.kind == 'stmt' and isinstance(n.ast, ast.Return) and isinstance(n.ast.value, ast.Call) and any(
        (k.arg == 'status' and is_const(k.value, 304)) for k in n.ast.value.keywords) or
        (n.kind == 'stmt' and isinstance(n.ast, ast.Return) and isinstance(n.ast.value, ast.Call) and n.ast.value.args and is_const(n.ast.value.args[0], 304))]
    for r in rets:
        bad = None
        for t in g.nodes:
            if t.kind != 'test' or t.ast is None:
                continue
            verb = any((isinstance(x, ast.Attribute) and x.attr == 'method') or (isinstance(x, ast.Constant) and x.value in ('HEAD', 'REQUEST_METHOD', 'GET')) for x in ast.walk(t.ast))
            if not verb:
                tx = T.xsrc(f, t.ast, t) if isinstance(t.ast, ast.Name) else ''
                verb = '.method' in tx or "'HEAD'" in tx
            if verb and (g.edge_dominates(t, 'true', r) or g.edge_dominates(t, 'false', r)):
                bad = t
        R.ob(rid, f, r.ast, bad is None, text=f'`{short(r.ast)}` is answered whatever the request method', detail='' if bad is None else
             f'the 304 answer lies behind `{short(bad.ast)}`: a HEAD request with an If-Modified-Since date not older than the file gets the 200 / 206 headers where GET gets 304',
             why='HEAD yields the same headers with no body', key_extra='304-any-verb')


def check_optional_body_calls(P, R, rid):
    """for HEAD static_file keeps '' where the open file would be: a method call on the body that is not under a truth test fails for HEAD"""
    f = P.func(f'{SS}:static_file')
    g, rd = f.cfg, f.rd

    def may_be_text(v):
        if isinstance(v, ast.IfExp):
            return may_be_text(v.body) or may_be_text(v.orelse)
        return isinstance(v, ast.Constant) and isinstance(v.value, (str, bytes))
    for c in walk_shallow(f.node):
        if not (isinstance(c, ast.Call) and isinstance(c.func, ast.Attribute) and isinstance(c.func.value, ast.Name)):
            continue
        nm = c.func.value.id
        ns_ = g.node_of_stmt(c)
        if not ns_ or not rd.is_local(nm):
            continue
        ds = rd.at(ns_[0], nm)
        if not any(d.value is not None and isinstance(d.value, ast.IfExp) and may_be_text(d.value) for d in ds):
            continue
        if c.func.attr in dir(str) and c.func.attr in dir(bytes):
            continue
        atoms = T.guard_atoms(f, ns_[0])
        guarded = any(holds_ and isinstance(e_, ast.Name) and e_.id == nm for (e_, holds_, _t) in atoms)
        R.ob(rid, f, c, guarded, text=f'`{short(c)}` only where `{nm}` is the open file', detail='' if guarded else
             f'`{short(c)}`: for a HEAD request `{nm}` is the empty text, not a file - the call raises AttributeError and the request is answered 500 instead of the '
             f'416 / 206 / 200 headers', why='HEAD yields the same headers with no body', key_extra='optional-body-call')


def check(P, R):
    R.rule('C17.a', 'one slice, three descriptions', floor=7)
    R.rule('C17.b', 'parser returns clipped ordered pairs, raises nothing', floor=5)
    R.rule('C17.c', 'bounded streaming with received-length accounting', floor=7)
    R.rule('C17.d', 'full response carries the true length', floor=2)
    R.rule('C17.e', '304 / HEAD carry no body', floor=3)
    # the true length reaches the response also when it is 0 (the header dictionary stores every value it is given)
    from . import c14 as _c14
    _c14.check_setters_always_store(P, R, 'C17.d', 'the whole file is delivered with its true length (Content-Length: 0 for an empty file, GET as HEAD)')
    R.rule('C17.f', 'conditional date comparison type-safe and whole-second', floor=3)
    check_parser(P, R)
    check_stream(P, R)
    check_static_file(P, R)
    check_parse_date(P, R)
    check_error_page_total(P, R, 'C17.a')
    check_optional_body_calls(P, R, 'C17.e')
    check_conditional_for_every_verb(P, R, 'C17.e')
