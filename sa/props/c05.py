"""C05 - Chunked transfer decoding is exact and rejects every truncation."""
import ast

from ..astutil import (walk_shallow, dotted, call_attr, short, src, stmt_of, names_loaded, is_const, enclosing,
                       compare_parts, strip_not)
from ..loader import AnalysisError
from .. import rules as T
from . import c04

ID = 'C05'
DECIDED = ('(a) the payload loop requests min(remaining, buffer) per iteration and lowers the counter by len() of the '
           'received part; (b) every read of the stream is checked: an empty size-line byte, an empty payload part and a '
           'wrong chunk terminator each lead only to the parsing error, never to a yield, another read or a normal end; '
           '(c) the decoder has exactly one non-raising exit, dominated by `size == 0` on the parsed hexadecimal size; '
           '(d) the hexadecimal conversion is guarded (ValueError -> parsing error) and the size-line scan is capped by the '
           'buffer size; (e) every RequestError subclass of the package is mapped by errors_map/_raise to a 4xx response '
           'and BodyMixin._body converts reader errors through _raise; (f) no fixed-width read(k>1) is compared with a '
           'k-byte constant (short reads would reject legal encodings).')
DECIDED_MORE = ('Also: escape analysis of the decoder incl. next() on a sentinel iterator and constant indexing of possibly empty text; count-up payload loop.')
DECIDED = DECIDED + ' ' + DECIDED_MORE
DECIDED_R6 = ('Round 6: early-stop bound; unknown length reads limit + 1; empty CONTENT_LENGTH; the RequestError handler of _body hands the caught error to _raise.')
DECIDED = DECIDED + ' ' + DECIDED_R6
DECIDED_R7 = ('Round 7: the parsed views (json, POST) are produced whatever the framing; chunked is recognised as one white-space-stripped item of the Transfer-Encoding list.')
DECIDED = DECIDED + ' ' + DECIDED_R7
DECIDED_R8 = ('Round 8: premises C04.d / C04.e (the body is read whatever the verb, to the end of the framing); both configuration entry points hand the request the merged configuration.')
DECIDED = DECIDED + ' ' + DECIDED_R8
DECIDED_R9 = ('Round 9: the emptiness test of every size-line read stands before the next read on every path (b).')
DECIDED = DECIDED + ' ' + DECIDED_R9
NOT_DECIDED = ('which spellings of the size line int(x, 16) accepts (sign, underscores, 0x prefix): value semantics of the '
               'conversion; equality of decoded payload with the sent payload beyond the loop-invariant premises above.')
ASSUMPTIONS = ['wsgi.input.read(n) returns at most n bytes (PEP 3333)', 'int(b, 16) raises ValueError on non-hex text']

BM = 'ombott.request_pkg.body_mixin'


def errors_map_table(P, R=None):
    """Evaluate DefaultConfig.errors_map: list of (Class, status:int, body_node, value_node)"""
    c = P.cls('ombott.ombott:DefaultConfig')
    node = c.attrs.get('errors_map')
    if not isinstance(node, ast.Dict):
        raise AnalysisError('DefaultConfig.errors_map is not a dict literal')
    out = []
    for k, v in zip(node.keys, node.values):
        name = dotted(k)
        r = P.resolve_name(c.module, name) if name else None
        if not r or r[0] != 'class':
            raise AnalysisError(f'errors_map key `{short(k)}` does not resolve to a package class')
        status = None
        body = None
        if isinstance(v, ast.Call) and dotted(v.func) in ('HTTPError', 'HTTPResponse'):
            if dotted(v.func) == 'HTTPError':
                if v.args:
                    status = T.peval(v.args[0]) if isinstance(v.args[0], ast.Constant) else None
                    body = v.args[1] if len(v.args) > 1 else None
            for kw in v.keywords:
                if kw.arg == 'status' and isinstance(kw.value, ast.Constant):
                    status = kw.value.value
                if kw.arg == 'body':
                    body = kw.value
        out.append((r[1], status, body, v))
    return out


def status_for(P, table, cls, except_cls):
    """status _raise(err_of_class cls, except_cls) produces, or None when unmapped"""
    for k in (cls, except_cls):
        for (c, status, body, v) in table:
            if c is k:
                return status
    return None


HEX = set(map(ord, '0123456789abcdefABCDEF'))


def hex_gates(P, f, int_call):
    """tests in f of the form `PATT.match(x)` / `re.match(lit, x)` with a literal pattern, applied before the hex
    conversion.  Returns [(test_node, ok, detail)].  With int_call given: only gates whose failing edge dominates it."""
    from .. import regexast as RX
    g = f.cfg
    env = {k: v[0] for k, v in f.module.assigns.items() if len(v) == 1}
    out = []
    for n in g.nodes:
        if n.kind != 'test':
            continue
        for c in [x for x in walk_shallow(n.ast) if isinstance(x, ast.Call) and call_attr(x) in ('match', 'fullmatch', 'search')]:
            pat = None
            recv = c.func.value
            if isinstance(recv, ast.Name) and recv.id in env:
                pat = RX.compiled_pattern_arg(env[recv.id])
            elif dotted(recv) == 're' and c.args:
                pat = c.args[0]
            if pat is None:
                continue
            lits = RX.pattern_literal(pat, env)
            if not lits:
                out.append((n, False, f'size-line gate `{short(c)}` uses a pattern that is not a literal'))
                continue
            for lit in lits:
                tree = RX.parse(lit)
                sc = RX.simple_class_repeat(tree) if tree is not None else None
                if sc is None:
                    out.append((n, False, f'size-line gate pattern {lit!r} is not of the form ^[class]+$; cannot show that it admits all hex spellings'))
                    continue
                cs, a0, a1 = sc
                anchored = (a0 or call_attr(c) in ('match', 'fullmatch')) and (a1 or call_attr(c) == 'fullmatch')
                missing = HEX - cs
                extra = cs - HEX
                if missing:
                    out.append((n, False, f'size-line gate {lit!r} rejects legal hex digits {sorted(map(chr, missing))} (hex case / digits)'))
                elif extra or not anchored:
                    out.append((n, False, f'size-line gate {lit!r} admits text int(x, 16) rejects; the conversion needs its ValueError guard'))
                else:
                    out.append((n, True, ''))
    if int_call is not None:
        cn = g.node_of_stmt(int_call)[0]
        out = [x for x in out if g.dominates(x[0], cn)]
    return out


def read_calls_of(fn):
    params = set(fn.params)
    return [c for c in walk_shallow(fn.node) if isinstance(c, ast.Call) and isinstance(c.func, ast.Name) and c.func.id in params]


def _inside_call_to_helper(P, f, c):
    return False


def check_decoder_escapes(P, R, f):
    # only the parsing error escapes the decoder (escape analysis)
    from ..escape import Escapes
    E = Escapes(P)
    req_err_ = P.cls('ombott.request_pkg.errors:RequestError')
    for (cname, origin) in sorted(E.escapes(f)):
        pc = [c for c in P.classes.values() if c.name == cname]
        ok = bool(pc) and P.is_subclass(pc[0], req_err_)
        where = origin.rpartition(' @')[0].split(' ', 1)[-1]
        R.ob('C05.d', f, None, ok, text=f'_iter_chunked may raise {cname} ({where})', detail='' if ok else
             f'{cname} from `{where}` can leave the decoder: it is not a request error, so framing garbage is answered with a 500 instead of a client error',
             why='no framing garbage causes anything but acceptance or a client error', key_extra=f'{cname}:{where}')
    # decoder state is local to the call (size-line buffer, flags): no module-level scratch objects
    from .. import effects as EF
    for w in EF.shared_writes(P, [f]):
        R.ob('C05.d', f, w['node'], False, detail=
             f'the decoder keeps scanning state in the shared location {w["target"]}: two bodies decoded at the same time overwrite each other\'s size digits '
             f'(a truncated body can be accepted as complete)', key_extra='shared:' + w['target'] + w['kind'])



def check(P, R):
    R.rule('C05.a', 'payload loop: bounded request, received-length accounting', floor=2)
    R.rule('C05.b', 'every stream read is checked; failure leads only to the parsing error', floor=4)
    R.rule('C05.c', 'single non-raising exit behind size == 0', floor=3)
    R.rule('C05.d', 'guarded hex conversion, capped size-line scan', floor=2)
    R.rule('C05.e', 'request errors map to 4xx; _body converts through _raise', floor=12)
    R.rule('C05.f', 'no fixed-width read compared with a constant', floor=3)

    f = P.func(f'{BM}:_iter_chunked')
    g, rd = f.cfg, f.rd
    # shape-independent clauses first: what can leave the decoder, and where its state lives
    check_decoder_escapes(P, R, f)
    reads = c04.read_param_calls(f)
    helper_reads = 0
    for hc in [x for x in walk_shallow(f.node) if isinstance(x, ast.Call) and isinstance(x.func, ast.Name) and x.args
               and any(isinstance(a, ast.Name) and a.id == f.params[0] for a in x.args)]:
        r_ = P.resolve_name(f.module, hc.func.id)
        if r_ and r_[0] == 'func':
            helper_reads += len(read_calls_of(r_[1]))
    R.require(len(reads) + helper_reads >= 3, f'{f.fq}: {len(reads)} stream reads found, at least 3 expected (size line, payload, terminator)')

    # ---- a: payload loop
    for n_ in walk_shallow(f.node):
        if isinstance(n_, ast.While) and T.early_stop_bound(n_) and any(T.in_body_of(c, n_) for c in reads):
            es_ = T.early_stop_bound(n_)
            R.ob('C05.a', f, n_.test, False, text=f'while {src(n_.test)}', detail=
                 f'the payload loop gives up while {es_[1]} byte(s) of the chunk are still outstanding: the terminator check then reads payload bytes and a legal body is refused '
                 f'(or the payload is short)', why='the body is exactly the concatenation of the chunk payloads', key_extra='early-stop')
    loops = [n for n in walk_shallow(f.node) if isinstance(n, ast.While) and (T.counter_of_while(n) or T.countup_of_while(n))]
    loops = [l for l in loops if any(T.in_body_of(c, l) and T.loops_of(c)[0] is l for c in reads)]
    R.require(len(loops) == 1, f'{f.fq}: expected one `while remaining > 0` payload loop, found {len(loops)}')
    ploop = loops[0]
    counter = T.counter_of_while(ploop)
    hn = T.loop_head(g, ploop)
    if counter is None:
        # count-up formulation: `delivered = 0; while delivered < chunk_len: ... delivered += len(part)`
        limit, recv_ = T.countup_of_while(ploop)
        rdefs_ = [d for d in rd.at(hn, recv_) if d.kind != 'aug']
        init_ok = bool(rdefs_) and all(d.kind == 'assign' and is_const(d.value, 0) for d in rdefs_)
        R.ob('C05.a', f, ploop.test, init_ok, text=f'{recv_} starts at 0 for every chunk', detail='' if init_ok else f'the received-length counter {recv_} does not start at 0')
        c04.check_bounded_read_loop(R, f, 'C05.', ploop, ('up', limit, recv_), buff_names={'buff_size'}, require_buffer_bound=True, eof_must='raise')
        counter = limit
    else:
        c04.check_bounded_read_loop(R, f, 'C05.', ploop, counter, buff_names={'buff_size'}, require_buffer_bound=True,
                                    eof_must='raise')
    # counter derives from int(..., 16)
    defs = rd.root_defs(hn, counter, kinds=('assign', 'param', 'unpack', 'for', 'with', 'walrus'))
    okc = bool(defs) and all(isinstance(d.value, ast.Call) and dotted(d.value.func) == 'int' and len(d.value.args) == 2
                             and is_const(d.value.args[1], 16) for d in defs)
    R.ob('C05.a', f, ploop.test, okc, text=f'{counter} = int(<size line>, 16)', detail='' if okc else
         f'payload length does not come from int(x, 16): {defs}')

    ys = T.yield_nodes(g)
    # ---- b / f: all reads checked
    for ri, c in enumerate(reads):
        cn = g.node_of_stmt(c)[0]
        var = T.assigned_name_of_call(c)
        width = c.args[0].value if c.args and isinstance(c.args[0], ast.Constant) else None
        if var is not None:
            if T.in_body_of(c, ploop):
                continue  # payload read: covered by C05.c-clause of the loop (reported under C05.c by the shared routine)
            tests = T.falsy_tests(g, var)
            if not tests:
                # or: the bytes read are compared with a non-empty constant and a mismatch leads only to the parsing error
                cmp_ok = False
                for tn in g.nodes:
                    if tn.kind != 'test' or var not in names_loaded(tn.ast) or not any(d_.value is c for d_ in rd.at(tn, var)):
                        continue
                    t_, neg_ = strip_not(tn.ast)
                    cp_ = compare_parts(t_)
                    if not cp_ or cp_[1] not in (ast.Eq, ast.NotEq):
                        continue
                    side = cp_[2] if var in names_loaded(cp_[0]) else cp_[0]
                    try:
                        kv = T.ceval(f, T.expand(f, side, tn))
                    except T.CannotEval:
                        continue
                    if not (isinstance(kv, (bytes, str)) and len(kv) > 0):
                        continue
                    mism = ('false' if neg_ else 'true') if cp_[1] is ast.NotEq else ('true' if neg_ else 'false')
                    reach = g.reachable_from(T.succ_by_label(tn, mism))
                    if g.exit not in reach and not any(y in reach for y in ys) and not any(n in reach for r2 in reads for n in g.node_of_stmt(r2)):
                        cmp_ok = True
                        R.ob('C05.b', f, tn.ast, True, text=f'if {short(tn.ast)} [mismatch with the expected bytes = end of stream or bad terminator]',
                             key_extra=f'cmp:{var}')
                if not cmp_ok:
                    R.ob('C05.b', f, c, False, detail=f'result `{var}` of the read is never tested for emptiness',
                         why='a truncated encoding would be scanned for ever or accepted')
            if tests:
                # ... and the test stands in front of the next read on every path: a byte that is not looked at for emptiness lets the scan go round for ever
                tnodes = [tn for (tn, lab) in tests]
                nxt_reads = [n for r2 in reads for n in g.node_of_stmt(r2)]
                skipped = [m for (s_, lab_) in cn.succ if lab_ != 'exc' and s_ not in tnodes for m in nxt_reads if m in g.reachable_from([s_], avoid_nodes=tnodes)]
                R.ob('C05.b', f, c, not skipped, text=f'`{short(c)}`: the emptiness test of `{var}` stands before the next read on every path', detail='' if not skipped else
                     f'after `{short(c)}` the next read (`{short(skipped[0].ast)}`) can be reached without `{var}` having been tested for emptiness: at the end of a truncated '
                     f'stream read() keeps returning b\'\' and the scan never ends - the request is neither accepted nor refused',
                     why='an encoding cut short anywhere is rejected as a client error', key_extra=f'eof-before-next-read:{var}')
            for (tn, lab) in tests:
                succ = T.succ_by_label(tn, lab)
                reach = g.reachable_from(succ)
                bad = (g.exit in reach) or any(y in reach for y in ys) or any(
                    n in reach for r2 in reads for n in g.node_of_stmt(r2))
                R.ob('C05.b', f, tn.ast, not bad, text=f'if {short(tn.ast)} [{lab}-edge = end of stream]',
                     detail='' if not bad else 'after end of stream the decoder can still finish normally, yield or read',
                     why='an encoding cut short inside a size line must be rejected, not taken for the last chunk')
        else:
            # read used inside an expression: must be (part of) a comparison with a constant whose mismatch edge raises
            if _inside_call_to_helper(P, f, c):
                continue
            st = stmt_of(c)
            tn = [n for n in g.node_of_stmt(c) if n.kind == 'test']
            if not tn:
                R.ob('C05.b', f, c, False, detail='result of read() is neither bound nor tested',
                     why='the chunk terminator would not be verified')
                continue
            tn = tn[0]
            t, neg = strip_not(tn.ast)
            cp = compare_parts(t)
            ok = False
            det = 'read() result is not compared with the expected constant'
            if cp:
                a, op, b = cp
                mism = None
                if op is ast.NotEq:
                    mism = 'false' if neg else 'true'
                elif op is ast.Eq:
                    mism = 'true' if neg else 'false'
                if mism:
                    reach = g.reachable_from(T.succ_by_label(tn, mism))
                    ok = g.exit not in reach and not any(y in reach for y in ys) and not any(
                        n in reach for r2 in reads for n in g.node_of_stmt(r2))
                    det = '' if ok else 'a wrong/missing chunk terminator does not lead to the parsing error only'
            R.ob('C05.b', f, tn.ast, ok, text=f'if {short(tn.ast)}', detail=det,
                 why='a chunk whose data is not followed by CRLF must be rejected (shifted body)', key_extra='terminator')
        # f: width
        if width is not None and width > 1:
            # compared with a constant of that length?
            st_nodes = g.node_of_stmt(c)
            cmp = enclosing(c, ast.Compare)
            bad = cmp is not None
            if var is not None:
                bad = any(isinstance(x, ast.Compare) and var in names_loaded(x) for x in walk_shallow(f.node))
            R.ob('C05.f', f, c, not bad, detail='' if not bad else
                 f'read({width}) may legally return fewer than {width} bytes; comparing it with a {width}-byte constant '
                 f'rejects a legal encoding on a stream that fragments reads',
                 why='property quantifies over read fragmentation', key_extra=f'read#{ri}')
        else:
            R.ob('C05.f', f, c, True, nontrivial=False, key_extra=f'read#{ri}')

    # the chunk terminator may be verified by a package helper that is given the stream
    for hc in [x for x in walk_shallow(f.node) if isinstance(x, ast.Call) and isinstance(x.func, ast.Name) and x.args
               and any(isinstance(a, ast.Name) and a.id == f.params[0] for a in x.args)]:
        r_ = P.resolve_name(f.module, hc.func.id)
        if not (r_ and r_[0] == 'func'):
            continue
        hf = r_[1]
        hg = hf.cfg
        hreads = read_calls_of(hf)
        # in the caller the helper's falsy result must lead only to the parsing error
        tn = [n for n in g.node_of_stmt(hc) if n.kind == 'test']
        okc = False
        if tn:
            t_, neg_ = strip_not(tn[0].ast)
            lab_ = 'true' if neg_ else 'false'
            reach = g.reachable_from(T.succ_by_label(tn[0], lab_))
            okc = g.exit not in reach and not any(y in reach for y in ys)
        R.ob('C05.b', f, hc, okc, text=f'{short(hc)}: a failed terminator check leads only to the parsing error', detail='' if okc else
             'the result of the terminator helper is not checked', key_extra='helper-result')
        # inside the helper every comparison of a byte read with its expected constant must reject on mismatch
        for n in hg.nodes:
            if n.kind != 'test':
                continue
            cp = compare_parts(strip_not(n.ast)[0])
            if not (cp and cp[1] in (ast.Eq, ast.NotEq) and isinstance(cp[0], ast.Name)):
                continue
            if not any(dd.value in hreads for dd in hf.rd.at(n, cp[0].id)):
                continue
            mism = 'false' if (cp[1] is ast.Eq) != strip_not(n.ast)[1] else 'true'
            reach = hg.reachable_from(T.succ_by_label(n, mism))
            rets_ = [m for m in reach if m.kind == 'stmt' and isinstance(m.ast, ast.Return)]
            okh = bool(rets_) and all(is_const(m.ast.value, False) for m in rets_) or (not rets_ and hg.exit not in reach)
            R.ob('C05.b', hf, n.ast, okh, text=f'{hf.name}: `{short(n.ast)}` - a wrong byte is rejected', detail='' if okh else
                 f'when the byte read is not the expected one the helper can still report success (it goes on to `{short(rets_[0].ast) if rets_ else "?"}`): '
                 f'the CR of the chunk terminator becomes optional, so data followed by a bare LF is accepted',
                 why='a chunk whose data is not followed by CRLF is rejected', key_extra='helper-byte')

    # ---- c: single normal exit
    ztests = []
    for n in g.nodes:
        if n.kind != 'test':
            continue
        cp = compare_parts(n.ast)
        if cp and cp[1] is ast.Eq and isinstance(cp[0], ast.Name) and is_const(cp[2], 0):
            cl = rd.closure_nodes(cp[0], n)
            if any(isinstance(x, ast.Call) and dotted(x.func) == 'int' and len(x.args) == 2 and is_const(x.args[1], 16) for x in cl):
                ztests.append(n)
        elif cp and cp[1] is ast.Eq and isinstance(cp[2], ast.Name) and is_const(cp[0], 0):
            ztests.append(n)
    t, neg = None, None
    ok = bool(ztests) and any(g.edge_dominates(z, 'true', g.exit) for z in ztests)
    if not ok and ztests:
        # the zero-size branch may raise a flag that ends the outer loop (`while not last_chunk_seen`): path-sensitive dominance
        from ..paths import Explorer
        X = Explorer(f, P)
        ok = any(X.edge_dominates(z, 'true', g.exit) for z in ztests)
    R.ob('C05.c', f, ztests[0].ast if ztests else f.node, ok,
         text='normal end of the decoder is dominated by `<parsed size> == 0`',
         detail='' if ok else 'the decoder can end normally without having seen the zero-size chunk',
         why='a body cut before its terminating chunk would be presented as complete')
    # no `return` / fallthrough elsewhere: every pred of exit is the outer-loop break
    for (p, lab) in g.exit.pred:
        if p.kind == 'stmt' and isinstance(p.ast, ast.Return):
            okr = any(g.edge_dominates(z, 'true', p) for z in ztests)
            R.ob('C05.c', f, p.ast, okr, detail='' if okr else 'return outside the zero-size-chunk branch')

    # ---- d: guarded conversion + capped scan
    ints = [c for c in walk_shallow(f.node) if isinstance(c, ast.Call) and dotted(c.func) == 'int']
    R.require(ints, f'{f.fq}: no int() conversion of the size line')
    for c in ints:
        tr = enclosing(c, ast.Try)
        ok = False
        det = 'int() of client data is neither inside try/except ValueError nor behind a gate proven to admit exactly hex digits'
        if tr is not None and any(c is x for st in tr.body for x in ast.walk(st)):
            for h in tr.handlers:
                names = [dotted(e) for e in (h.type.elts if isinstance(h.type, ast.Tuple) else [h.type])] if h.type else ['*']
                if any(nm in ('ValueError', 'Exception', '*') for nm in names):
                    hn2 = g.nodes_for(h)[0]
                    reach = g.reachable_from(hn2)
                    ok = g.exit not in reach and not any(y in reach for y in ys)
                    det = '' if ok else 'the ValueError handler does not end in the parsing error'
        else:
            gate = hex_gates(P, f, c)
            if gate:
                ok = all(x[1] for x in gate)
                det = '' if ok else '; '.join(x[2] for x in gate if not x[1])
        R.ob('C05.d', f, c, ok, detail=det, why='garbage in the size line must be a client error, not an escaping ValueError / accepted body')
    # any regular-expression gate on the size field must admit every legal spelling (both hex cases)
    for (tn, okg, detg) in hex_gates(P, f, None):
        R.ob('C05.d', f, tn.ast, okg, detail=detg, why='the property requires every legal chunking, any hex case',
             key_extra='gate')
    # cap: a test mentioning buff_size inside the size-line loop whose one edge leads only to raise
    size_reads = [c for c in reads if not T.in_body_of(c, ploop) and T.assigned_name_of_call(c)]
    capped = False
    cap_node = None
    for n in g.nodes:
        if n.kind == 'test' and 'buff_size' in names_loaded(T.expand(f, n.ast, n)) and any(
                T.loops_of(c) and T._inside(n.ast, T.loops_of(c)[0].body) for c in size_reads):
            for lab in ('true', 'false'):
                reach = g.reachable_from(T.succ_by_label(n, lab))
                if reach and g.exit not in reach and not any(y in reach for y in ys) and not any(
                        m in reach for r2 in reads for m in g.node_of_stmt(r2)):
                    capped = True
                    cap_node = n
    R.ob('C05.d', f, cap_node.ast if cap_node else f.node, capped, text='size-line scan capped by buff_size',
         detail='' if capped else 'no bound on the number of bytes scanned for a size line')

    # what feeds the decoder / consumes its output: without a (usable) Content-Length the chunked body is decoded, and the parsed views read one byte more than
    # the threshold so that an oversized chunked body is refused instead of being cut to the threshold (premises shared with C04.e / C13.e)
    from ..report import Sub
    c04.check_content_length(P, Sub(R, why='every legal chunked request is decoded: a missing or empty Content-Length is not an error'), 'C05.e')
    from . import c13 as _c13
    _c13.check_get_body_string(P, Sub(R, why='a partial body is never presented as complete: a chunked form longer than the threshold is refused, not truncated'), 'C05.c')
    # the parsed views of the body do not depend on the framing either (content_length is -1 for every chunked request)
    from . import c18 as _c18
    for fq_, what_ in ((f'{BM}:BodyMixin.json', 'request.json'), (f'{BM}:BodyMixin.POST', 'request.POST (urlencoded / JSON branch)')):
        _c18.check_view_guards(P, R, 'C05.c', fq_, lambda c: dotted(c.func) in ('self._get_body_string', 'parse_qsl'), what_,
                               'the body presented to the application is the concatenation of the chunk payloads - also through its parsed views')
    check_chunked_flag(P, R, 'C05.e')
    # the accumulation of the decoded parts and the cached body are the ones of C04 (both framings go through _body_read / _body): the part loop runs until the
    # decoder is exhausted - which is where a missing terminator is noticed - and the body a request presents always comes from it, whatever the verb
    from ..report import run_premise
    run_premise(R, c04, P, {'C04.d', 'C04.e'}, 'C05.c',
                'a chunked body is the concatenation of all chunk payloads, and an encoding cut short before its terminating chunk is rejected - under every verb and content type')
    # ---- e: mapping of request errors
    check_errors_mapping(P, R, 'C05.e')
    check_raise_and_body(P, R, 'C05.e')


def check_chunked_flag(P, R, rid):
    """`request.chunked` recognises the coding wherever it stands in the Transfer-Encoding list: a substring test of the lower-cased header, or a membership
    test over the items of the list *with the optional white space around them removed*"""
    f = P.func(f'{BM}:BodyMixin.chunked')
    for (v, at, rst) in T.result_values(f):
        if v is None:
            continue
        vx = T.expand(f, v, at)
        for x in ast.walk(vx):
            cp = compare_parts(x) if isinstance(x, ast.Compare) else None
            if not (cp and cp[1] in (ast.In, ast.Eq) and is_const(cp[0], 'chunked') or (cp and cp[1] is ast.Eq and is_const(cp[2], 'chunked'))):
                continue
            other = cp[2] if is_const(cp[0], 'chunked') else cp[0]
            splits = [y for y in ast.walk(other) if isinstance(y, ast.Call) and call_attr(y) in ('split', 'rsplit', 'partition', 'rpartition')]
            lowered = any(isinstance(y, ast.Call) and call_attr(y) in ('lower', 'casefold') for y in ast.walk(other))
            R.ob(rid, f, rst, lowered, text='the coding name is compared case-insensitively', detail='' if lowered else
                 'Transfer-Encoding: Chunked (any other case) is not recognised', key_extra='te-case', nontrivial=False)
            if splits:
                stripped = any(isinstance(y, ast.Call) and call_attr(y) == 'strip' for y in ast.walk(other))
                whole = cp[1] is ast.Eq
                ok = stripped and not whole
                R.ob(rid, f, rst, ok, text='items of the Transfer-Encoding list are compared without the white space around them', detail='' if ok else
                     f'`{short(x)}` compares the name with the raw pieces of `{short(splits[0])}`: in `Transfer-Encoding: gzip, chunked` the piece is " chunked" and is not '
                     f'recognised, so the chunk framing itself is handed to the application as the body (or the body comes back empty)',
                     why='for every legal chunked request the body is the concatenation of the chunk payloads', key_extra='te-items')
            elif cp[1] is ast.Eq:
                R.ob(rid, f, rst, False, text='chunked is recognised as one coding of a list', detail=
                     f'`{short(x)}` compares the whole header value: `gzip, chunked` is not recognised as chunked',
                     why='for every legal chunked request the body is the concatenation of the chunk payloads', key_extra='te-items')


def check_errors_mapping(P, R, rid):
    """every RequestError subclass is answered 4xx by _raise(err, RequestError): through an entry for its own class, else through the RequestError
    entry (the lookup is by exact class, it does not walk the hierarchy)"""
    table = errors_map_table(P)
    req_err = P.cls('ombott.request_pkg.errors:RequestError')
    subs = [c for c in P.classes.values() if P.is_subclass(c, req_err)]
    R.require(len(subs) >= 3, f'only {len(subs)} RequestError subclasses found')
    for c in sorted(subs, key=lambda c: c.fq):
        # _raise(err, RequestError): own class first, then the fallback class
        status = status_for(P, table, c, req_err)
        ok = isinstance(status, int) and 400 <= status <= 499
        R.ob(rid, c.module.name + ':' + c.qual, None, ok, text=f'{c.name} -> {status}',
             detail='' if ok else f'{c.name} is not mapped to a 4xx response by errors_map (got {status}): _raise looks up the exact class and then the fallback '
             f'class only, so the error is re-raised as it is and answered 500',
             why='a malformed body must be answered as a client error')
    check_config_reaches_request(P, R, rid)


def check_config_reaches_request(P, R, rid):
    """the table above is DefaultConfig's: the request object has it only if both configuration entry points of the application hand the *merged* configuration
    (the value stored in self.config) to the request - RequestConfig's own default errors_map is empty"""
    app = P.cls('ombott.ombott:Ombott')
    seen = 0
    for mname in ('__init__', 'setup'):
        m = app.methods.get(mname)
        if m is None:
            continue
        g, rd = m.cfg, m.rd
        merged = [st for st in walk_shallow(m.node) if isinstance(st, ast.Assign) and any(dotted(t) == 'self.config' for t in st.targets)]
        for c in walk_shallow(m.node):
            if not isinstance(c, ast.Call):
                continue
            arg = None
            if dotted(c.func) == 'self.request.setup' and c.args:
                arg = c.args[0]
            elif dotted(c.func) in ('Request', 'BaseRequest'):
                arg = next((k.value for k in c.keywords if k.arg == 'config'), c.args[1] if len(c.args) > 1 else None)
                if arg is None:
                    continue
            if arg is None:
                continue
            seen += 1
            cn = g.node_of_stmt(c)[0]
            ok = False
            if merged:
                mv = merged[0].value
                if isinstance(arg, ast.Name):
                    ds = rd.root_defs(cn, arg.id)
                    ok = bool(ds) and all(d.value is mv or (d.node is not None and getattr(d.node, 'ast', None) is merged[0]) for d in ds)
                    if not ok and isinstance(mv, ast.Name):
                        # `cfg = DefaultConfig(config); self.config = cfg; Request(config=cfg)`
                        mn_ = g.node_of_stmt(merged[0])[0]
                        ds2 = rd.root_defs(mn_, mv.id)
                        ok = bool(ds) and {id(d) for d in ds} == {id(d) for d in ds2} and all(
                            isinstance(d.value, ast.Call) and (dotted(d.value.func) or '').split('.')[-1] in ('DefaultConfig', 'get_from') for d in ds)
                elif src(arg) == 'self.config':
                    ok = g.edge_dominates is not None and g.must_pass(g.entry, cn, [g.node_of_stmt(merged[0])[0]])
            R.ob(rid, m, c, ok, text=f'`{short(c)}` receives the merged configuration stored in self.config', detail='' if ok else
                 f'`{short(c)}` does not receive the value stored in self.config (`{short(merged[0]) if merged else "?"}`): the request is configured from the caller\'s partial '
                 f'settings, RequestConfig fills the gaps with its own defaults, and its errors_map is empty - RequestError / BodySizeError / BodyParsingError are re-raised '
                 f'unmapped and answered 500',
                 why='a malformed body must be answered as a client error', key_extra='merged-config')
    R.require(seen >= 2, f'configuration hand-over to the request: {seen} sites found, 2 confirmed by hand')


def check_raise_and_body(P, R, rid):
    """BaseRequest._raise consults errors_map for (err.__class__, except_class) in that order and raises the mapped
    response; BodyMixin._body wraps the reader in `except RequestError` -> self._raise(err, RequestError)."""
    f = P.func('ombott.request_pkg.request:BaseRequest._raise')
    g, rd = f.cfg, f.rd
    fors = [n for n in walk_shallow(f.node) if isinstance(n, ast.For)]
    ok = False
    det = '_raise does not iterate (err.__class__, except_class)'
    if fors:
        it = fors[0].iter
        if isinstance(it, (ast.Tuple, ast.List)) and len(it.elts) == 2:
            first, second = it.elts
            ok = (src(first) in ('err.__class__', 'type(err)') and isinstance(second, ast.Name)
                  and second.id == f.params[2] if len(f.params) > 2 else False)
            if not ok:
                det = f'lookup order is {short(it)}: the specific class must be tried before the fallback class'
    if not fors:
        # the same two lookups written as `errors_map.get(err.__class__) or errors_map.get(except_class)`
        for x in walk_shallow(f.node):
            if isinstance(x, ast.BoolOp) and isinstance(x.op, ast.Or) and len(x.values) == 2 and all(
                    isinstance(v, ast.Call) and call_attr(v) == 'get' and len(v.args) == 1 for v in x.values):
                first, second = x.values[0].args[0], x.values[1].args[0]
                ok = (src(first) in ('err.__class__', 'type(err)') and isinstance(second, ast.Name)
                      and second.id == f.params[2] if len(f.params) > 2 else False)
                if not ok:
                    det = f'lookup order is ({short(first)}, {short(second)}): the specific class must be tried before the fallback class'
    R.ob(rid, f, fors[0] if fors else f.node, ok, detail='' if ok else det,
         why='with the fallback first, BodySizeError (413) is shadowed by the generic 400')
    # the lookups use config.errors_map .get(<loop var>)
    gets = [c for c in walk_shallow(f.node) if isinstance(c, ast.Call) and call_attr(c) == 'get']
    ok = False
    for c in gets:
        cn = g.node_of_stmt(c)[0]
        cl = rd.closure_nodes(c.func.value, cn)
        if any(isinstance(x, ast.Attribute) and x.attr == 'errors_map' for x in cl):
            ok = True
    R.ob(rid, f, gets[0] if gets else f.node, ok, text='errors_map.get(<class>)', detail='' if ok else
         '_raise does not consult config.errors_map')
    # every raise statement raises either the mapped value or the original
    raises = [n for n in walk_shallow(f.node) if isinstance(n, ast.Raise)]
    R.require(raises, '_raise has no raise')
    for r in raises:
        rn = g.node_of_stmt(r)[0]
        cl = rd.closure_nodes(r.exc, rn) if r.exc is not None else []
        ok = any(isinstance(x, ast.Call) and call_attr(x) == 'get' for x in cl)
        if not ok and isinstance(r.exc, ast.Name) and r.exc.id == f.params[1] and all(d.kind == 'param' for d in rd.at(rn, r.exc.id)) \
                and fors and not T._inside(r, fors[0].body):
            # the original error, raised once both lookups found nothing (after the loop)
            mapped = [r2 for r2 in raises if r2 is not r and any(isinstance(x, ast.Call) and call_attr(x) == 'get'
                                                                 for x in rd.closure_nodes(r2.exc, g.node_of_stmt(r2)[0]))]
            ok = bool(mapped) and all(T._inside(r2, fors[0].body) for r2 in mapped)
        R.ob(rid, f, r, ok, detail='' if ok else 'the raised object does not derive from the errors_map lookup')
    # normal exit impossible: _raise always raises
    ok = not f.cfg.exit.pred
    R.ob(rid, f, f.node, ok, text='_raise never returns', detail='' if ok else '_raise can return normally: callers fall through')

    fb = P.cls('ombott.request_pkg.body_mixin:BodyMixin').methods.get('_body')
    R.require(fb is not None, 'BodyMixin._body not found')
    calls = [c for c in walk_shallow(fb.node) if isinstance(c, ast.Call) and dotted(c.func) == '_body_read']
    R.require(calls, 'BodyMixin._body does not call _body_read')
    for c in calls:
        tr = enclosing(c, ast.Try)
        ok = False
        det = '_body_read() is not inside try/except RequestError'
        if tr is not None and any(c is x for st in tr.body for x in ast.walk(st)):
            for h in tr.handlers:
                names = [dotted(e) for e in (h.type.elts if isinstance(h.type, ast.Tuple) else [h.type])] if h.type else []
                if 'RequestError' in names and h.name:
                    rc = [x for st in h.body for x in walk_shallow(st) if isinstance(x, ast.Call) and dotted(x.func) == 'self._raise']
                    if rc and rc[0].args and isinstance(rc[0].args[0], ast.Name) and rc[0].args[0].id == h.name \
                            and len(rc[0].args) > 1 and dotted(rc[0].args[1]) == 'RequestError':
                        hn = fb.cfg.nodes_for(h)[0]
                        reach = fb.cfg.reachable_from(hn)
                        # the handler must not fall through to the normal path unless _raise is called first on every path
                        rn = [fb.cfg.node_of_stmt(x)[0] for x in rc]
                        ok = fb.cfg.must_pass(hn, fb.cfg.exit, rn)
                        det = '' if ok else 'the RequestError handler can complete without calling self._raise(err, RequestError)'
                    else:
                        det = 'the RequestError handler does not call self._raise(<caught error>, RequestError)'
        R.ob(rid, fb, c, ok, detail=det, why='reader errors (400 / 413) would otherwise surface as 500')
    # chunked flag forwarded
    for c in calls:
        kws = {k.arg: k.value for k in c.keywords}
        ok = 'chunked' in kws and T.xsrc(fb, kws['chunked']) == 'self.chunked'
        R.ob(rid, fb, c, ok, text='chunked=self.chunked', detail='' if ok else 'the chunked flag is not forwarded to the reader',
             nontrivial=False)
