"""C19 - Building a URL from matched parameters leads back to the same match."""
import ast

from ..astutil import (walk_shallow, dotted, call_attr, short, src, stmt_of, names_loaded, is_const, enclosing,
                       compare_parts, strip_not, const, bool_operands)
from ..loader import AnalysisError
from .. import rules as T
from .. import regexast as RX

ID = 'C19'
TECHNIQUE = ('regex-shape query on the filter masks vs. the validation call shape; table exhaustiveness of converter/formatter '
             'pairs; linear-equality abstract interpretation (Karr-style) of the marker loop of Route.url to check an inductive '
             'invariant on its slice bookkeeping')
DECIDED = ('(a) a built value is validated in the context the matcher will see: when a filter mask may look ahead at the '
           'following literal, url() applies the filter to the value followed by that literal, and the validation accepts a '
           'value by the consumed length (> 0), not by the truthiness of the converted value; (b) every filter that converts '
           'the type (int, float) has a formatter that is str(<same conversion>(x)) - the shortest text that converts back to '
           'the same value - and url() applies formatter then validation, consuming one name / filter index per marker; (c) '
           'the marker loop of url() keeps the inductive invariant literal_start + literal_length == current index: each '
           'wildcard emits exactly the literal pattern_out[literal_start:index] before the value and restarts the literal '
           'after the marker, and the trailing literal is emitted after the loop - checked by propagating linear equalities '
           'over the three paths of the loop body.')
DECIDED_MORE = ('Also: the URL parts are collected in a list created by the call.')
DECIDED = DECIDED + ' ' + DECIDED_MORE
DECIDED_R6 = ('Round 6: the trailing literal is emitted whenever it is not empty; the following literal reaches the validation call on every path; the params filter tests the name only.')
DECIDED = DECIDED + ' ' + DECIDED_R6
DECIDED_R7 = ('Round 7: premises from the matcher (C01.c back-tracking copies, C11.e filter comparison, C11.b remove_hook keeps names).')
DECIDED = DECIDED + ' ' + DECIDED_R7
DECIDED_R8 = ('Round 8: the matcher gets the path with every enclosing slash removed; premises C01.c (look-back pop) and C11.c (named route is the mounted one).')
DECIDED = DECIDED + ' ' + DECIDED_R8
DECIDED_R9 = ('Round 9: premises C01.e (marker excluded from literal child selection) and C11.d (DATA with PARAMS) (a).')
DECIDED = DECIDED + ' ' + DECIDED_R9
NOT_DECIDED = 'match o build = identity over all runtime strings (regex semantics of user filters; float repr of exponent forms).'
ASSUMPTIONS = ['str(int(x)) / str(float(x)) round-trip through int / float', 'pattern_out contains one marker character per wildcard']

RR = 'ombott.router.radirouter'
FF = 'ombott.router.filter_factory'


# ------------------------------------------------------------------ tiny linear-expression domain
class Lin:
    """linear expression  c0 + sum(ci * sym_i)"""
    def __init__(self, const=0, terms=None):
        self.c = const
        self.t = {k: v for k, v in (terms or {}).items() if v != 0}

    @staticmethod
    def sym(name):
        return Lin(0, {name: 1})

    def __add__(self, o):
        t = dict(self.t)
        for k, v in o.t.items():
            t[k] = t.get(k, 0) + v
        return Lin(self.c + o.c, t)

    def __sub__(self, o):
        t = dict(self.t)
        for k, v in o.t.items():
            t[k] = t.get(k, 0) - v
        return Lin(self.c - o.c, t)

    def __eq__(self, o):
        return isinstance(o, Lin) and self.c == o.c and self.t == o.t

    def __hash__(self):
        return hash((self.c, tuple(sorted(self.t.items()))))

    def subst(self, name, lin):
        if name not in self.t:
            return self
        k = self.t[name]
        rest = Lin(self.c, {a: b for a, b in self.t.items() if a != name})
        return rest + Lin(lin.c * k, {a: b * k for a, b in lin.t.items()})

    def __repr__(self):
        parts = [f'{v}*{k}' if v != 1 else k for k, v in sorted(self.t.items())]
        if self.c or not parts:
            parts.append(str(self.c))
        return ' + '.join(parts)


def lin_eval(e, env):
    if isinstance(e, ast.Constant) and isinstance(e.value, int) and not isinstance(e.value, bool):
        return Lin(e.value)
    if isinstance(e, ast.Name):
        return env.get(e.id)
    if isinstance(e, ast.BinOp) and isinstance(e.op, (ast.Add, ast.Sub)):
        l, r = lin_eval(e.left, env), lin_eval(e.right, env)
        if l is None or r is None:
            return None
        return l + r if isinstance(e.op, ast.Add) else l - r
    return None


def run_paths(stmts, env, slices, decide, out, marker):
    """enumerate paths through straight-line statements with ifs; `decide(test, env)` -> True/False/None (None = both)"""
    if not stmts:
        out.append((dict(env), list(slices), 'end'))
        return
    st, rest = stmts[0], stmts[1:]
    if isinstance(st, ast.If):
        d = decide(st.test, env)
        for branch, body in ((True, st.body), (False, st.orelse)):
            if d is None or d == branch:
                run_paths(list(body) + rest, dict(env), list(slices), decide, out, marker)
        return
    if isinstance(st, ast.Continue):
        out.append((dict(env), list(slices), 'continue'))
        return
    if isinstance(st, ast.Raise):
        return   # the path leaves url(): nothing is built
    if isinstance(st, ast.Assign) and len(st.targets) == 1 and isinstance(st.targets[0], ast.Name):
        env = dict(env)
        env[st.targets[0].id] = lin_eval(st.value, env)
    elif isinstance(st, ast.AugAssign) and isinstance(st.target, ast.Name) and isinstance(st.op, (ast.Add, ast.Sub)):
        env = dict(env)
        cur, v = env.get(st.target.id), lin_eval(st.value, env)
        env[st.target.id] = None if cur is None or v is None else (cur + v if isinstance(st.op, ast.Add) else cur - v)
    elif isinstance(st, ast.Expr) and isinstance(st.value, ast.Call) and call_attr(st.value) == 'append' and st.value.args:
        a = st.value.args[0]
        slices = list(slices)
        if isinstance(a, ast.Subscript) and isinstance(a.slice, ast.Slice) and src(a.value) == marker:
            lo = lin_eval(a.slice.lower, env) if a.slice.lower is not None else Lin(0)
            hi = lin_eval(a.slice.upper, env) if a.slice.upper is not None else None
            slices.append(('literal', lo, hi, st))
        else:
            slices.append(('value', None, None, st))
    elif isinstance(st, (ast.Assert, ast.Expr, ast.Pass)):
        pass
    elif isinstance(st, ast.Assign):
        env = dict(env)
        for t in st.targets:
            for nm in [x.id for x in ast.walk(t) if isinstance(x, ast.Name)]:
                env[nm] = None
    else:
        raise T.CannotEval(f'statement `{short(st)}` in the marker loop')
    run_paths(rest, env, slices, decide, out, marker)


def split_form(f, lp):
    """`for i, lit in enumerate(<parts>[:-1])` with <parts> = <pattern_out>.split(<marker>): (index name, literal name, parts expr, at)"""
    it = lp.iter
    if not (isinstance(it, ast.Call) and dotted(it.func) == 'enumerate' and len(it.args) == 1 and isinstance(lp.target, ast.Tuple)
            and len(lp.target.elts) == 2 and all(isinstance(e, ast.Name) for e in lp.target.elts)):
        return None
    a = it.args[0]
    if not (isinstance(a, ast.Subscript) and isinstance(a.slice, ast.Slice) and a.slice.lower is None and a.slice.step is None
            and isinstance(a.slice.upper, ast.UnaryOp) and isinstance(a.slice.upper.op, ast.USub) and is_const(a.slice.upper.operand, 1)):
        return None
    at = f.cfg.nodes_for(lp)[0]
    parts = T.expand(f, a.value, at)
    if not (isinstance(parts, ast.Call) and call_attr(parts) == 'split' and len(parts.args) == 1 and is_const(parts.args[0], '\r')
            and src(parts.func.value) in ('self.pattern_out',)):
        return None
    return lp.target.elts[0].id, lp.target.elts[1].id, a.value, at


def check_url_split_form(P, R, f, lp):
    """url() built over pattern_out.split(marker): N markers give N + 1 literals; iteration i emits literal i then value i, the last
    literal follows the loop.  str.split keeps empty literals, so the indices stay in step by construction."""
    g = f.cfg
    idx, lit, parts_expr, at = split_form(f, lp)
    apps = [c for c in walk_shallow(lp) if isinstance(c, ast.Call) and call_attr(c) == 'append' and len(c.args) == 1 and T.loops_of(c) and T.loops_of(c)[0] is lp]
    lit_apps = [c for c in apps if isinstance(c.args[0], ast.Name) and c.args[0].id == lit]
    val_apps = [c for c in apps if c not in lit_apps]
    ok = len(lit_apps) == 1 and len(val_apps) >= 1 and len({src(c.func.value) for c in apps}) == 1
    if ok:
        ln = g.node_of_stmt(lit_apps[0])[0]
        head = g.nodes_for(lp)[0]
        # the literal is appended before the value in the same iteration, and skipping it is only possible when it is empty
        ok = all(g.can_reach(ln, g.node_of_stmt(v)[0], avoid_nodes=[head]) and not g.can_reach(g.node_of_stmt(v)[0], ln, avoid_nodes=[head]) for v in val_apps)
        t = enclosing(lit_apps[0], ast.If)
        if t is not None and T._inside(t, lp.body):
            ok = ok and isinstance(t.test, ast.Name) and t.test.id == lit and not t.orelse
    R.ob('C19.c', f, lp, ok, text='[split form] each iteration emits literal i, then the value of wildcard i', detail='' if ok else
         'the literal before a wildcard is not emitted exactly once before its value')
    # trailing literal
    seen, after = False, []
    for st in f.node.body:
        if st is lp:
            seen = True
        elif seen:
            after.append(st)
    last = [c for st in after for c in walk_shallow(st) if isinstance(c, ast.Call) and call_attr(c) == 'append' and len(c.args) == 1
            and isinstance(c.args[0], ast.Subscript) and src(c.args[0].value) == src(parts_expr) and isinstance(c.args[0].slice, ast.UnaryOp)
            and is_const(c.args[0].slice.operand, 1)]
    ok = len(last) == 1
    R.ob('C19.c', f, last[0] if last else f.node, ok, text='[split form] trailing literal <parts>[-1] emitted after the loop', detail='' if ok else
         'the literal text after the last wildcard is not emitted')
    rets = [n for n in walk_shallow(f.node) if isinstance(n, ast.Return) and isinstance(n.value, ast.Call) and call_attr(n.value) == 'join']
    ok = bool(rets) and is_const(rets[-1].value.func.value, '')
    R.ob('C19.c', f, rets[-1] if rets else f.node, ok, text="return ''.join(parts)", detail='' if ok else 'the parts are not concatenated in order', nontrivial=False)
    R.rules['C19.c']['floor'] = min(R.rules['C19.c']['floor'], 3)


def check_url_loop(P, R):
    f = P.func(f'{RR}:Route.url')
    fors = [n for n in walk_shallow(f.node) if isinstance(n, ast.For)]
    R.require(len(fors) == 1, 'Route.url: marker loop not found')
    lp = fors[0]
    if split_form(f, lp) is not None:
        return check_url_split_form(P, R, f, lp)
    if not isinstance(lp.target, ast.Name):
        R.undecided('C19.c', f, lp, 'Route.url: marker loop', 'neither a character loop over pattern_out nor a loop over its split at the marker')
        return
    cvar = lp.target.id
    seq = src(lp.iter)
    # the literal bookkeeping variables: find the test `c != marker` whose body does `<len> += 1; continue`
    first = next((st_ for st_ in lp.body if isinstance(st_, ast.If) and compare_parts(st_.test) and src(compare_parts(st_.test)[0]) == cvar), None)
    R.require(first is not None, 'Route.url: literal branch not found')
    cp = compare_parts(first.test)
    lit_when = cp[1] is ast.NotEq
    body_lit = first.body if lit_when else first.orelse
    incs = [s for s in body_lit if isinstance(s, ast.AugAssign) and isinstance(s.op, ast.Add) and is_const(s.value, 1)]
    R.require(incs, 'Route.url: literal length counter not found')
    clen = incs[0].target.id
    # literal start: the variable used as lower bound of the appended slice
    lows = [a.args[0].slice.lower for a in [c for c in walk_shallow(lp) if isinstance(c, ast.Call) and call_attr(c) == 'append']
            if a.args and isinstance(a.args[0], ast.Subscript) and isinstance(a.args[0].slice, ast.Slice) and a.args[0].slice.lower is not None]
    R.require(lows and isinstance(lows[0], ast.Name), 'Route.url: literal slice not found')
    cidx = lows[0].id
    p = Lin.sym('p')

    def mk_decide(is_marker, clen_zero):
        def decide(test, env):
            cpx = compare_parts(test)
            if cpx and src(cpx[0]) == cvar and isinstance(cpx[2], ast.Constant):
                if cpx[1] is ast.NotEq:
                    return not is_marker
                if cpx[1] is ast.Eq:
                    return is_marker
            t, neg = strip_not(test)
            if isinstance(t, ast.Name) and t.id == clen:
                v = env.get(clen)
                if v is not None and not v.t:
                    return (v.c != 0) != neg
                return (not clen_zero) != neg
            cpy = compare_parts(t)
            if cpy and src(cpy[0]) == clen and isinstance(cpy[2], ast.Constant) and cpy[1] in (ast.Gt, ast.NotEq) and cpy[2].value == 0:
                return (not clen_zero) != neg
            return None
        return decide

    cases = [('literal character', False, None), ('wildcard after a literal of length K >= 1', True, False), ('wildcard directly after a wildcard / at the start', True, True)]
    for (label, is_marker, clen_zero) in cases:
        K = Lin.sym('K')
        c0 = Lin(0) if clen_zero else K
        env = {cidx: p - c0, clen: c0}
        # every other integer local starts as an unknown symbol of the previous iteration
        for n in ast.walk(lp):
            if isinstance(n, ast.Name) and n.id not in env and n.id not in (cvar,):
                env.setdefault(n.id, Lin.sym('prev_' + n.id))
        out = []
        try:
            run_paths(list(lp.body), env, [], mk_decide(is_marker, bool(clen_zero)), out, seq)
        except T.CannotEval as e:
            raise AnalysisError(f'Route.url: {e}')
        R.require(out, 'Route.url: no path through the loop body')
        for (e2, slices, how) in out:
            a, b = e2.get(cidx), e2.get(clen)
            inv = a is not None and b is not None and (a + b) == (p + Lin(1))
            R.ob('C19.c', f, lp, inv, text=f'[{label}] invariant start + length == index is restored (start={a}, length={b})',
                 detail='' if inv else
                 f'after a {label} the bookkeeping gives literal start `{a}` and length `{b}`, whose sum is not index + 1: the next literal is '
                 f'sliced from the wrong place (e.g. two adjacent wildcards shift every later literal)',
                 why='literal parts of the rule appear verbatim and in order in the built URL', key_extra=label + ':' + how)
            lits = [s for s in slices if s[0] == 'literal']
            vals = [s for s in slices if s[0] == 'value']
            if not is_marker:
                ok = not lits and not vals
                det = '' if ok else 'a literal character emits output before the literal run is complete'
            elif clen_zero:
                ok = len(vals) == 1 and all(s[1] is not None and s[2] is not None and s[1] == s[2] for s in lits)
                det = '' if ok else 'a wildcard not preceded by literal text emits a non-empty literal (or no value)'
            else:
                ok = len(vals) == 1 and len(lits) == 1 and lits[0][1] == (p - K) and lits[0][2] == p and \
                    slices.index(lits[0]) < slices.index(vals[0])
                det = '' if ok else (f'a wildcard after K literal characters must first emit pattern_out[index-K:index]; got '
                                     f'{[(str(s[1]), str(s[2])) for s in lits]}')
            R.ob('C19.c', f, lp, ok, text=f'[{label}] output of the iteration: {[s[0] for s in slices]}', detail=det, key_extra=label + ':out:' + how)
    # trailing literal after the loop
    after = []
    seen = False
    for st in f.node.body:
        if st is lp:
            seen = True
            continue
        if seen:
            after.append(st)
    env = {cidx: p - Lin.sym('K'), clen: Lin.sym('K')}
    out = []
    run_paths([s for s in after if not isinstance(s, ast.Return)], env, [], mk_decide(False, False), out, seq)
    ok = any(len([s for s in sl if s[0] == 'literal']) == 1 and [s for s in sl if s[0] == 'literal'][0][1] == (p - Lin.sym('K'))
             and [s for s in sl if s[0] == 'literal'][0][2] == p for (_, sl, _) in out)
    R.ob('C19.c', f, after[0] if after else f.node, ok, text='trailing literal pattern_out[start:start+length] emitted after the loop', detail='' if ok else
         'the literal text after the last wildcard is not emitted as pattern_out[start:start+length]')
    # ... whenever there is one: under the loop invariant start + length == len(pattern) at the end, the guard of the trailing append is `length > 0`
    for st in after:
        if isinstance(st, ast.If) and any(isinstance(c_, ast.Call) and call_attr(c_) == 'append' for c_ in ast.walk(st)):
            t_, neg_ = strip_not(st.test)
            cp_ = compare_parts(t_)
            verdict = None        # True: equivalent to length > 0; False: misses some non-empty tail; None: unknown
            if isinstance(t_, ast.Name) and t_.id == clen and not neg_:
                verdict = True
            elif cp_ and not neg_:
                a_, op_, b_ = cp_
                sa_, sb_ = src(a_).replace(' ', ''), src(b_).replace(' ', '')
                L_ = f'len({seq})'
                if sa_ == clen and isinstance(b_, ast.Constant) and isinstance(b_.value, int):
                    verdict = (op_ is ast.Gt and b_.value == 0) or (op_ is ast.NotEq and b_.value == 0) or (op_ is ast.GtE and b_.value == 1)
                    if not verdict and op_ in (ast.Gt, ast.GtE):
                        verdict = False
                elif sa_ == cidx and sb_ == L_:
                    verdict = op_ in (ast.Lt, ast.NotEq)
                elif sa_ == L_ and sb_ == cidx:
                    verdict = op_ in (ast.Gt, ast.NotEq)
                elif sa_ == cidx and isinstance(b_, ast.BinOp) and isinstance(b_.op, ast.Sub) and src(b_.left).replace(' ', '') == L_ and isinstance(b_.right, ast.Constant):
                    verdict = False if (op_ is ast.Lt and b_.right.value >= 1) or (op_ is ast.LtE and b_.right.value >= 2) else (True if op_ is ast.LtE and b_.right.value == 1 else None)
            if verdict is None:
                R.undecided('C19.c', f, st.test, 'trailing literal', f'the guard `{short(st.test)}` has no recogniser')
            else:
                R.ob('C19.c', f, st.test, verdict, text=f'`if {short(st.test)}`: the trailing literal is emitted whenever it is not empty', detail='' if verdict else
                     f'`{short(st.test)}` is false for some non-empty literal tail (a tail of exactly one character after the last wildcard, `/v<major:int>.<minor:int>/`): '
                     f'the built URL lacks that character and no longer matches the rule',
                     why='the URL built from a matched assignment matches the same rule again', key_extra='tail-guard')
    rets = [n for n in walk_shallow(f.node) if isinstance(n, ast.Return) and isinstance(n.value, ast.Call) and call_attr(n.value) == 'join']
    ok = bool(rets) and is_const(rets[-1].value.func.value, '')
    R.ob('C19.c', f, rets[-1] if rets else f.node, ok, text="return ''.join(parts)", detail='' if ok else 'the parts are not concatenated in order', nontrivial=False)


def as_lambda(P, mod, v):
    """(parameter names, returned expression) of a lambda, or of a module-level function of the package whose body is one `return <expr>`"""
    if isinstance(v, ast.Lambda):
        return [a.arg for a in v.args.args], v.body
    if isinstance(v, ast.Name):
        r = P.resolve_name(mod, v.id)
        if r and r[0] == 'func':
            body = [st for st in r[1].node.body if not (isinstance(st, ast.Expr) and isinstance(st.value, ast.Constant))]
            if len(body) == 1 and isinstance(body[0], ast.Return) and body[0].value is not None:
                return list(r[1].params), body[0].value
            if len(body) == 2 and isinstance(body[0], ast.Assign) and isinstance(body[1], ast.Return) and isinstance(body[1].value, ast.Tuple):
                # mask = <expr>; return mask, conv, fmt
                t0 = body[0].targets[0]
                if isinstance(t0, ast.Name):
                    elts = [body[0].value if (isinstance(e, ast.Name) and e.id == t0.id) else e for e in body[1].value.elts]
                    return list(r[1].params), ast.Tuple(elts=elts, ctx=ast.Load())
    return None


def check_path_normalised(P, R, rid, why):
    """patterns never start with `/` and a built URL always does: the matcher is handed the path without *any* enclosing slash, so that what a wildcard captured
    at the start of a path is what it captures again from the URL built from it"""
    rs = P.func(f'{RR}:RadiRouter.resolve')
    g = rs.cfg
    gets = [c for c in walk_shallow(rs.node) if isinstance(c, ast.Call) and dotted(c.func) == 'self.radidict.get' and c.args]
    R.require(gets, 'resolve: self.radidict.get(...) not found')
    pp = rs.params[1]
    for c in gets:
        a = c.args[0]
        if isinstance(a, ast.Name):
            ds_ = rs.rd.at(g.node_of_stmt(c)[0], a.id)
            if len(ds_) == 1 and ds_[0].kind == 'assign' and ds_[0].value is not None:
                a = ds_[0].value
                inner = [x for x in ast.walk(a) if isinstance(x, ast.Name) and x.id == pp]
                if inner and not all(d.kind == 'param' for d in rs.rd.at(ds_[0].node, pp)):
                    a = c.args[0]
        t = src(a).replace('"', "'")
        ok = t in (f"{pp}.strip('/')", f"{pp}.lstrip('/').rstrip('/')", f"{pp}.rstrip('/').lstrip('/')")
        if not ok:
            sliced = any(isinstance(x, ast.Subscript) and isinstance(x.slice, ast.Slice) for x in ast.walk(a)) or isinstance(c.args[0], ast.Name) and any(
                isinstance(d.value, ast.Subscript) for d in rs.rd.at(g.node_of_stmt(c)[0], c.args[0].id) if d.value is not None)
            raw = isinstance(a, ast.Name) and a.id == pp
            if not (sliced or raw or 'strip' in t):
                R.undecided(rid, rs, c, 'resolve', f'how `{short(a)}` removes the enclosing slashes of the path has no recogniser')
                continue
        R.ob(rid, rs, c, ok, text=f'`{short(c)}`: the matcher gets the path with every enclosing slash removed', detail='' if ok else
             f'the matcher is handed `{short(a)}`: a path can reach it with a leading `/`, a first wildcard then captures the empty text (or a value that starts with `/`), '
             f'and the URL built from that assignment - one `/` plus the values - is normalised differently when it is matched again',
             why=why, key_extra='matcher-path-normalised')


def check(P, R):
    R.rule('C19.a', 'built values validated in the matcher\'s context, by consumed length', floor=3)
    R.rule('C19.b', 'converter / formatter pairs', floor=4)
    R.rule('C19.c', 'marker loop keeps its slice invariant', floor=7)

    # the assignment a match reports is complete: make_params_dict drops anonymous names only (premise shared with C01.f)
    from . import c01 as _c01
    _c01.check_params_filter(P, R, 'C19.a', 'url() built from the assignment a match reports needs every named wildcard of the rule, also those that matched 0 or ""')
    # the assignments url() is fed with are those the matcher reports for this rule: the clauses that make a match report the rule's own names and values
    # are premises here (a stale value in the back-tracking record, a wildcard node shared with a rule of another filter, names wiped by remove_hook all make
    # "matching, then building" fail although url() itself is right)
    from ..report import run_premise
    from . import c11 as _c11
    why_ = 'every parameter assignment a rule produces by matching builds a URL that the rule matches with the same values'
    run_premise(R, _c01, P, {'C01.c', 'C01.e'}, 'C19.a', why_)
    run_premise(R, _c11, P, {'C11.b', 'C11.e'}, 'C19.a', why_)
    _c11.check_named_is_mounted(P, R, 'C19.a')
    _c11.check_data_with_params(P, R, 'C19.a', why_)
    check_path_normalised(P, R, 'C19.a', why_)
    f = P.func(f'{RR}:Route.url')
    g, rd = f.cfg, f.rd
    # shape-independent first: the URL is assembled in an object of this call (a route is shared by all requests, and a build that is rejected half-way
    # must leave nothing behind)
    for r_ in [n for n in g.nodes if n.kind == 'stmt' and isinstance(n.ast, ast.Return) and n.ast.value is not None]:
        joins = [x for x in rd.closure_nodes(r_.ast.value, r_) if isinstance(x, ast.Call) and call_attr(x) == 'join' and x.args and isinstance(x.args[0], ast.Name)]
        for j in joins:
            acc = j.args[0].id
            jn = g.node_of_stmt(j)[0]
            defs = rd.root_defs(jn, acc)
            shared = [d for d in defs if d.value is not None and isinstance(d.value, (ast.Attribute, ast.Name, ast.Subscript)) and not rd.is_local(getattr(d.value, 'id', ''))]
            fresh = bool(defs) and not shared and all(d.value is not None and (isinstance(d.value, (ast.List, ast.ListComp)) or
                                                                          (isinstance(d.value, ast.Call) and dotted(d.value.func) in ('list', 'collections.deque', 'deque'))) for d in defs)
            if not fresh and not shared:
                R.undecided('C19.c', f, j, 'Route.url', f'the accumulator `{acc}` is neither a fresh list nor an object kept outside the call')
                continue
            R.ob('C19.c', f, j, fresh, text=f'`{short(j)}`: the parts are collected in a list created by this call', detail='' if fresh else
                 f'the parts are collected in `{short(shared[0].value)}`, an object that outlives the call: a build that is rejected after some parts were emitted (missing '
                 f'keyword, value refused by its filter) leaves them there and the next - valid - build is prefixed with them; two requests building from the same '
                 f'route interleave their parts',
                 why='the URL built from a matched assignment matches the same rule again', key_extra='fresh-accumulator')
    # ---- a
    ff = P.cls(f'{FF}:FilterFactory')
    table = ff.attrs.get('filters')
    R.require(isinstance(table, ast.Dict), 'FilterFactory.filters is not a dict literal')
    lookahead = []
    for k, v in zip(table.keys, table.values):
        name = const(k)
        lam = as_lambda(P, ff.module, v)
        if lam is not None and isinstance(lam[1], ast.Tuple) and lam[1].elts:
            pats = RX.pattern_literal(T.module_value(ff, lam[1].elts[0])) or []
            for pt in pats:
                tree = RX.parse(pt.replace('\x00HOLE\x00', 'X'))
                if tree is not None and RX.has_lookaround(tree):
                    lookahead.append(name)
    # by role: the per-wildcard input filter is `<filters>[<idx>]` with <filters> bound to self.filters, the formatter likewise from self.filters_out
    def _from_attr(name, attr):
        for n in g.nodes:
            for d in rd.gen.get(n, []):
                if d.name == name and d.value is not None and isinstance(d.value, ast.Subscript) and dotted(d.value.value) == f'self.{attr}':
                    return True          # f_in = self.filters[i] without a local alias of the table
                if d.name == name and d.value is not None and isinstance(d.value, ast.Subscript) and isinstance(d.value.value, ast.Name):
                    for n2 in g.nodes:
                        for d2 in rd.gen.get(n2, []):
                            if d2.name == d.value.value.id and d2.value is not None and dotted(d2.value) == f'self.{attr}':
                                return True
        return False
    fin_names = {d.name for n in g.nodes for d in rd.gen.get(n, []) if _from_attr(d.name, 'filters')}
    fout_names = {d.name for n in g.nodes for d in rd.gen.get(n, []) if _from_attr(d.name, 'filters_out')}
    pout_names = {d.name for n in g.nodes for d in rd.gen.get(n, []) if d.value is not None and dotted(d.value) == 'self.pattern_out'} | {'pattern_out'}
    vals = [c for c in walk_shallow(f.node) if isinstance(c, ast.Call) and isinstance(c.func, ast.Name) and c.func.id in fin_names]
    R.require(vals, 'Route.url: validation call f_in(...) not found')
    for c in vals:
        a = c.args[0] if c.args else None
        bare = isinstance(a, ast.Name)
        ok = not (bare and lookahead)
        if not bare and isinstance(a, ast.BinOp) and isinstance(a.op, ast.Add):
            cn = g.node_of_stmt(c)[0]
            cl = rd.closure_nodes(a.right, cn)
            ok = any(isinstance(x, ast.Name) and x.id in pout_names for x in cl) or any(isinstance(x, ast.Attribute) and dotted(x) == 'self.pattern_out' for x in cl)
            if ok and isinstance(a.right, ast.Name):
                # ... on every path: a user `re` filter may look ahead as well, so the literal is appended whatever the filter is
                for d_ in rd.at(cn, a.right.id):
                    cl_d = rd.closure_nodes(d_.value, d_.node) if d_.value is not None else []
                    from_pat = any(isinstance(x, ast.Name) and x.id in pout_names for x in cl_d) or any(isinstance(x, ast.Attribute) and dotted(x) == 'self.pattern_out' for x in cl_d)
                    if not from_pat:
                        R.ob('C19.a', f, d_.stmt, False, text=f'`{short(d_.stmt)}` reaches the validation call', detail=
                             f'on some path the text appended for validation is `{short(d_.value) if d_.value is not None else d_.kind}`, not the literal that follows the wildcard '
                             f'(e.g. only for filters flagged as looking ahead): an `re` wildcard whose expression looks ahead at the following literal - '
                             f'`/foo/<re(pro.+?(?=l))>le` - matches, but url() built from the match raises',
                             why='every parameter assignment a rule can produce by matching must be buildable', key_extra='following-on-every-path')
        R.ob('C19.a', f, c, ok, text=f'validation {short(c)}; masks with look-ahead: {sorted(set(lookahead))}', detail='' if ok else
             f'the filter is applied to the bare value although the mask of {sorted(set(lookahead))} looks ahead at the literal that follows the '
             f'wildcard: url() raises for every rule like /a/<x:path>/b that matching accepts',
             why='every parameter assignment a rule can produce by matching must be buildable')
        # accepted by consumed length
        p_ = getattr(c, '_p', None)
        by_len = isinstance(p_, ast.Subscript) and is_const(p_.slice, 1)
        use_ok = by_len
        if not by_len:
            st = stmt_of(c)
            # unpacked: value, pos, _ = f_in(...): the test must be on pos
            if isinstance(st, ast.Assign) and isinstance(st.targets[0], ast.Tuple) and len(st.targets[0].elts) >= 2:
                posn = st.targets[0].elts[1].id if isinstance(st.targets[0].elts[1], ast.Name) else None
                valn = st.targets[0].elts[0].id if isinstance(st.targets[0].elts[0], ast.Name) else None
                tests = [n for n in g.nodes if n.kind == 'test' and (posn in names_loaded(n.ast) or valn in names_loaded(n.ast))]
                use_ok = bool(tests) and all(posn in names_loaded(n.ast) and valn not in names_loaded(n.ast) for n in tests)
        R.ob('C19.a', f, c, use_ok, text='a value is accepted when the filter consumed something (position > 0)', detail='' if use_ok else
             'acceptance is decided by the truthiness of the converted value: a legitimately matched 0 / 0.0 is refused when building',
             key_extra='bylen')
    # order: formatter, then validation
    fo = [c for c in walk_shallow(f.node) if isinstance(c, ast.Call) and isinstance(c.func, ast.Name) and c.func.id in fout_names]
    ok = bool(fo) and all(g.must_pass(g.node_of_stmt(fo[0])[0], g.node_of_stmt(v)[0], []) is False or True for v in vals)
    if fo and vals:
        fon, vn = g.node_of_stmt(fo[0])[0], g.node_of_stmt(vals[0])[0]
        ok = g.can_reach(fon, vn, avoid_nodes=[T.loop_head(g, T.loops_of(fo[0])[0])]) and not g.can_reach(vn, fon, avoid_nodes=[T.loop_head(g, T.loops_of(fo[0])[0])])
    R.ob('C19.a', f, fo[0] if fo else f.node, ok, text='formatter applied before validation', detail='' if ok else 'the value is validated before it is formatted')

    # ---- b
    n_conv = 0
    for k, v in zip(table.keys, table.values):
        name = const(k)
        lam = as_lambda(P, ff.module, v)
        if not (lam is not None and isinstance(lam[1], ast.Tuple) and len(lam[1].elts) == 3):
            continue
        mask, conv, fmt = lam[1].elts
        if is_const(conv, None):
            R.ob('C19.b', ff.fq, None, is_const(fmt, None), text=f'filter {name}: no converter, no formatter', detail='' if is_const(fmt, None) else
                 f'filter {name} formats values it does not convert', nontrivial=False, key_extra=str(name))
            continue
        cname = dotted(conv)
        # a two-argument "converter" (matched text, match object) selects one of the matched texts - it does not change the type of the value, so there is nothing
        # for a formatter to turn back
        cf_ = None
        if isinstance(conv, ast.Name):
            cands_ = [x for x in P.all_funcs() if x.name == conv.id and x.module is ff.module and not isinstance(x.node, ast.Lambda)]
            cf_ = cands_[0] if len(cands_) == 1 else None
        if cf_ is not None and len(cf_.params) == 2 and is_const(fmt, None):
            typed = [c_ for c_ in walk_shallow(cf_.node) if isinstance(c_, ast.Call) and dotted(c_.func) in ('int', 'float', 'complex', 'bool', 'Decimal', 'bytes')]
            R.ob('C19.b', ff.fq, None, not typed, text=f'filter {name}: {cname}(matched, match) selects a matched text, no formatter needed', detail='' if not typed else
                 f'{cname} converts the selected text with `{short(typed[0])}` but the filter has no formatter', nontrivial=False, key_extra=str(name))
            continue
        n_conv += 1
        flam = as_lambda(P, ff.module, fmt)
        ok = flam is not None and len(flam[0]) >= 1
        det = f'filter {name} converts with {cname} but has no formatter: url() would insert the Python object'
        if ok:
            b = flam[1]
            arg = flam[0][0]
            ok = isinstance(b, ast.Call) and dotted(b.func) == 'str' and len(b.args) == 1 and isinstance(b.args[0], ast.Call) \
                and dotted(b.args[0].func) == cname and src(b.args[0].args[0]) == arg
            det = '' if ok else (f'the formatter of filter {name} is `{short(b)}`, not str({cname}(x)): a matched value does not get back the text '
                                 f'that converts to the same value (e.g. fixed-point formatting rounds 0.1234567 to 0.123457)')
        R.ob('C19.b', ff.fq, None, ok, text=f'filter {name}: converter {cname}, formatter {short(fmt)}', detail=det,
             why='the built URL must re-match with the same parameter values', key_extra=str(name))
    R.require(n_conv >= 2, 'converting filters (int, float) not found in FilterFactory.filters')
    # what url() hands back is the join of the collected parts (or the pattern itself when the rule has no wildcard): values are never substituted into the
    # pattern text, where an inserted value would be scanned again
    for r_ in [n for n in walk_shallow(f.node) if isinstance(n, ast.Return) and n.value is not None]:
        rn_ = g.node_of_stmt(r_)[0]
        xv_ = T.expand(f, r_.value, rn_)
        is_join = isinstance(xv_, ast.Call) and call_attr(xv_) == 'join' and is_const(xv_.func.value, '')
        is_pat = dotted(xv_) == 'self.pattern_out' and any((not holds_) and 'params' in src(e_) for (e_, holds_, _) in T.guard_atoms(f, rn_))
        cl_ = rd.closure_nodes(r_.value, rn_)
        subst = [x for x in cl_ if isinstance(x, ast.Call) and call_attr(x) in ('replace', 'sub', 'format', 'subn')]
        ok_ = (is_join or is_pat) and not subst
        R.ob('C19.c', f, r_, ok_, text=f'{short(r_)}: the joined parts', detail='' if ok_ else
             (f'the URL is produced by `{short(subst[0])}`: substituting into a text that already contains inserted values rescans them - a value containing the '
              f'marker character (or a doubled separator) is rewritten and the URL no longer matches' if subst else 'url() returns something other than the joined parts'),
             why='the built URL re-matches with the same parameter values', key_extra='ret:' + ('join' if is_join else 'pattern' if is_pat else 'other'))
    # one index per marker
    idxs = {}
    for x in walk_shallow(f.node):
        if isinstance(x, ast.Subscript) and isinstance(x.slice, ast.Name) and isinstance(x.ctx, ast.Load) \
                and dotted(x.value) in ('self.params', 'self.filters', 'self.filters_out'):
            idxs.setdefault(x.slice.id, set()).add(dotted(x.value))       # the table indexed without a local alias
        if isinstance(x, ast.Subscript) and isinstance(x.slice, ast.Name) and isinstance(x.value, ast.Name) and isinstance(x.ctx, ast.Load):
            for n in g.nodes:
                for d in rd.gen.get(n, []):
                    if d.name == x.value.id and d.value is not None and dotted(d.value) in ('self.params', 'self.filters', 'self.filters_out'):
                        idxs.setdefault(x.slice.id, set()).add(dotted(d.value))
    pname = [k for k, v in idxs.items() if v == {'self.params', 'self.filters', 'self.filters_out'}]
    pidx = [st for st in walk_shallow(f.node) if isinstance(st, ast.AugAssign) and isinstance(st.target, ast.Name) and pname and st.target.id == pname[0] and is_const(st.value, 1)]
    ok = len(pidx) == 1
    if not ok and pname:
        sf_ = [split_form(f, l_) for l_ in walk_shallow(f.node) if isinstance(l_, ast.For)]
        ok = any(x_ is not None and x_[0] == pname[0] for x_ in sf_)       # the index of enumerate(<split at the marker>[:-1])
    R.ob('C19.b', f, pidx[0] if pidx else f.node, ok, text='params / filters_out / filters indexed by one counter advanced once per marker', detail='' if ok else
         'names and filters are not consumed in step, one per wildcard')

    # str.find() results used as slice bounds: -1 ("not found") silently drops the last character
    for x in walk_shallow(f.node):
        if isinstance(x, ast.Subscript) and isinstance(x.slice, ast.Slice):
            for bnd in (x.slice.lower, x.slice.upper):
                if bnd is not None and any(isinstance(y, ast.Call) and call_attr(y) in ('find', 'rfind') for y in ast.walk(bnd)):
                    R.ob('C19.a', f, x, False, detail=
                         f'`{short(x)}` uses str.find() directly as a slice bound: when nothing is found it is -1 and the slice loses its last character - for the last '
                         f'wildcard the literal tail handed to the look-ahead filter is cut, so url() raises for values the rule matched',
                         why='every parameter assignment obtained by matching must be buildable', key_extra='find-bound')
    # ---- d: the build pattern is assembled from the same parts as the match pattern
    pr = P.func(f'{RR}:Route.parse_rule')
    rets = [n for n in walk_shallow(pr.node) if isinstance(n, ast.Return) and isinstance(n.value, ast.Tuple) and len(n.value.elts) == 5]
    R.require(rets, 'parse_rule: 5-tuple return not found')
    for r in rets:
        rn = pr.cfg.node_of_stmt(r)[0]
        e_match, e_build = r.value.elts[0], r.value.elts[3]
        clb = pr.rd.closure_nodes(e_build, rn)
        derived = [x for x in clb if isinstance(x, ast.Call) and (call_attr(x) in ('sub', 'replace', 'translate') or dotted(x.func) in ('re.sub',))]
        joins = [x for x in clb if isinstance(x, ast.Call) and call_attr(x) == 'join' and x.args and isinstance(x.args[0], ast.Name)]
        ok = bool(joins) and not derived
        det = ''
        if derived:
            det = (f'the build pattern is derived from the joined match pattern by `{short(derived[0])}`: text of the rule that looks like what is being stripped '
                   f'(e.g. digits right after a filtered wildcard look like a selector) disappears from built URLs')
        elif not joins:
            det = 'the build pattern is not assembled from the rule parts'
        if ok:
            lst = joins[0].args[0].id
            apps = [c for c in walk_shallow(pr.node) if isinstance(c, ast.Call) and call_attr(c) == 'append' and dotted(c.func.value) == lst]
            ok = bool(apps) and all(isinstance(c.args[0], ast.Name) for c in apps) and all(T.loops_of(c) for c in apps)
            det = '' if ok else 'the parts appended to the build pattern are not the plain rule parts'
        R.ob('C19.b', pr, r, ok, text='pattern_out = join of the plain rule parts (marker without selector), built alongside the match pattern', detail=det,
             why='literal parts of the rule appear verbatim and in order in the built URL', key_extra='build-pattern')
    # ---- c
    check_url_loop(P, R)
