"""C15 - Cookies round-trip; forged signed cookies are never deserialised."""
import ast

from ..astutil import (walk_shallow, dotted, call_attr, short, src, stmt_of, names_loaded, is_const, enclosing,
                       compare_parts, strip_not, const, bool_operands)
from ..loader import AnalysisError
from .. import rules as T

ID = 'C15'
DECIDED = ('(a) the only unpickler calls of the package are in cookie_decode and each is dominated by the true edge of the '
           'signature comparison; (b) the HMAC is computed over the received payload text itself (one split of the input; '
           'no decoding before authentication) with the caller\'s key, compared with the received signature minus its '
           'one-byte prefix, and the unpickled bytes are the base64 decoding of that same payload text; (c) the comparison '
           'is length-aware (len(a) == len(b) or hmac.compare_digest) and does not return early inside its element loop; '
           '(d) writer and reader agree on digest, framing bytes, base64 layers and key conversion, and the writer signs '
           'exactly the text it emits after the separator; (e) get_cookie returns element 1 of what cookie_decode(<current '
           'cookie text>, <current secret>) returned in this very call, only when element 0 equals the requested name, '
           'else the default - no memo keyed by name stands between.')
DECIDED_MORE = ('Also: no shared writes on the signing / verifying path.')
DECIDED = DECIDED + ' ' + DECIDED_MORE
DECIDED_R6 = ('Round 6: per-position comparison term is 0 for equal bytes and positive otherwise; every environ store is followed by the change event; no two responses share a jar while apply() refills in place.')
DECIDED = DECIDED + ' ' + DECIDED_R6
DECIDED_R7 = ('Round 7: the authenticated message is the unaltered piece from the split; writer and reader agree on when a cookie is signed; get_cookie only reads the jar.')
DECIDED = DECIDED + ' ' + DECIDED_R7
DECIDED_R8 = ('Round 8: every return of headerlist lies behind the cookie emission; the per-thread response is reset only before hooks and handler run; premise C09.c (apply() does not write the applied response); a difference count with abs(len(a) - len(b)) is length-aware.')
DECIDED = DECIDED + ' ' + DECIDED_R8
DECIDED_R9 = ('Round 9: no memoising wrapper between `get_cookie` and the decoder (e); the cookie parts by `index` + slices (b).')
DECIDED = DECIDED + ' ' + DECIDED_R9
NOT_DECIDED = ('round trip of plain cookie text through http.cookies.SimpleCookie quoting (library value semantics); '
               'strength of HMAC-MD5 (assumed unforgeable without the secret).')
ASSUMPTIONS = ['HMAC is unforgeable without the secret', 'base64.b64encode is canonical (one text per byte string)']

CH = 'ombott.common_helpers'
UNPICKLERS = {'pickle.loads', 'pickle.load', 'pickle.Unpickler', 'cPickle.loads', 'marshal.loads', 'loads'}


def hmac_calls(f):
    return [c for c in walk_shallow(f.node) if isinstance(c, ast.Call) and dotted(c.func) in ('hmac.new', 'hmac.digest', 'hmac.HMAC')]


def digest_of(call):
    for k in call.keywords:
        if k.arg in ('digestmod', 'digest'):
            return src(k.value)
    if len(call.args) > 2:
        return src(call.args[2])
    return None


def check(P, R):
    R.rule('C15.a', 'one unpickler, behind the signature test', floor=2)
    R.rule('C15.b', 'what is verified is what is deserialised', floor=4)
    R.rule('C15.c', 'comparison total and length-aware', floor=2)
    R.rule('C15.d', 'writer / reader agreement', floor=5)
    R.rule('C15.e', 'get_cookie uses the decode of this call and checks the name', floor=4)

    dec = P.func(f'{CH}:cookie_decode')
    enc = P.func(f'{CH}:cookie_encode')
    g, rd = dec.cfg, dec.rd

    # shape-independent first: the signature of a cookie is computed from this call's key and message alone - signing and verifying keep no state
    # that another thread (another secret) can see half-updated
    from .. import effects as EF
    todo, fam = [dec, enc], []
    while todo:
        fx = todo.pop()
        if fx in fam:
            continue
        fam.append(fx)
        for c_ in walk_shallow(fx.node):
            if isinstance(c_, ast.Call) and isinstance(c_.func, ast.Name):
                r_ = P.resolve_name(fx.module, c_.func.id)
                if r_ and r_[0] == 'func' and r_[1].module is fx.module and r_[1] not in fam:
                    todo.append(r_[1])
        todo += [x for x in P.all_funcs() if x.parent is fx and x not in fam]
    sw = EF.shared_writes(P, fam)
    for w in sw:
        R.ob('C15.b', w['func'], w['node'], False, text=f'`{short(w["node"])}` on the signing path', detail=
             f'signing / verifying keeps state in the shared location {w["target"]}: with two secrets in use, a reader can be handed the keyed state of the other '
             f'secret while it is being replaced, and a cookie signed with that other secret is accepted and unpickled',
             why='a cookie signed with another secret reads as absent, and its payload is never deserialised', key_extra='shared:' + w['target'] + w['kind'])
    R.ob('C15.b', dec, None, not sw, text=f'signing and verifying keep no shared state ({len(fam)} functions on the path)', nontrivial=False)

    # ---- a: who may unpickle
    n_unp = 0
    for f in P.all_funcs():
        if f.module.name.endswith('server_adapters'):
            continue
        for c in walk_shallow(f.node):
            if isinstance(c, ast.Call) and dotted(c.func) in UNPICKLERS and (dotted(c.func) != 'loads' or 'pickle' in f.module.source.split('def ')[0] and 'json' not in dotted(c.func)):
                if dotted(c.func) == 'loads':
                    r = P.resolve_name(f.module, 'loads')
                    if not (r and r[0] == 'ext' and r[1].startswith('pickle')):
                        continue
                n_unp += 1
                ok = f is dec
                R.ob('C15.a', f, c, ok, detail='' if ok else 'an unpickler call outside cookie_decode: not behind the signature check',
                     why='attacker bytes reaching pickle.loads is code execution')
    R.require(n_unp >= 1, 'no unpickler call found in cookie_decode: anchor changed')
    # positive control for the zero-expected part: the matcher must recognise a planted unpickler
    probe = ast.parse('import pickle\ndef f(x):\n    return pickle.loads(x)\n')
    hit = [c for c in ast.walk(probe) if isinstance(c, ast.Call) and dotted(c.func) in UNPICKLERS]
    R.require(len(hit) == 1, 'unpickler matcher lost its positive control')

    # signature tests in cookie_decode: tests whose expression contains a call with an hmac-derived argument
    unp = [c for c in walk_shallow(dec.node) if isinstance(c, ast.Call) and dotted(c.func) in UNPICKLERS]
    sig_tests = []
    for n in g.nodes:
        if n.kind != 'test':
            continue
        for c in [x for x in walk_shallow(n.ast) if isinstance(x, ast.Call)]:
            if any(isinstance(y, ast.Call) and dotted(y.func) in ('hmac.new', 'hmac.digest') for a in c.args for y in rd.closure_nodes(a, n)):
                if dotted(c.func) in ('hmac.new', 'hmac.digest', 'base64.b64encode', 'tob'):
                    continue
                sig_tests.append((n, c))
    if not sig_tests:
        # the comparison written out where a comparison function was called: `ok = not sum(.. for x, y in zip(got, expected)) and len(got) == len(expected)`
        # followed by `if ok:` - read as a comparison function of (got, expected) with that expression as its body
        from ..loader import Func
        for n in g.nodes:
            if n.kind != 'test' or not isinstance(n.ast, ast.Name):
                continue
            ds = rd.at(n, n.ast.id)
            if len(ds) != 1 or ds[0].kind != 'assign' or ds[0].value is None:
                continue
            pairs = [x.args for x in ast.walk(ds[0].value) if isinstance(x, ast.Call) and dotted(x.func) == 'zip' and len(x.args) == 2]
            pairs += [[x.left, x.comparators[0]] for x in ast.walk(ds[0].value) if isinstance(x, ast.Compare) and len(x.ops) == 1 and isinstance(x.ops[0], ast.Eq)]
            for (x_, y_) in pairs:
                if not (isinstance(x_, ast.Name) and isinstance(y_, ast.Name)):
                    continue
                der = [any(isinstance(y, ast.Call) and dotted(y.func) in ('hmac.new', 'hmac.digest') for y in rd.closure_nodes(a_, ds[0].node)) for a_ in (x_, y_)]
                if der.count(True) != 1 or not (rd.same_defs(ds[0].node, n, x_.id) and rd.same_defs(ds[0].node, n, y_.id)):
                    continue
                fnode = ast.parse(f'def _inline_comparison({x_.id}, {y_.id}):\n    return 0\n').body[0]
                fnode.body[0].value = T.clone(ds[0].value)
                ast.copy_location(fnode, ds[0].stmt)
                ast.fix_missing_locations(fnode)
                for z in ast.walk(fnode):
                    if hasattr(z, 'lineno'):
                        z.lineno = ds[0].stmt.lineno
                call_ = ast.copy_location(ast.Call(func=ast.Name(id='_inline_comparison', ctx=ast.Load()), args=[x_, y_], keywords=[]), ds[0].value)
                call_._synth_target = Func(dec.module, f'{dec.qual}.<comparison at line {ds[0].stmt.lineno}>', fnode, None, dec)
                sig_tests.append((n, call_))
                break
    R.require(sig_tests, 'cookie_decode: no signature comparison found')
    for u in unp:
        un = g.node_of_stmt(u)[0]
        # (the comparison call is the whole test, possibly negated: `if not _lscmp(..): return None`)
        dom = [(n, c) for (n, c) in sig_tests
               if g.edge_dominates(n, 'false' if (strip_not(n.ast)[1] and strip_not(n.ast)[0] is c) else 'true', un)
               and (not strip_not(n.ast)[1] or strip_not(n.ast)[0] is c)]
        R.ob('C15.a', dec, u, bool(dom), detail='' if dom else 'the unpickler is not dominated by the passing edge of the signature comparison',
             why='a forged cookie would be deserialised', key_extra='dominance')
        # ---- b
        for (n, c) in dom:
            # comparison call args: (received signature, expected signature)
            args = c.args
            if len(args) != 2:
                R.ob('C15.b', dec, c, False, detail='signature comparison does not take (received, expected)')
                continue
            exp = [a for a in args if any(isinstance(y, ast.Call) and dotted(y.func) in ('hmac.new', 'hmac.digest') for y in rd.closure_nodes(a, n))]
            got = [a for a in args if a not in exp]
            if len(exp) != 1 or len(got) != 1:
                R.undecided('C15.b', dec, c, f'{short(c)}: signature comparison', 'cannot tell the received from the expected signature')
                continue
            exp, got = exp[0], got[0]
            hm = [y for y in rd.closure_nodes(exp, n) if isinstance(y, ast.Call) and dotted(y.func) in ('hmac.new', 'hmac.digest')][0]
            key_arg, msg_arg = (hm.args + [None, None])[:2]

            def _record_field(e_):
                # <local>.field where the local is an instance of a class of the package: the parts of the cookie are kept in a record
                # whose field layout is not modelled
                if isinstance(e_, ast.Attribute) and isinstance(e_.value, ast.Name) and rd.is_local(e_.value.id):
                    for d_ in rd.at(n, e_.value.id):
                        if d_.value is not None and isinstance(d_.value, ast.Call):
                            r_ = P.resolve_name(dec.module, dotted(d_.value.func) or '')
                            if r_ and r_[0] == 'class':
                                return True
                return False
            if _record_field(got) or _record_field(msg_arg):
                R.undecided('C15.b', dec, c, f'{short(c)}: received signature / authenticated message',
                            'the two halves of the cookie are held in a record object of the package; no recogniser follows its fields')
                check_compare(P, R, dec, c)
                continue
            # message authenticated: derives from the split of the input, with no decoding step in between
            mcl = rd.closure_nodes(msg_arg, n) if msg_arg is not None else []
            has_split = any(isinstance(y, ast.Call) and call_attr(y) in ('split', 'partition', 'rpartition') for y in mcl)
            decoded_first = any(isinstance(y, ast.Call) and (dotted(y.func) or '').endswith(('b64decode', 'decodebytes', 'a85decode', 'unhexlify')) for y in mcl)
            # ... and it is that very piece: re-padded, stripped or otherwise normalised text lets several received cookies verify against one signature
            altered = None
            if isinstance(msg_arg, ast.Name):
                hn_ = g.node_of_stmt(hm)
                for d_ in rd.at(hn_[0] if hn_ else n, msg_arg.id):
                    if d_.kind == 'aug' or (d_.kind == 'assign' and d_.value is not None and not (
                            isinstance(d_.value, ast.Subscript) or (isinstance(d_.value, ast.Call) and call_attr(d_.value) in ('split', 'partition', 'rpartition')))):
                        altered = d_
            def _index_form(e_, part):
                """`D[S + 1:]` (payload) / `D[1:S]` (signature) with S = D.index(<sep>) / D.find(<sep>): the first separator, as split(sep, 1) finds it"""
                x_ = T.expand(dec, e_, n, keep=tuple(v_ for v_ in rd.names() if False)) if False else e_
                if isinstance(x_, ast.Name):
                    ds_ = rd.at(n, x_.id)
                    if len(ds_) == 1 and ds_[0].value is not None:
                        x_ = ds_[0].value
                if not (isinstance(x_, ast.Subscript) and isinstance(x_.slice, ast.Slice) and isinstance(x_.value, ast.Name) and x_.slice.step is None):
                    return False
                D_ = x_.value.id
                lo_, up_ = x_.slice.lower, x_.slice.upper

                def _is_sep_pos(v_, plus):
                    if plus:
                        if not (isinstance(v_, ast.BinOp) and isinstance(v_.op, ast.Add) and is_const(v_.right, 1)):
                            return False
                        v_ = v_.left
                    if isinstance(v_, ast.Call) and call_attr(v_) in ('index', 'find') and dotted(v_.func.value) == D_ and len(v_.args) == 1:
                        return True
                    if not isinstance(v_, ast.Name):
                        return False
                    dd_ = [d for nn_ in g.nodes for d in rd.gen.get(nn_, []) if d.name == v_.id]
                    return len(dd_) == 1 and dd_[0].value is not None and isinstance(dd_[0].value, ast.Call) and call_attr(dd_[0].value) in ('index', 'find') \
                        and dotted(dd_[0].value.func.value) == D_ and len(dd_[0].value.args) == 1
                if part == 'msg':
                    return up_ is None and lo_ is not None and _is_sep_pos(lo_, True)
                return is_const(lo_, 1) and up_ is not None and _is_sep_pos(up_, False)
            if not has_split and msg_arg is not None and _index_form(msg_arg, 'msg'):
                has_split = True
            okm = has_split and not decoded_first and altered is None
            R.ob('C15.b', dec, hm, okm, text=f'HMAC message = {short(msg_arg)}', detail='' if okm else
                 ('the payload is base64-decoded before it is authenticated: several altered texts decode to the same bytes and still verify'
                  if decoded_first else (f'`{short(altered.stmt)}` changes the payload text between the split and the signature check: what is authenticated is a normalised '
                                         f'form, so a cookie whose payload was altered in the bytes the normalisation restores (its trailing `=` padding cut off) still verifies '
                                         f'and is unpickled' if altered is not None else 'the authenticated message does not come from the split of the received cookie')),
                 why='a cookie altered in any payload byte must read as absent')
            okk = key_arg is not None and any(isinstance(y, ast.Name) and y.id == dec.params[1] for y in rd.closure_nodes(key_arg, n))
            R.ob('C15.b', dec, hm, okk, text=f'HMAC key = {short(key_arg)}', detail='' if okk else 'the HMAC key is not the caller\'s secret')
            # unpickled bytes = b64decode(same msg definition)
            ucl = rd.closure_nodes(u.args[0], un) if u.args else []
            b64 = [y for y in ucl if isinstance(y, ast.Call) and (dotted(y.func) or '').endswith('b64decode')]
            oku = False
            if b64 and isinstance(msg_arg, ast.Name):
                a0 = b64[0].args[0] if b64[0].args else None
                oku = isinstance(a0, ast.Name) and a0.id == msg_arg.id and rd.same_defs(n, g.node_of_stmt(b64[0])[0], msg_arg.id)
            R.ob('C15.b', dec, u, oku, text=f'unpickled = b64decode({short(msg_arg)})', detail='' if oku else
                 'the bytes unpickled are not the decoding of the very text that was authenticated')
            # received signature: sig without its 1-byte prefix, from the same split
            got = T.expand(dec, got, n) if isinstance(got, ast.Name) else got
            okg = isinstance(got, ast.Subscript) and isinstance(got.slice, ast.Slice) and is_const(got.slice.lower, 1) \
                and got.slice.upper is None
            if okg:
                gcl = rd.closure_nodes(got.value, n)
                okg = any(isinstance(y, ast.Call) and call_attr(y) in ('split', 'partition') for y in gcl)
            okg = okg or _index_form(got, 'sig')
            R.ob('C15.b', dec, got, okg, text=f'received signature = {short(got)}', detail='' if okg else
                 'the received signature is not <sig part>[1:] of the split input')
            # the split is one split with maxsplit 1 on the separator
            sp = [y for y in mcl if isinstance(y, ast.Call) and call_attr(y) == 'split']
            for y in sp:
                oks = len(y.args) == 2 and is_const(y.args[1], 1)
                R.ob('C15.b', dec, y, oks, detail='' if oks else 'the input is not split exactly once at the first separator')
            # ---- c: the comparison function
            check_compare(P, R, dec, c)
    # ---- d: writer/reader agreement
    eh = hmac_calls(enc)
    dh = hmac_calls(dec)
    R.require(eh and dh, 'hmac call missing in cookie_encode/cookie_decode')
    ok = digest_of(eh[0]) == digest_of(dh[0]) and digest_of(eh[0]) is not None
    R.ob('C15.d', enc, eh[0], ok, text=f'digest {digest_of(eh[0])} / {digest_of(dh[0])}', detail='' if ok else 'writer and reader use different digests')
    ok = src(eh[0].args[0]).replace(enc.params[1], 'K') == src(dh[0].args[0]).replace(dec.params[1], 'K')
    R.ob('C15.d', enc, eh[0], ok, text='key conversion agrees', detail='' if ok else 'writer and reader convert the key differently')
    # writer: msg = b64encode(pickle.dumps(data)); sig over msg; returns '!' + sig + '?' + msg
    erd, eg = enc.rd, enc.cfg
    rets = [n for n in walk_shallow(enc.node) if isinstance(n, ast.Return)]
    R.require(len(rets) == 1, 'cookie_encode: expected one return')
    r = rets[0]
    rn = eg.node_of_stmt(r)[0]
    parts = []

    def flat(e):
        if isinstance(e, ast.BinOp) and isinstance(e.op, ast.Add):
            flat(e.left)
            flat(e.right)
        elif isinstance(e, ast.Call) and call_attr(e) == 'join' and isinstance(e.func.value, ast.Constant) and e.func.value.value in (b'', '') \
                and len(e.args) == 1 and isinstance(e.args[0], (ast.Tuple, ast.List)):
            for x in e.args[0].elts:            # b''.join((a, b, c, d)) is a + b + c + d
                flat(x)
        elif isinstance(e, ast.BinOp) and isinstance(e.op, ast.Mod) and isinstance(e.left, ast.Constant) and isinstance(e.left.value, (bytes, str)) \
                and isinstance(e.right, ast.Tuple):
            # b'!%b?%b' % (sig, msg): the literal pieces and the substituted values, in order (plain %b / %s fields only)
            import re as _re
            fmt = e.left.value
            pat = b'%[bs]' if isinstance(fmt, bytes) else '%s'
            pieces = _re.split(pat, fmt)
            pct = b'%' if isinstance(fmt, bytes) else '%'
            if len(pieces) == len(e.right.elts) + 1 and not any(pct in p_ for p_ in pieces):
                for i_, p_ in enumerate(pieces):
                    if p_:
                        parts.append(ast.copy_location(ast.Constant(value=p_), e))
                    if i_ < len(e.right.elts):
                        flat(e.right.elts[i_])
            else:
                parts.append(e)
        else:
            parts.append(e)
    flat(r.value)
    ok = len(parts) == 4
    det = 'the cookie is not  prefix + signature + separator + payload'
    if ok:
        p0, p1, p2, p3 = parts
        c0 = _lit(p0, enc)
        c2 = _lit(p2, enc)
        ehm = eh[0]
        emsg = ehm.args[1] if len(ehm.args) > 1 else None
        sig_ok = any(y is ehm for y in erd.closure_nodes(p1, rn))
        same_msg = isinstance(p3, ast.Name) and isinstance(emsg, ast.Name) and p3.id == emsg.id and erd.same_defs(eg.node_of_stmt(ehm)[0], rn, p3.id)
        ok = c0 == '!' and c2 == '?' and sig_ok and same_msg
        det = '' if ok else ('the writer signs something other than the text it emits after the separator' if not same_msg else
                             f'framing is {c0!r}/{c2!r}, expected "!"/"?"')
    R.ob('C15.d', enc, r, ok, detail=det, why='reader and writer must authenticate the same bytes')
    if ok:
        mcl = erd.closure_nodes(parts[3], rn)
        ok2 = any(isinstance(y, ast.Call) and (dotted(y.func) or '').endswith('b64encode') for y in mcl) and \
            any(isinstance(y, ast.Call) and dotted(y.func) == 'pickle.dumps' for y in mcl)
        R.ob('C15.d', enc, r, ok2, text='payload = b64encode(pickle.dumps(data))', detail='' if ok2 else 'payload is not base64 of the pickle')
        ok3 = any(isinstance(y, ast.Call) and (dotted(y.func) or '').endswith('b64encode') for y in erd.closure_nodes(parts[1], rn))
        R.ob('C15.d', enc, r, ok3, text='signature is base64 text', detail='' if ok3 else 'signature is not base64-encoded like the reader expects')
    # reader framing: startswith('!') and '?' in data; split on '?'
    lits = {x.value for x in ast.walk(dec.node) if isinstance(x, ast.Constant) and isinstance(x.value, (str, bytes))}
    for x in ast.walk(dec.node):
        if isinstance(x, ast.Name) and isinstance(x.ctx, ast.Load) and not rd.is_local(x.id):
            mv = T.module_value(dec, x)
            if isinstance(mv, ast.Constant) and isinstance(mv.value, (str, bytes)):
                lits.add(mv.value)
    lits = {v.decode() if isinstance(v, bytes) else v for v in lits}
    ok = '!' in lits and '?' in lits
    R.ob('C15.d', dec, dec.node, ok, text='reader framing bytes ! and ?', detail='' if ok else 'reader does not use the writer\'s framing bytes', nontrivial=False)

    check_get_cookie(P, R)
    R.rule('C15.f', 'a response copy owns its cookie morsels', floor=1)
    check_copy_owns_cookies(P, R)
    check_cookie_memo_invalidation(P, R, 'C15.e')
    check_cookie_transfer(P, R, 'C15.f')
    check_cookies_emitted(P, R, 'C15.f')
    check_no_reset_after_user_code(P, R, 'C15.f')
    from ..report import run_premise
    from . import c09 as _c09
    run_premise(R, _c09, P, {'C09.c'}, 'C15.f', 'the cookies of a returned / raised response are sent as they were set on it')


def check_copy_owns_cookies(P, R):
    # a copied response owns its cookies: they are rebuilt from the rendered text, not from the Morsel objects of the original (SimpleCookie(mapping)
    # and dict-style copies keep the very same Morsels, and set_cookie mutates a Morsel in place)
    cpf = P.func('ombott.response:BaseResponse.copy')
    stores_ = [st for st in walk_shallow(cpf.node) if isinstance(st, ast.Assign) and any(isinstance(t, ast.Attribute) and t.attr == '_cookies' for t in st.targets)]
    loads_ = [c for c in walk_shallow(cpf.node) if isinstance(c, ast.Call) and call_attr(c) in ('load', 'update') and (dotted(c.func.value) or '').endswith('._cookies')]
    for st in stores_:
        shared = [x for x in ast.walk(st.value) if isinstance(x, ast.Attribute) and dotted(x) == 'self._cookies'
                  and not (isinstance(getattr(x, '_p', None), ast.Attribute) and getattr(x, '_p').attr in ('output', 'js_output'))]
        R.ob('C15.f', cpf, st, not shared, text=f'{short(st)}', detail='' if not shared else
             'the copy\'s cookie jar is built from the original\'s Morsel objects: both responses then share them, and a later set_cookie / delete_cookie '
             'on either one rewrites the cookie of the other (the signed value read back is not the one that was set)',
             why='a cookie set on a response is read back unchanged', key_extra='copy-store')
    for c in loads_:
        a0 = c.args[0] if c.args else None
        shared = a0 is not None and any(isinstance(x, ast.Attribute) and dotted(x) == 'self._cookies'
                                        and not (isinstance(getattr(x, '_p', None), ast.Attribute) and getattr(x, '_p').attr in ('output', 'js_output')) for x in ast.walk(a0))
        R.ob('C15.f', cpf, c, not shared, text=f'{short(c)}', detail='' if not shared else
             'the copy loads the Morsel objects of the original instead of their rendered text', key_extra='copy-load')


def _lit(e, f=None):
    if f is not None:
        e = T.module_value(f, e)
    if isinstance(e, ast.Constant):
        v = e.value
    elif isinstance(e, ast.Call) and dotted(e.func) == 'tob' and e.args and isinstance(e.args[0], ast.Constant):
        v = e.args[0].value
    else:
        return None
    return v.decode() if isinstance(v, bytes) else v


def check_compare(P, R, dec, call):
    d = dotted(call.func)
    if d in ('hmac.compare_digest', 'compare_digest', 'secrets.compare_digest'):
        R.ob('C15.c', dec, call, True, text='hmac.compare_digest')
        R.ob('C15.c', dec, call, True, text='no early exit (library)', nontrivial=False)
        return
    target = getattr(call, '_synth_target', None)
    for f in P.all_funcs():
        if target is None and f.name == d and (f.parent is dec or f.parent is None and f.module is dec.module):
            target = f
    if target is None:
        R.ob('C15.c', dec, call, False, detail=f'signature comparison `{d}` is neither hmac.compare_digest nor a package function')
        return
    a, b = target.params[:2]
    rets = [n for n in walk_shallow(target.node) if isinstance(n, ast.Return)]
    body_ = [st for st in target.node.body if not (isinstance(st, ast.Expr) and isinstance(st.value, ast.Constant))]
    if len(body_) == 1 and isinstance(body_[0], ast.Return) and isinstance(body_[0].value, ast.Call) \
            and dotted(body_[0].value.func) in ('hmac.compare_digest', 'compare_digest', 'secrets.compare_digest') \
            and [src(x) for x in body_[0].value.args] in ([a, b], [b, a]):
        # a thin wrapper of the library comparison
        R.ob('C15.c', target, body_[0], True, text=f'{d}(a, b) = hmac.compare_digest(a, b)')
        R.ob('C15.c', target, body_[0], True, text='no early exit (library)', nontrivial=False)
        return
    has_len = False
    for r in rets:
        for x in ast.walk(r.value) if r.value is not None else []:
            cp = compare_parts(x)
            if cp and cp[1] is ast.Eq and {src(cp[0]), src(cp[2])} == {f'len({a})', f'len({b})'}:
                has_len = True
    # a difference *count* (0 only for equal strings): the per-position mismatches plus the difference of the lengths
    for r in rets:
        if r.value is None:
            continue
        ns_ = target.cfg.node_of_stmt(r)
        rv = T.expand(target, r.value, ns_[0]) if ns_ else r.value
        terms = []

        def _terms(e):
            if isinstance(e, ast.BinOp) and isinstance(e.op, ast.Add):
                _terms(e.left)
                _terms(e.right)
            else:
                terms.append(e)
        _terms(rv)
        for t_ in terms:
            if isinstance(t_, ast.Call) and dotted(t_.func) == 'abs' and len(t_.args) == 1 and isinstance(t_.args[0], ast.BinOp) and isinstance(t_.args[0].op, ast.Sub) \
                    and {src(t_.args[0].left), src(t_.args[0].right)} == {f'len({a})', f'len({b})'} and len(terms) >= 2:
                has_len = True
    # also accept an explicit early `if len(a) != len(b): return False`
    for n in walk_shallow(target.node):
        if isinstance(n, ast.If):
            cp = compare_parts(n.test)
            if cp and cp[1] is ast.NotEq and {src(cp[0]), src(cp[2])} == {f'len({a})', f'len({b})'} and \
                    n.body and isinstance(n.body[0], ast.Return) and is_const(n.body[0].value, False):
                has_len = True
    R.ob('C15.c', target, target.node, has_len, text='length of both operands compared', detail='' if has_len else
         'zip() alone compares only the common prefix: a truncated (even empty) signature verifies',
         why='a truncated signature must read as absent')
    early = [r for r in rets if enclosing(r, (ast.For, ast.While)) is not None and
             target.node in list(_parents_until(r))]
    R.ob('C15.c', target, target.node, not early, text='no return inside the element loop', detail='' if not early else
         'early exit at the first differing byte leaks the matching prefix length through timing')
    # what is accumulated per position is zero exactly when the two bytes are equal and never negative (differences of opposite sign must not cancel)
    for sc in [x for x in ast.walk(target.node) if isinstance(x, ast.Call) and dotted(x.func) == 'sum' and x.args and isinstance(x.args[0], (ast.GeneratorExp, ast.ListComp))]:
        elt = sc.args[0].elt
        tg = sc.args[0].generators[0].target
        nm = [e.id for e in tg.elts] if isinstance(tg, ast.Tuple) and all(isinstance(e, ast.Name) for e in tg.elts) else []

        def indicator(e):
            if isinstance(e, ast.IfExp) and compare_parts(e.test) and compare_parts(e.test)[1] in (ast.Eq, ast.NotEq) and \
                    isinstance(e.body, ast.Constant) and isinstance(e.orelse, ast.Constant):
                eq = compare_parts(e.test)[1] is ast.Eq
                zero, one = (e.body.value, e.orelse.value) if eq else (e.orelse.value, e.body.value)
                return zero == 0 and isinstance(one, int) and one > 0
            if compare_parts(e) and compare_parts(e)[1] is ast.NotEq:
                return True
            if isinstance(e, ast.BinOp) and isinstance(e.op, ast.BitXor):
                return True
            if isinstance(e, ast.Call) and dotted(e.func) == 'abs':
                return True
            if isinstance(e, ast.BinOp) and isinstance(e.op, ast.Pow) and is_const(e.right, 2):
                return True
            if isinstance(e, ast.Call) and dotted(e.func) == 'int' and len(e.args) == 1:
                return indicator(e.args[0])
            return None if not (isinstance(e, ast.BinOp) and isinstance(e.op, (ast.Sub, ast.Add))) else False
        v_ = indicator(elt)
        if v_ is None:
            R.undecided('C15.c', target, sc, 'signature comparison', f'the per-position term `{short(elt)}` has no recogniser')
            continue
        R.ob('C15.c', target, sc, v_, text=f'per-position term `{short(elt)}` is 0 for equal bytes and positive otherwise', detail='' if v_ else
             f'`{short(sc)}` adds up signed differences: they cancel, so the test is "same length and same byte sum" - a signature with two bytes transposed verifies, and a '
             f'forger can find a 24-character signature with the right sum by trying one candidate per achievable sum',
             why='a signed cookie altered in any byte of the signature reads as absent', key_extra='cmp-term')
    # the comparison must look at every position: generator/loop over zip(a, b) feeding sum/any-free accumulation
    uses_zip = any(isinstance(x, ast.Call) and dotted(x.func) == 'zip' and {src(y) for y in x.args} == {a, b} for x in ast.walk(target.node))
    R.ob('C15.c', target, target.node, uses_zip, text='element-wise over zip(a, b)', detail='' if uses_zip else 'comparison does not pair the elements of both operands')


def _parents_until(node):
    p = getattr(node, '_p', None)
    while p is not None:
        yield p
        if isinstance(p, (ast.FunctionDef, ast.Lambda)):
            return
        p = getattr(p, '_p', None)


def check_get_cookie(P, R):
    f = P.func('ombott.request_pkg.props_mixin:PropsMixin.get_cookie')
    # reading a cookie leaves the parsed jar as it is: the jar is memoised for the whole request, and what one read removes no later read finds
    MUT_ = {'pop', 'popitem', 'clear', 'update', 'setdefault', '__setitem__', '__delitem__'}
    for st_ in walk_shallow(f.node):
        hit_ = None
        if isinstance(st_, ast.Call) and isinstance(st_.func, ast.Attribute) and st_.func.attr in MUT_:
            ns_ = f.cfg.node_of_stmt(st_)
            if ns_ and any(isinstance(x, ast.Attribute) and dotted(x) == 'self.cookies' for x in f.rd.closure_nodes(st_.func.value, ns_[0])):
                hit_ = st_
        elif isinstance(st_, (ast.Assign, ast.Delete)):
            for t_ in st_.targets:
                if isinstance(t_, ast.Subscript) and 'cookies' in src(t_.value):
                    hit_ = st_
        if hit_ is not None:
            R.ob('C15.e', f, hit_, False, text='get_cookie only reads the jar', detail=
                 f'`{short(hit_)}` changes the cookie jar that is cached for the whole request: after one read that fails verification (a wrong or rotated secret) the cookie '
                 f'is gone, and a second read with the right secret - `get_cookie(n, secret=NEW) or get_cookie(n, secret=OLD)` - finds nothing',
                 why='a signed cookie read with the same secret returns the value that was set', key_extra='read-mutates-jar')
    g, rd = f.cfg, f.rd
    key_p, default_p, secret_p = f.params[1], f.params[2], f.params[3]
    calls = [c for c in walk_shallow(f.node) if isinstance(c, ast.Call) and dotted(c.func) == 'cookie_decode']
    if not calls:
        # a memoising wrapper between get_cookie and the decoder hands one unpickled object to every request that returns the same cookie
        for c in walk_shallow(f.node):
            if isinstance(c, ast.Call) and isinstance(c.func, ast.Name):
                r_ = P.resolve_name(f.module, c.func.id)
                if r_ and r_[0] == 'func':
                    hf = r_[1]
                    memo = [d for d in hf.node.decorator_list if (dotted(d.func if isinstance(d, ast.Call) else d) or '').split('.')[-1] in ('lru_cache', 'cache', 'cached', 'memoize')]
                    reaches = any(isinstance(x, ast.Call) and (dotted(x.func) or '').split('.')[-1] in ('cookie_decode', 'loads') for x in ast.walk(hf.node))
                    if memo and reaches:
                        R.ob('C15.e', hf, memo[0], False, text=f'`{hf.name}` (between get_cookie and the decoder) is not memoised', detail=
                             f'`@{short(memo[0])}` on `{hf.name}` keeps the decoded value of a signed cookie for the life of the process: the unpickled object is built once and handed '
                             f'to every later request (on every thread) that returns the same cookie - after one handler changes the dict or list it read, the next request reads '
                             f'the changed value, not the value that was set',
                             why='a cookie set on a response is read back unchanged from the request that returns it', key_extra='decode-memoised')
                        return
    R.require(calls, 'get_cookie does not call cookie_decode')
    for c in calls:
        cn = g.node_of_stmt(c)[0]
        a0, a1 = (c.args + [None, None])[:2]
        cl = rd.closure_nodes(a0, cn) if a0 is not None else []
        ok = any(isinstance(y, ast.Call) and call_attr(y) == 'get' and dotted(y.func.value) == 'self.cookies'
                 and y.args and isinstance(y.args[0], ast.Name) and y.args[0].id == key_p for y in cl)
        if not ok:
            # the same lookup spelled `jar[key]` (under `key in jar`, or inside try / except KeyError) with jar = self.cookies
            for y in cl:
                if isinstance(y, ast.Subscript) and isinstance(y.slice, ast.Name) and y.slice.id == key_p:
                    base_ = y.value
                    if dotted(base_) == 'self.cookies' or (isinstance(base_, ast.Name) and any(
                            d_.value is not None and dotted(d_.value) == 'self.cookies' for n_ in g.nodes for d_ in rd.gen.get(n_, []) if d_.name == base_.id)):
                        ok = True
        R.ob('C15.e', f, c, ok, text=f'decoded text = self.cookies.get({key_p})', detail='' if ok else 'the text decoded is not the cookie of the requested name')
        ok = isinstance(a1, ast.Name) and a1.id == secret_p
        R.ob('C15.e', f, c, ok, text='secret forwarded', detail='' if ok else 'the secret of this call is not the one used for verification')
    # the signed branch is taken whenever a secret is given and the cookie exists - not only when the text "looks signed"
    for c in calls:
        cn = g.node_of_stmt(c)[0]
        # the tests the call is control dependent on: each must be decided by the truthiness of the secret and of the raw cookie alone
        ctl = [(tn, lab) for tn in g.nodes if tn.kind == 'test' for lab in ('true', 'false') if g.edge_dominates(tn, lab, cn)]
        ok, det = False, 'cookie_decode is not called under `if secret and value`'
        seen_secret = False
        extra = []
        for (tn, lab) in ctl:
            def atom(e, tn=tn):
                if isinstance(e, ast.Name):
                    return True
                return None
            leaves = []

            def collect(e):
                if isinstance(e, ast.UnaryOp) and isinstance(e.op, ast.Not):
                    collect(e.operand)
                elif isinstance(e, ast.BoolOp):
                    for v_ in e.values:
                        collect(v_)
                elif isinstance(e, ast.Call) and dotted(e.func) == 'bool' and len(e.args) == 1:
                    collect(e.args[0])
                else:
                    leaves.append(e)
            # a flag computed before (`signed = bool(secret and value)`) stands for its expression
            texp = T.expand(f, tn.ast, tn, keep=tuple(f.params) + tuple(d_.name for n_ in g.nodes for d_ in rd.gen.get(n_, []) if d_.value is not None and (
                (isinstance(d_.value, ast.Call) and call_attr(d_.value) == 'get') or (isinstance(d_.value, (ast.IfExp, ast.Subscript)) and 'cookies' in src(d_.value))
                or any(isinstance(s_, ast.Subscript) and isinstance(s_.value, ast.Name) and any(dd_.value is not None and dotted(dd_.value) == 'self.cookies'
                                                                                              for nn_ in g.nodes for dd_ in rd.gen.get(nn_, []) if dd_.name == s_.value.id)
                       for s_ in ast.walk(d_.value)))))

            def unbool(e):
                if isinstance(e, ast.Call) and dotted(e.func) == 'bool' and len(e.args) == 1:
                    return unbool(e.args[0])
                if isinstance(e, ast.UnaryOp) and isinstance(e.op, ast.Not):
                    return ast.UnaryOp(op=ast.Not(), operand=unbool(e.operand))
                return e
            texp = unbool(texp)
            collect(texp)
            seen_secret = seen_secret or any(isinstance(x, ast.Name) and x.id == secret_p for x in leaves)
            extra += [x for x in leaves if not isinstance(x, ast.Name)]
            tv = T.truth(texp, atom)
            if tv is not None and (('true' if tv else 'false') != lab):
                extra.append(tn.ast)
        if ctl:
            ok = seen_secret and not extra
            det = '' if ok else ((f'the signed branch is additionally conditioned on `{short(extra[0])}`: with a secret given, a cookie whose framing was damaged '
                                  f'(leading "!" or "?" altered / truncated) falls through to the plain-cookie exit and is returned as text instead of reading as absent')
                                 if extra else det)
        R.ob('C15.e', f, ctl[0][0].ast if ctl else c, ok, text='signed branch taken for every cookie when a secret is given', detail=det,
             why='a signed cookie altered in any byte reads as absent', key_extra='branch-cond')
    # returns
    plain_rets = []
    for r in [n for n in walk_shallow(f.node) if isinstance(n, ast.Return) and n.value is not None]:
        # the verified value must be returned as it is: no `or default` truthiness on it
        rn0 = g.node_of_stmt(r)[0]
        if isinstance(r.value, ast.BoolOp):
            for x in r.value.values:
                if isinstance(x, ast.Name):
                    for d in rd.at(rn0, x.id):
                        if d.value is not None and any(isinstance(y, ast.Subscript) and isinstance(y.value, ast.Name) and any(
                                dd.value in calls for dd in rd.at(d.node, y.value.id)) for y in ast.walk(d.value)):
                            R.ob('C15.e', f, r, False, detail=
                                 f'the verified, unpickled value flows into `{short(r.value)}`: a validly signed falsy value (0, "", [], False, {{}}) reads as the default instead of unchanged',
                                 why='a cookie set with a secret is read back unchanged', key_extra='truthiness-on-verified')
    for r in [n for n in walk_shallow(f.node) if isinstance(n, ast.Return) and n.value is not None]:
        rn = g.node_of_stmt(r)[0]
        v = r.value
        if not any(isinstance(x, ast.Subscript) for x in ast.walk(v)):
            continue
        # dec[1] if dec and dec[0] == key else default
        ok, det = False, 'signed branch does not return `dec[1] if dec and dec[0] == key else default`'
        if isinstance(v, ast.IfExp) and isinstance(v.body, ast.Subscript) and is_const(v.body.slice, 1) and isinstance(v.body.value, ast.Name):
            decname = v.body.value.id
            conds = bool_operands(v.test, ast.And)
            namechk = any(compare_parts(x) and compare_parts(x)[1] is ast.Eq and
                          {src(compare_parts(x)[0]), src(compare_parts(x)[2])} == {f'{decname}[0]', key_p} for x in conds)
            truthy = any(isinstance(x, ast.Name) and x.id == decname for x in conds)
            dflt = isinstance(v.orelse, ast.Name) and v.orelse.id == default_p
            defs = rd.at(rn, decname)
            direct = bool(defs) and all(d.kind == 'assign' and d.value in calls for d in defs)
            ok = namechk and truthy and dflt and direct
            det = '' if ok else (
                'the value returned does not come straight from cookie_decode(<current text>, <current secret>) of this call '
                '(a memo or other indirection stands between): a second read with another secret or an altered cookie returns the old value'
                if not direct else 'the decoded name is not compared with the requested name' if not namechk else
                'a failed verification does not yield the default')
        elif isinstance(v, ast.Subscript) and is_const(v.slice, 1) and isinstance(v.value, ast.Name):
            # statement form: if dec and dec[0] == key: return dec[1] ... return default
            decname = v.value.id
            defs = rd.at(rn, decname)
            direct = bool(defs) and all(d.kind == 'assign' and d.value in calls for d in defs)
            guard = False
            for tn in g.nodes:
                if tn.kind != 'test':
                    continue
                def atom(e):
                    if isinstance(e, ast.Name) and e.id == decname:
                        return True
                    cp_ = compare_parts(e)
                    if cp_ and cp_[1] is ast.Eq and {src(cp_[0]), src(cp_[2])} == {f'{decname}[0]', key_p}:
                        return True
                    return None
                conds = bool_operands(strip_not(tn.ast)[0], ast.And)
                namechk = any(compare_parts(x) and compare_parts(x)[1] is ast.Eq and
                              {src(compare_parts(x)[0]), src(compare_parts(x)[2])} == {f'{decname}[0]', key_p} for x in conds)
                truthy = any(isinstance(x, ast.Name) and x.id == decname for x in conds)
                tv = T.truth(tn.ast, atom)
                if namechk and truthy and tv is not None and g.edge_dominates(tn, 'true' if tv else 'false', rn):
                    guard = True
            # what else can be returned once the decode ran: the default only
            others = [m for m in g.nodes if m.kind == 'stmt' and isinstance(m.ast, ast.Return) and m is not rn
                      and any(g.can_reach(g.node_of_stmt(c_)[0], m) for c_ in calls)]
            dflt = bool(others) and all(isinstance(m.ast.value, ast.Name) and m.ast.value.id == default_p for m in others)
            ok = guard and direct and dflt
            det = '' if ok else (
                'the value returned does not come straight from cookie_decode(<current text>, <current secret>) of this call'
                if not direct else 'the decoded value is returned without `dec and dec[0] == <requested name>` holding' if not guard else
                'a failed verification does not yield the default')
        else:
            R.undecided('C15.e', f, r, f'{short(r)}', 'no recogniser for how the decoded pair is returned')
            continue
        R.ob('C15.e', f, r, ok, detail=det, why='a cookie signed with another secret / altered must read as absent')
    # set_cookie stores (name, value) through cookie_encode with the secret
    sc = P.func('ombott.response:BaseResponse.set_cookie')
    ec = [c for c in walk_shallow(sc.node) if isinstance(c, ast.Call) and dotted(c.func) == 'cookie_encode']
    R.require(ec, 'set_cookie does not call cookie_encode')
    for c in ec:
        a0, a1 = (c.args + [None, None])[:2]
        ok = isinstance(a0, ast.Tuple) and len(a0.elts) == 2 and src(a0.elts[0]) == sc.params[1] and src(a0.elts[1]) == sc.params[2] \
            and isinstance(a1, ast.Name) and a1.id == 'secret'
        R.ob('C15.e', sc, c, ok, detail='' if ok else 'set_cookie does not sign the (name, value) pair with the given secret')
    # writer and reader agree on *when* a cookie is signed: both decide by the truth of the secret, or both by `is not None`
    def secret_mode(fn, sink_name):
        modes = set()
        for c in [x for x in walk_shallow(fn.node) if isinstance(x, ast.Call) and dotted(x.func) == sink_name]:
            ns_ = fn.cfg.node_of_stmt(c)
            atoms_ = list(T.guard_atoms(fn, ns_[0]) if ns_ else [])
            # `signed = bool(secret and value); if signed:` - the flag's expression, conjunct by conjunct
            for (e_, holds_, _t) in list(atoms_):
                if holds_ and isinstance(e_, ast.Call) and dotted(e_.func) == 'bool' and len(e_.args) == 1:
                    atoms_ += [(x_, True, _t) for x_ in bool_operands(e_.args[0], ast.And)]
            for (e_, holds_, _t) in atoms_:
                if isinstance(e_, ast.Name) and e_.id == 'secret' and holds_:
                    modes.add('truthy')
                cp_ = compare_parts(e_)
                if cp_ and isinstance(cp_[0], ast.Name) and cp_[0].id == 'secret' and is_const(cp_[2], None) and \
                        ((cp_[1] is ast.IsNot and holds_) or (cp_[1] is ast.Is and not holds_)):
                    modes.add('not-None')
        return modes
    gm_ = secret_mode(P.func('ombott.request_pkg.props_mixin:PropsMixin.get_cookie'), 'cookie_decode')
    sm_ = secret_mode(sc, 'cookie_encode')
    if gm_ and sm_:
        okm_ = gm_ == sm_
        R.ob('C15.e', sc, ec[0], okm_, text=f'set_cookie signs when the secret is {sorted(sm_)}, get_cookie verifies when it is {sorted(gm_)}', detail='' if okm_ else
             f'set_cookie signs when the secret is {sorted(sm_)} while get_cookie verifies when it is {sorted(gm_)}: with an empty secret (\'\' / b\'\') the cookie is written '
             f'signed and read back raw - the caller gets the `!signature?payload` text instead of the value it set',
             why='a cookie set with a secret reads back as the value that was set', key_extra='secret-mode')
    else:
        R.undecided('C15.e', sc, ec[0], 'when a cookie is signed', 'the tests on `secret` in front of cookie_encode / cookie_decode have no recogniser')


def check_env_store_emits(P, R, rid, why, consequence):
    """every store `__setitem__` makes into the environ is followed by the change event (also for a key that was not there before: the views derived from a
    missing key are cached too - an empty query, an empty jar)"""
    si = P.func('ombott.request_pkg.request:BaseRequest.__setitem__')
    g = si.cfg
    stores = [n for n in g.nodes if n.kind == 'stmt' and isinstance(n.ast, ast.Assign) and any(isinstance(t, ast.Subscript) and src(t.slice) == si.params[1] for t in n.ast.targets)]
    emits = [g.node_of_stmt(c)[0] for c in walk_shallow(si.node) if isinstance(c, ast.Call) and call_attr(c) == 'emit' and c.args and is_const(c.args[0], 'env_changed')]
    R.require(stores, 'BaseRequest.__setitem__: store into the environ not found')
    for n in stores:
        ok = bool(emits) and all(m_ in emits or g.must_pass(m_, g.exit, emits) for (m_, lab_) in n.succ if lab_ != 'exc')
        R.ob(rid, si, n.ast, ok, text=f'`{short(n.ast)}` is always followed by emit("env_changed", ..)', detail='' if ok else
             f'after `{short(n.ast)}` the change event is not emitted on every path (e.g. only for keys that were already present): values derived earlier from the '
             f'environ - {consequence}',
             why=why, key_extra='emit-after-store')
    check_env_delete_emits(P, R, rid, why, consequence)


def check_env_delete_emits(P, R, rid, why, consequence):
    """removing an environ key through the request is a change as well: the deletion is announced - through a store made with `self[key] = ..` (which emits) in
    front of it, or an emit of its own"""
    cls_ = P.cls('ombott.request_pkg.request:BaseRequest')
    n_ = 0
    for mname, m in sorted(cls_.methods.items()):
        g = m.cfg
        for st in walk_shallow(m.node):
            hit = None
            if isinstance(st, ast.Delete) and any(isinstance(t, ast.Subscript) and dotted(t.value) in ('self.environ', 'env') and isinstance(t.slice, ast.Name) for t in st.targets):
                hit = st
            elif isinstance(st, ast.Call) and call_attr(st) == 'pop' and dotted(st.func.value) == 'self.environ' and st.args and isinstance(st.args[0], ast.Name) \
                    and st.args[0].id in m.params:
                hit = st
            if hit is None or mname == '_on_env_changed':
                continue
            n_ += 1
            hn = g.node_of_stmt(hit)[0]
            announces = [g.node_of_stmt(x)[0] for x in walk_shallow(m.node) if
                         (isinstance(x, ast.Assign) and any(isinstance(t, ast.Subscript) and isinstance(t.value, ast.Name) and t.value.id == m.params[0] for t in x.targets)) or
                         (isinstance(x, ast.Call) and call_attr(x) == 'emit' and x.args and is_const(x.args[0], 'env_changed')) or
                         (isinstance(x, ast.Call) and call_attr(x) == '__setitem__' and isinstance(x.func.value, ast.Name) and x.func.value.id == m.params[0])]
            ok = bool(announces) and (g.must_pass(g.entry, hn, announces) or all(s_ in announces or g.must_pass(s_, g.exit, announces) for (s_, lab) in hn.succ if lab != 'exc'))
            R.ob(rid, m, hit, ok, text=f'`{short(hit)}` in {mname}: the removal is announced to the change listeners', detail='' if ok else
                 f'`{short(hit)}` removes the key without any change event: values derived earlier from the environ - {consequence}',
                 why=why, key_extra='emit-with-delete')
    return n_


def check_cookie_memo_invalidation(P, R, rid, why='a cookie is read back from the request that returns it: the parsed jar follows the Cookie header of the request'):
    """request.cookies is memoised in the environ; the memo is dropped whenever an HTTP_* key is written through the request: every store made by
    `__setitem__` is followed by the change event, and the listener maps header keys to the `cookies` memo"""
    check_env_store_emits(P, R, rid, why, 'the parsed cookie jar, the headers - stay cached, so a Cookie header written through the request is not what get_cookie() reads')
    oc = P.func('ombott.request_pkg.request:BaseRequest._on_env_changed')
    from .c18 import listener_drops
    ld = listener_drops(P, 'HTTP_')
    if ld is None:
        R.undecided(rid, oc, oc.node, 'cookie memo', 'how the change listener maps HTTP_* keys to the memos it drops has no recogniser')
        return
    ok = 'cookies' in ld[0]
    R.ob(rid, oc, oc.node, ok, text='a changed HTTP_* key drops the `cookies` memo', detail='' if ok else
         'the change listener does not drop the cached cookie jar when a header key changes', why=why, key_extra='listener-cookies')


def check_cookies_emitted(P, R, rid):
    """whatever the status, the header list handed to the server contains the Set-Cookie lines of the jar: every return of headerlist lies behind the
    statement that consults the jar"""
    f = P.func('ombott.response:BaseResponse.headerlist')
    g = f.cfg
    jar_nodes = [n for n in g.nodes if n.ast is not None and n.kind in ('test', 'for', 'stmt') and any(
        isinstance(x, ast.Attribute) and x.attr == '_cookies' and src(x.value) == 'self' for x in
        ([n.ast.iter] if n.kind == 'for' else [n.ast]) for x in ast.walk(x))]
    emits = [c for c in ast.walk(f.node) if isinstance(c, ast.Constant) and c.value == 'Set-Cookie']
    R.require(jar_nodes and emits, 'headerlist: the Set-Cookie emission from self._cookies was not found')
    rets = [n for n in g.nodes if n.kind == 'stmt' and isinstance(n.ast, ast.Return) and n in g.reachable()]
    R.require(rets, 'headerlist: no return')
    for r in rets:
        if r in jar_nodes:
            ok = True
        else:
            ok = g.must_pass(g.entry, r, jar_nodes, labels_skip=('exc',))
        R.ob(rid, f, r.ast, ok, text=f'`{short(r.ast)}` lies behind the emission of the cookie jar', detail='' if ok else
             f'`{short(r.ast)}` is reached on a path that never looks at self._cookies: for the responses taking it (a status with a bad_headers entry: 204, 304) the '
             f'cookies set on the response are not sent, so the client never returns them',
             why='a cookie set on a response is read back from the request that returns it', key_extra='jar-before-return')


def check_no_reset_after_user_code(P, R, rid):
    """the per-thread response is re-initialised before any hook or handler runs, never after: a reset behind them (on an error path, say) discards the cookies
    they set, and the answer that is sent - error page included - goes out without them"""
    from ..report import Sub
    from . import c09

    class _Quiet:
        def __init__(self, R_):
            self._R = R_

        def ob(self, *a, **kw):
            return None

        def __getattr__(self, k):
            return getattr(self._R, k)
    h, req_init, resp_init = c09.check_init_dominance(P, _Quiet(R), 'C09.a')
    g = h.cfg
    user = [n for n in g.nodes if n.ast is not None and n.kind == 'stmt' and any(
        isinstance(c, ast.Call) and ((call_attr(c) == 'emit') or call_attr(c) == 'handler') for c in ast.walk(n.ast))]
    R.require(user, '_handle: the calls that run hooks / the handler were not found')
    all_resets = [g.node_of_stmt(c)[0] for c in walk_shallow(h.node) if isinstance(c, ast.Call) and call_attr(c) in ('__init__', 'clear', 'reset')
                  and isinstance(c.func.value, (ast.Name, ast.Attribute)) and
                  ({src(d.value) for d in h.rd.root_defs(g.node_of_stmt(c)[0], c.func.value.id) if d.value is not None} == {'self.response'}
                   if isinstance(c.func.value, ast.Name) else src(c.func.value) == 'self.response')]
    R.require(all_resets, '_handle: no reset of the per-thread response found')
    for n in all_resets:
        after = any(g.can_reach(u, n) for u in user)
        R.ob(rid, h, n.ast, not after, text=f'`{short(n.ast)}` runs before any hook or handler', detail='' if not after else
             f'`{short(n.ast)}` can run after hooks / the handler ran: the cookies they put on the response (set_cookie, delete_cookie) are wiped, and the answer that '
             f'is sent for this request goes out without them', why='a cookie set on a response is read back from the request that returns it', key_extra='reset-after-user-code')


def check_cookie_transfer(P, R, rid):
    """apply() moves the cookies of a returned / raised response onto the live one.  Emptying the live jar and refilling it from the source is only right
    while the two are different objects: it must not be combined with code that hands one response's jar to another by reference."""
    ap = P.func('ombott.response:HTTPResponse.apply')
    rp = ap.params[1]
    clears = [c for c in walk_shallow(ap.node) if isinstance(c, ast.Call) and call_attr(c) == 'clear' and (dotted(c.func.value) or '') == f'{rp}._cookies']
    refills = [c for c in walk_shallow(ap.node) if isinstance(c, ast.Call) and call_attr(c) in ('update', 'load') and (dotted(c.func.value) or '') == f'{rp}._cookies'
               and c.args and 'self._cookies' in src(c.args[0])]
    guarded = any(n.kind == 'test' and n.ast is not None and any(isinstance(x, ast.Compare) and isinstance(x.ops[0], (ast.Is, ast.IsNot)) and '_cookies' in src(x.left) and '_cookies' in src(x.comparators[0]) for x in ast.walk(n.ast))
                  for n in ap.cfg.nodes)
    in_place = bool(clears) and bool(refills) and not guarded
    sharers = []
    for fx in P.all_funcs():
        if fx is ap or not fx.fq.startswith('ombott.') or isinstance(fx.node, ast.Lambda):
            continue
        for st in walk_shallow(fx.node):
            if isinstance(st, ast.Assign) and isinstance(st.value, ast.Attribute) and st.value.attr == '_cookies':
                for t in st.targets:
                    if isinstance(t, ast.Attribute) and t.attr == '_cookies' and src(t.value) != src(st.value.value):
                        sharers.append((fx, st))
    if in_place:
        for (fx, st) in sharers:
            R.ob(rid, fx, st, False, text=f'`{short(st)}` while apply() refills the live jar in place', detail=
                 f'`{short(st)}` makes two response objects share one cookie jar, and HTTPResponse.apply() empties the live response\'s jar before copying the source\'s '
                 f'cookies into it: when both are that one jar (redirect() after set_cookie) it is emptied and nothing is copied - the cookies set before the redirect '
                 f'are never sent', why='a cookie set on a response is read back from the request that returns it', key_extra='jar-shared-and-cleared')
    R.ob(rid, ap, clears[0] if clears else ap.node, not (in_place and sharers), text=f'cookie transfer in apply(): {"in place (clear + refill)" if in_place else "by reference / guarded"}; '
         f'{len(sharers)} other site(s) share a jar between responses', nontrivial=False, key_extra='transfer-summary')
