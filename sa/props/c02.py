"""C02 - Method dispatch: verb, ANY and HEAD fallbacks, 405 with exact Allow."""
import ast

from ..astutil import (walk_shallow, dotted, call_attr, short, src, stmt_of, names_loaded, is_const, enclosing,
                       compare_parts, strip_not, const, bool_operands)
from ..loader import AnalysisError
from .. import rules as T

ID = 'C02'
DECIDED = ('(a) the candidate list handed to the router evaluates to [verb, GET, ANY] for HEAD and [verb, ANY] otherwise (any '
           'spelling: literal, concatenation, append/insert - the function body is abstractly executed under both '
           'assumptions); (b) Route.__getitem__ tries the candidates in the order given and returns the first registered '
           'one, raising the method error only after the loop; (c) every method name written into a route\'s table has been '
           'upper-cased on every registration path (add/overwrite), and the request verb is upper-cased; (d) 404 is produced '
           'only when no route matched and 405 only when one matched and no candidate is registered, the application turns '
           'the 405 triple into HTTPError(405, Allow=<third element>); (e) the Allow text is computed from the route\'s '
           'method table at the time of the request (sorted, comma-joined) - not from a constant list and not from a memo. '
           'Given dict/list semantics these premises imply the statement for the route selected by C01.')
DECIDED_MORE = ('Also: request.method is computed from the environ on every read (no memo).')
DECIDED = DECIDED + ' ' + DECIDED_MORE
DECIDED_R6 = ('Round 6: candidate list evaluated with module constants in scope; every header handed to the response constructor is stored (Allow="" included); the candidate loop may live in resolve() (lookup() returning None): 405 then needs the is-None edge of a search loop that binds None in its else-branch only.')
DECIDED = DECIDED + ' ' + DECIDED_R6
DECIDED_R7 = ('Round 7: no 405 is built outside resolve / handler; Route.methods hands out a copy; the Route registered by _add is fresh or the one the tree holds.')
DECIDED = DECIDED + ' ' + DECIDED_R7
DECIDED_R8 = ('Round 8: the values to_route is given are read after the before_request hooks; default_error_handler returns a body, not a response; premise C11.c (validate before mutate).')
DECIDED = DECIDED + ' ' + DECIDED_R8
DECIDED_R9 = ('Round 9: the named route is the object the handlers were registered on (premise C11.c); `remove_method` removes every listed name - an unregistered one does not end the loop (e).')
DECIDED = DECIDED + ' ' + DECIDED_R9
NOT_DECIDED = 'which route the path selects (C01).'
ASSUMPTIONS = ['dict and list behave as in CPython', 'C01 selects the route']

OM = 'ombott.ombott'
RR = 'ombott.router.radirouter'


class Sym:
    def __init__(self, name):
        self.name = name

    def __repr__(self):
        return f'<{self.name}>'

    def __eq__(self, o):
        return isinstance(o, Sym) and o.name == self.name

    def __hash__(self):
        return hash(self.name)


def abstract_run(stmts, env, assume):
    """execute straight-line code with ifs over symbolic values. `assume(test)` -> bool or None."""
    for st in stmts:
        if isinstance(st, ast.If):
            v = assume(st.test, env)
            if v is None:
                raise T.CannotEval(f'branch on `{short(st.test)}`')
            abstract_run(st.body if v else st.orelse, env, assume)
        elif isinstance(st, ast.Assign):
            val = aeval(st.value, env, assume)
            for t in st.targets:
                if isinstance(t, ast.Name):
                    env[t.id] = val
                elif isinstance(t, ast.Tuple) and isinstance(val, (tuple, list)) and len(t.elts) == len(val):
                    for e, x in zip(t.elts, val):
                        if isinstance(e, ast.Name):
                            env[e.id] = x
                else:
                    pass
        elif isinstance(st, ast.AugAssign) and isinstance(st.target, ast.Name) and isinstance(st.op, ast.Add):
            env[st.target.id] = env[st.target.id] + aeval(st.value, env, assume)
        elif isinstance(st, ast.Expr) and isinstance(st.value, ast.Call) and isinstance(st.value.func, ast.Attribute) \
                and isinstance(st.value.func.value, ast.Name) and st.value.func.value.id in env \
                and isinstance(env[st.value.func.value.id], list):
            lst = env[st.value.func.value.id]
            args = [aeval(a, env, assume) for a in st.value.args]
            m = st.value.func.attr
            if m == 'append':
                lst.append(args[0])
            elif m == 'insert':
                lst.insert(args[0], args[1])
            elif m == 'extend':
                lst.extend(args[0])
            elif m in ('sort', 'reverse', 'remove', 'pop', 'clear'):
                getattr(lst, m)(*args)
            else:
                raise T.CannotEval(f'list method {m}')
        elif isinstance(st, (ast.Return, ast.Expr, ast.Pass)):
            continue
        else:
            raise T.CannotEval(f'statement `{short(st)}`')
    return env


def aeval(node, env, assume):
    if isinstance(node, ast.Name) and node.id in env:
        v = env[node.id]
        return list(v) if isinstance(v, list) and False else v
    if isinstance(node, ast.List):
        out = []
        for e in node.elts:
            if isinstance(e, ast.Starred):
                out.extend(aeval(e.value, env, assume))
            else:
                out.append(aeval(e, env, assume))
        return out
    if isinstance(node, ast.Tuple):
        return tuple(aeval(e, env, assume) for e in node.elts)
    if isinstance(node, ast.Constant):
        return node.value
    if isinstance(node, ast.BinOp) and isinstance(node.op, ast.Add):
        return aeval(node.left, env, assume) + aeval(node.right, env, assume)
    if isinstance(node, ast.IfExp):
        v = assume(node.test, env)
        if v is None:
            raise T.CannotEval(f'conditional on `{short(node.test)}`')
        return aeval(node.body if v else node.orelse, env, assume)
    if isinstance(node, ast.Call):
        return Sym('call:' + short(node, 60))
    if isinstance(node, ast.Attribute):
        return Sym('attr:' + src(node))
    raise T.CannotEval(short(node))


def check(P, R):
    R.rule('C02.a', 'candidate list [verb, GET if HEAD, ANY]', floor=2)
    R.rule('C02.b', 'first registered candidate wins', floor=3)
    R.rule('C02.c', 'method names upper-cased on every registration path and on the request side', floor=4)
    R.rule('C02.d', '404 / 405 split', floor=4)
    R.rule('C02.e', 'Allow computed from the method table at request time', floor=1)

    # ---- a
    f = P.func(f'{OM}:Ombott.to_route')
    verb_p = f.params[2]
    calls = [c for c in walk_shallow(f.node) if isinstance(c, ast.Call) and call_attr(c) == 'resolve']
    R.require(len(calls) == 1, 'to_route: expected one router.resolve call')
    marg = calls[0].args[1] if len(calls[0].args) > 1 else None
    R.require(marg is not None, 'to_route: resolve() is not given a method list')
    VERB = Sym('verb')
    for is_head in (True, False):
        def assume(test, env, is_head=is_head):
            cp = compare_parts(test)
            if cp and isinstance(cp[0], ast.Name) and cp[0].id == verb_p and isinstance(cp[2], ast.Constant) and cp[2].value == 'HEAD':
                if cp[1] is ast.Eq:
                    return is_head
                if cp[1] is ast.NotEq:
                    return not is_head
            if cp and isinstance(cp[2], ast.Name) and cp[2].id == verb_p and isinstance(cp[0], ast.Constant) and cp[0].value == 'HEAD':
                return is_head if cp[1] is ast.Eq else (not is_head if cp[1] is ast.NotEq else None)
            if cp and cp[1] is ast.In and isinstance(cp[0], ast.Name) and cp[0].id == verb_p:
                try:
                    return ('HEAD' in T.ceval(f, cp[2])) if is_head else None
                except T.CannotEval:
                    return None
            return None
        env = dict(T.module_consts(f.module))
        env[verb_p] = VERB
        try:
            # execute up to the resolve call
            stmts = []
            for st in f.node.body:
                if any(x is calls[0] for x in ast.walk(st)):
                    break
                stmts.append(st)
            abstract_run(stmts, env, assume)
            got = aeval(marg, env, assume)
        except T.CannotEval as e:
            raise AnalysisError(f'to_route: candidate list cannot be evaluated ({e})')
        want = [VERB, 'GET', 'ANY'] if is_head else [VERB, 'ANY']
        ok = list(got) == want if isinstance(got, (list, tuple)) else False
        R.ob('C02.a', f, marg, ok, text=f'methods for {"HEAD" if is_head else "other verbs"} = {got}',
             detail='' if ok else f'expected {want}: the fallback order is verb, then GET (for HEAD), then ANY',
             why='a HEAD request on a route with GET and ANY handlers must reach the GET handler', key_extra=str(is_head))

    # ---- b
    gi = P.func(f'{RR}:Route.__getitem__')
    fors = [n for n in walk_shallow(gi.node) if isinstance(n, ast.For)]
    R.require(len(fors) == 1, 'Route.__getitem__: expected one loop over the candidates')
    check_candidates_loop(R, gi, fors[0], gi.params[1], 'self')
    lp = fors[0]
    raises = [n for n in walk_shallow(gi.node) if isinstance(n, ast.Raise)]
    ok = bool(raises) and all(not T._inside(r, lp.body) and 'RouteMethodError' in src(r) for r in raises)
    R.ob('C02.b', gi, raises[0] if raises else gi.node, ok, text='RouteMethodError only after the loop', detail='' if ok else
         'the method error is raised before all candidates were tried')

    # ---- c: upper-casing, interprocedural
    memo = {}

    def arg_upper(fn, expr, at):
        """expr evaluated in fn derives from an upper-cased value or from a parameter that is upper at all call sites"""
        cl = fn.rd.closure(expr, at)
        nodes = [x for (x, _) in cl if isinstance(x, ast.AST)]
        if any(isinstance(x, ast.Call) and call_attr(x) == 'upper' for x in nodes):
            return True
        params = [x.id for x in nodes if isinstance(x, ast.Name) and x.id in fn.params and
                  any(d.kind == 'param' for (d, _) in cl if not isinstance(d, ast.AST) and d.name == x.id)]
        return any(param_upper(fn, p) for p in params)

    def param_upper(fn, p):
        key = (fn.fq, p)
        if key in memo:
            return memo[key]
        memo[key] = False
        idx = fn.params.index(p)
        sites = []
        for cf in P.all_funcs():
            if cf.module.name.endswith('server_adapters'):
                continue
            for c in walk_shallow(cf.node):
                via_alias = False
                if isinstance(c, ast.Call) and isinstance(c.func, ast.Name) and not isinstance(cf.node, ast.Lambda) and cf.rd.is_local(c.func.id):
                    # register = route.set_method if overwrite else route.add_method; register(methods, ...)
                    ns_ = cf.cfg.node_of_stmt(c)
                    via_alias = bool(ns_) and any(isinstance(x, ast.Attribute) and x.attr == fn.name
                                                  for x in cf.rd.closure_nodes(c.func, ns_[0], follow_mut=False))
                if isinstance(c, ast.Call) and ((call_attr(c) == fn.name and isinstance(c.func, ast.Attribute)) or via_alias):
                    # self.<name>(...) / route.<name>(...): positional index shifts by one for bound calls
                    ai = idx - 1
                    a = c.args[ai] if 0 <= ai < len(c.args) else None
                    for kw in c.keywords:
                        if kw.arg == p:
                            a = kw.value
                    if a is not None:
                        sites.append((cf, c, a))
        res = bool(sites) and all(arg_upper(cf, a, cf.cfg.node_of_stmt(c)[0]) for (cf, c, a) in sites)
        memo[key] = res
        return res

    sm = P.maybe_func(f'{RR}:Route._set_methods')
    if sm is not None:
        stores = [st for st in walk_shallow(sm.node) if isinstance(st, ast.Assign) and any(
            isinstance(t, ast.Subscript) and dotted(t.value) == 'self._methods' for t in st.targets)]
        R.require(stores, 'Route._set_methods: no store into self._methods')
    # all writers of _methods in the package
    writers = []
    for wf in P.all_funcs():
        for st in walk_shallow(wf.node):
            if isinstance(st, ast.Assign) and any(isinstance(t, ast.Subscript) and (dotted(t.value) or '').endswith('._methods') for t in st.targets):
                writers.append((wf, st))
    for (wf, st) in writers:
        t = [t for t in st.targets if isinstance(t, ast.Subscript)][0]
        sn = wf.cfg.node_of_stmt(st)[0]
        v_ = T.expand(wf, st.value, sn)
        own = isinstance(v_, ast.Call) and (dotted(v_.func) or '').split('.')[-1] == 'RouteMethod' and len(v_.args) >= 2 and src(v_.args[1]) == src(t.slice)
        R.ob('C02.e', wf, st, own, text=f'{short(st)}: each method name gets its own RouteMethod named after it', detail='' if own else
             f'the entry stored under `{short(t.slice)}` is not a RouteMethod built for that very name (a record shared by several names removes / reports the wrong '
             f'method: route.methods[\'PATCH\'].remove() drops PUT, and Allow lists a method that is gone)',
             why='Allow lists exactly the methods registered on that route', key_extra='own-record')
        ok = arg_upper(wf, t.slice, sn)
        R.ob('C02.c', wf, st, ok, detail='' if ok else
             'a method name reaches the route\'s table without having been upper-cased on some registration path '
             '(e.g. overwrite=True with a lower-case spelling stores under "get")',
             why='method names are matched case-insensitively')
    # the two registration entry points reach _set_methods
    for name in ('set_method', 'add_method'):
        mf = P.func(f'{RR}:Route.{name}')
        calls_ = T.calls_to(mf, 'self._set_methods')
        if sm is None:
            # the shared helper was merged into the entry points: each must store into the table itself (checked as a writer above)
            calls_ = [st for (wf, st) in writers if wf is mf]
        R.ob('C02.c', mf, calls_[0] if calls_ else mf.node, bool(calls_), text=f'{name} -> _set_methods', detail='' if calls_ else
             f'{name} does not register through _set_methods', nontrivial=False)
    pm = P.func('ombott.request_pkg.props_mixin:PropsMixin.method')
    rets = [n for n in walk_shallow(pm.node) if isinstance(n, ast.Return)]
    ok = bool(rets) and all(isinstance(r.value, ast.Call) and call_attr(r.value) == 'upper' for r in rets)
    R.ob('C02.c', pm, rets[0] if rets else pm.node, ok, text='request.method upper-cased', detail='' if ok else 'the request verb is not upper-cased')
    # ... and read from the environ at dispatch time: a memoised verb is the verb of the first read, not the one the request carries when it is routed
    check_plain_property(P, R, 'C02.a', 'ombott.request_pkg.props_mixin:PropsMixin.method', 'request.method',
                         'nothing drops the memo when REQUEST_METHOD changes: after a before_request hook that reads the verb and then rewrites it (method override), '
                         'the request is routed by the verb of the first read', 'the request goes to the handler registered for its method')
    # the Allow header the handler gives to HTTPError(405, Allow=...) reaches the response whatever its value (empty when every method was removed)
    from . import c14 as _c14
    _c14.check_ctor_stores_every_header(P, R, 'C02.d', '405 carries an Allow header listing exactly the registered methods - also when there are none left')
    h = P.func(f'{OM}:Ombott._handle')
    tc = T.calls_to(h, 'self.to_route')
    def _req_attr(e, attr, at):
        e = T.expand(h, e, at)
        if dotted(e) == f'self.request.{attr}':
            return True
        if not (isinstance(e, ast.Attribute) and e.attr == attr):
            return False
        cl = h.rd.closure_nodes(e.value, at)
        return any(isinstance(x, ast.Attribute) and dotted(x) == 'self.request' for x in cl)
    ok = False
    if tc and len(tc[0].args) == 2:
        at_ = h.cfg.node_of_stmt(tc[0])[0]
        ok = _req_attr(tc[0].args[0], 'path', at_) and _req_attr(tc[0].args[1], 'method', at_)
    # ... read when the request is routed, i.e. after the before-request hooks ran (a hook may rewrite the verb or the path: method override, prefix stripping)
    if ok and tc:
        g_ = h.cfg
        emits_ = [g_.node_of_stmt(c)[0] for c in walk_shallow(h.node) if isinstance(c, ast.Call) and call_attr(c) == 'emit' and c.args and is_const(c.args[0], 'before_request')]
        at_ = g_.node_of_stmt(tc[0])[0]
        early = []
        for a_ in tc[0].args[:2]:
            if isinstance(a_, ast.Name) and h.rd.is_local(a_.id):
                for d_ in h.rd.at(at_, a_.id):
                    if d_.node is not None and emits_ and not g_.must_pass(g_.entry, d_.node, emits_):
                        early.append(d_)
        R.ob('C02.a', h, early[0].stmt if early else tc[0], not early, text='the verb and the path are read after the before_request hooks', detail='' if not early else
             f'`{short(early[0].stmt)}` reads the request before `emit(\'before_request\')`: a hook that rewrites REQUEST_METHOD or PATH_INFO (method override, prefix '
             f'stripping) is ignored by the dispatch - the rewritten request reaches the wrong handler, or 404 / 405 is answered for the stale verb and path',
             why='the request goes to the handler registered for its method', key_extra='read-after-hooks')
    R.ob('C02.c', h, tc[0] if tc else h.node, ok, text='to_route(request.path, request.method)', detail='' if ok else
         '_handle does not route on (request.path, request.method)')

    # ---- d
    rs = P.func(f'{RR}:RadiRouter.resolve')
    g, rd = rs.cfg, rs.rd
    rets = [n for n in walk_shallow(rs.node) if isinstance(n, ast.Return) and n.value is not None]
    get_calls = T.calls_to(rs, 'self.radidict.get')
    R.require(get_calls, 'resolve: no radidict.get call')
    route_name = None
    st = stmt_of(get_calls[0])
    if isinstance(st, ast.Assign) and isinstance(st.targets[0], ast.Tuple):
        route_name = st.targets[0].elts[0].id
    R.require(route_name, 'resolve: cannot find the route variable')
    found_tests = [(n, lab) for (n, lab) in T.falsy_tests(g, route_name)]
    n404 = n405 = 0
    witnesses = None
    sites = []          # (return statement, node at which the answer is decided, its value)
    for r in rets:
        rn = g.node_of_stmt(r)[0]
        if isinstance(r.value, ast.Tuple) and all(isinstance(e, ast.Name) for e in r.value.elts) and \
                any(len(rs.rd.at(rn, e.id)) > 1 for e in r.value.elts):
            # single exit `return end_point, error`: every assignment of a result variable decides the answer where it stands
            for e in r.value.elts:
                for d in rs.rd.at(rn, e.id):
                    if d.value is not None:
                        sites.append((d.stmt, d.node, d.value))
        else:
            sites.append((r, rn, T.expand(rs, r.value, rn)))
    for (r, rn, val_) in sites:
        codes = [x.value for x in ast.walk(val_) if isinstance(x, ast.Constant) and x.value in (404, 405)]
        for code in codes:
            if code == 404:
                n404 += 1
                ok = any(g.edge_dominates(n, lab, rn) for (n, lab) in found_tests)
                R.ob('C02.d', rs, r, ok, detail='' if ok else '404 is returned on a path where a route was found',
                     why='404 is never given for a path that matches a route')
            else:
                n405 += 1
                ok = any(g.edge_dominates(n, 'false' if lab == 'true' else 'true', rn) for (n, lab) in found_tests if lab in ('true', 'false')) \
                    or all(not g.can_reach(s, rn) for (n, lab) in found_tests for s in T.succ_by_label(n, lab))
                # and only after the method lookup failed
                if witnesses is None:
                    witnesses = lookup_failed_witnesses(R, rs, route_name)
                handlers = [w for (w, lab) in witnesses if lab is None]
                ok2 = (bool(handlers) and g.must_pass(g.entry, rn, handlers)) or \
                    any(g.edge_dominates(w, lab, rn) for (w, lab) in witnesses if lab is not None)
                R.ob('C02.d', rs, r, ok and ok2, detail='' if ok and ok2 else
                     ('405 is returned on a path where no route was found' if not ok else '405 is returned without the method lookup having failed'),
                     why='405 is never given for a path that matches no route')
    R.require(n404 >= 1 and n405 >= 1, 'resolve: 404/405 returns not found')
    hd = P.func(f'{OM}:Ombott.handler')
    raises = [n for n in walk_shallow(hd.node) if isinstance(n, ast.Raise) and isinstance(n.exc, ast.Call) and dotted(n.exc.func) == 'HTTPError']
    t405 = [n for n in hd.cfg.nodes if n.kind == 'test' and compare_parts(n.ast) and is_const(compare_parts(n.ast)[2], 405)
            and compare_parts(n.ast)[1] is ast.Eq]
    R.require(t405, 'handler: no `status == 405` test')
    ok = False
    for r in raises:
        rn = hd.cfg.node_of_stmt(r)[0]
        if hd.cfg.edge_dominates(t405[0], 'true', rn):
            kws = {k.arg: k.value for k in r.exc.keywords}
            unp = [s for s in walk_shallow(hd.node) if isinstance(s, ast.Assign) and isinstance(s.targets[0], ast.Tuple) and len(s.targets[0].elts) == 3]
            third = unp[0].targets[0].elts[2].id if unp else None
            first = unp[0].targets[0].elts[0].id if unp else None
            ok = 'Allow' in kws and T.xsrc(hd, kws['Allow'], rn, keep=(third,)) == third and r.exc.args and T.xsrc(hd, r.exc.args[0], rn, keep=(first,)) == first
    R.ob('C02.d', hd, t405[0].ast, ok, text='405 -> raise HTTPError(status, body, Allow=<third element>)', detail='' if ok else
         'the 405 answer does not carry the Allow header built by the router')
    raise404 = [r for r in raises if not hd.cfg.edge_dominates(t405[0], 'true', hd.cfg.node_of_stmt(r)[0])]
    ok = bool(raise404) and all(not r.exc.keywords for r in raise404)
    R.ob('C02.d', hd, raise404[0] if raise404 else hd.node, ok, text='404 -> raise HTTPError(status, body)', detail='' if ok else '404 branch malformed',
         nontrivial=False)

    check_truthy_classes(P, R, 'C02.d', '405 for a path that matches a route; never 404')
    # who may answer 405: the router's verdict only (resolve() builds it, handler() raises what it was given)
    n405_sites = 0
    for fx in P.all_funcs():
        if fx.module.name.endswith('server_adapters') or isinstance(fx.node, ast.Lambda):
            continue
        for c in walk_shallow(fx.node):
            site = None
            if isinstance(c, ast.Call) and (dotted(c.func) or '').split('.')[-1] in ('HTTPError', 'HTTPResponse', 'abort'):
                vals = list(c.args[:1]) + [k.value for k in c.keywords if k.arg in ('status', 'code')]
                if any(is_const(v, 405) or (isinstance(v, ast.Constant) and isinstance(v.value, str) and v.value.startswith('405')) for v in vals):
                    site = c
            elif isinstance(c, ast.Assign) and any(isinstance(t, ast.Attribute) and t.attr in ('status', '_status_code') for t in c.targets) and \
                    (is_const(c.value, 405) or (isinstance(c.value, ast.Constant) and isinstance(c.value.value, str) and c.value.value.startswith('405'))):
                site = c
            if site is not None:
                n405_sites += 1
                R.ob('C02.d', fx, site, False, text=f'`{short(site)}` in {fx.qual}: 405 decided outside the router', detail=
                     f'`{short(site)}` answers 405 without the router having matched the path and found the method missing: a path that matches no route gets 405 '
                     f'instead of 404, a route\'s ANY handler is not tried for that verb, and the Allow header does not list the methods registered on the route',
                     why='405 only for a path that matches a route, with exactly that route\'s methods in Allow', key_extra='who-405')
    R.ob('C02.d', rs, None, True, text=f'sites that build a 405 outside RadiRouter.resolve / Ombott.handler: {n405_sites} (each reported above)', nontrivial=False)

    # the 405 built by handler() keeps its Allow header on the way out: the error handler produces the *body* of the response that is being sent - a new response
    # object returned from it is applied over the live one, headers first
    eh_ = P.maybe_func(f'{OM}:Ombott.default_error_handler')
    if eh_ is not None:
        fresh_ = [c for c in walk_shallow(eh_.node) if isinstance(c, ast.Call) and (dotted(c.func) or '').split('.')[-1] in ('HTTPResponse', 'HTTPError', 'BaseResponse')]
        R.ob('C02.d', eh_, fresh_[0] if fresh_ else eh_.node, not fresh_, text='default_error_handler returns a body, not a new response', detail='' if not fresh_ else
             f'`{short(fresh_[0])}` returned from the error handler is applied over the response being sent: its header set replaces the one of the error, so a 405 answered to a '
             f'client that asked for JSON keeps status and body but loses the Allow header',
             why='405 carries an Allow header listing exactly the registered methods', key_extra='handler-returns-response')
    from ..report import run_premise
    from . import c11 as _c11p
    run_premise(R, _c11p, P, {'C11.c'}, 'C02.e', 'a rejected registration registers nothing: a rule that was never accepted answers 404, and the methods of a refused add are not in Allow')
    # ---- e
    # the public view of a route's method table is a copy: the table itself handed out is edited behind the router's back, and
    # `for name in route.methods: route.remove_method(name)` (removal of every method, one by one) dies on the first removal
    rc_ = P.cls(f'{RR}:Route')
    for pname_, pm_ in rc_.methods.items():
        if not any(dotted(d_) == 'property' for d_ in pm_.node.decorator_list):
            continue
        for (v_, at_, rst_) in T.result_values(pm_):
            vx_ = T.expand(pm_, v_, at_) if v_ is not None else None
            if vx_ is not None and dotted(vx_) == 'self._methods':
                R.ob('C02.e', pm_, rst_, False, text=f'Route.{pname_} hands out a copy of the method table', detail=
                     f'Route.{pname_} returns `self._methods` itself: a caller that edits the returned mapping de-registers methods without the router knowing, and removing '
                     f'the methods one by one while iterating over it (`for name in route.{pname_}: route.remove_method(name)`) raises "dictionary changed size during '
                     f'iteration" after the first removal - the remaining methods stay registered',
                     why='after per-method removal the route answers with exactly the methods left', key_extra='table-handed-out')
            elif vx_ is not None and any(isinstance(x_, ast.Attribute) and dotted(x_) == 'self._methods' for x_ in ast.walk(vx_)):
                R.ob('C02.e', pm_, rst_, True, text=f'Route.{pname_} hands out a copy of the method table')
    # remove_method removes every name it is given: an unregistered name in the list does not end the removal of the others
    rmm_ = rc_.methods.get('remove_method')
    if rmm_ is not None:
        n_rm = 0

        def _tbl(e_):
            # `self._methods`, or a local that is a plain copy of it
            if dotted(e_) == 'self._methods':
                return True
            if isinstance(e_, ast.Name) and rmm_.rd.is_local(e_.id):
                ds_ = [d for n2_ in rmm_.cfg.nodes for d in rmm_.rd.gen.get(n2_, []) if d.name == e_.id]
                return bool(ds_) and all(d.value is not None and dotted(d.value) == 'self._methods' for d in ds_)
            return False
        for st_ in walk_shallow(rmm_.node):
            removal = None
            if isinstance(st_, ast.Delete) and any(isinstance(t_, ast.Subscript) and _tbl(t_.value) for t_ in st_.targets):
                removal = st_
            elif isinstance(st_, ast.Call) and call_attr(st_) == 'pop' and _tbl(st_.func.value) and len(st_.args) == 1:
                removal = st_
            elif isinstance(st_, ast.Call) and call_attr(st_) == 'pop' and _tbl(st_.func.value):
                n_rm += 1
            if removal is None:
                continue
            n_rm += 1
            loops_ = [l_ for l_ in T.loops_of(removal)]
            tr_ = enclosing(removal, ast.Try)
            catches = tr_ is not None and any(h_.type is None or 'KeyError' in src(h_.type) or 'LookupError' in src(h_.type) or src(h_.type) in ('Exception',) for h_ in tr_.handlers)
            outside = bool(loops_) and catches and not T._inside(tr_, loops_[0].body)
            R.ob('C02.e', rmm_, removal, not outside, text=f'`{short(removal)}`: an unregistered name does not end the removal of the others', detail='' if not outside else
                 f'`{short(removal)}` raises for a name that is not registered, and the handler that catches it sits around the whole loop: the names behind the first '
                 f'unregistered one stay registered - remove_method([\'PATCH\', \'GET\']) leaves GET served and listed in Allow',
                 why='after per-method removal the route answers with exactly the methods left', key_extra='remove-all-listed')
        R.require(n_rm >= 1, 'Route.remove_method: no removal from the method table found')
    from . import c11 as _c11
    _c11.check_fresh_route(P, R, 'C02.e', 'after removal and re-registration the route answers with exactly the methods registered last')
    for r in rets:
        rn = g.node_of_stmt(r)[0]
        xv = T.expand(rs, r.value, rn)
        if not any(isinstance(x, ast.Constant) and x.value == 405 for x in ast.walk(xv)):
            continue
        third = xv.elts[1].elts[2] if isinstance(xv, ast.Tuple) and isinstance(xv.elts[1], (ast.List, ast.Tuple)) and len(xv.elts[1].elts) == 3 else None
        R.require(third is not None, 'resolve: 405 triple not recognised')
        ok, det = allow_from_table(P, rs, third, rn, route_name)
        R.ob('C02.e', rs, r, ok, text=f'Allow = {short(third)}', detail=det,
             why='Allow lists exactly the methods registered on that route')


def check_truthy_classes(P, R, rid, why):
    """route objects are tested by truthiness (`if not route`, `if route_`, `if pnode[DATA]`): the classes must be unconditionally truthy"""
    for cfq in (f'{RR}:Route', f'{RR}:RouteMethod'):
        c = P.cls(cfq)
        bad = [m for k in P.mro(c) for m in ('__len__', '__bool__') if m in k.methods]
        R.ob(rid, c.fq, None, not bad, text=f'{c.name} defines neither __len__ nor __bool__', detail='' if not bad else
             f'{c.name} defines {bad}: an instance can be falsy (e.g. a route whose methods were all removed), and the router\'s `if not route` / '
             f'`if route_` / `if pnode[DATA]` tests then treat a registered route as absent: the path falls through to a wildcard sibling or to 404 instead of '
             f'selecting the registered rule (405), or the rule is registered twice',
             why=why, key_extra=c.name)


def check_candidates_loop(R, gi, lp, mp, recv):
    """the loop over the candidate method names (in Route.__getitem__, or a copy of it in the router): candidates in the order
    given, the first registered one wins"""
    g, rd = gi.cfg, gi.rd

    def in_order(name, at, depth=0):
        # every definition of the iterated name is the candidates parameter itself, a copy of it, or the one-item list [param]
        ds = rd.at(at, name)
        if not ds or depth > 4:
            return False
        for d in ds:
            if d.kind == 'param' and d.name == mp:
                continue
            if d.kind == 'assign' and isinstance(d.value, ast.List) and len(d.value.elts) == 1 and isinstance(d.value.elts[0], ast.Name) \
                    and in_order(d.value.elts[0].id, d.node, depth + 1):
                continue
            if d.kind == 'assign' and isinstance(d.value, ast.Name) and in_order(d.value.id, d.node, depth + 1):
                continue
            return False
        return True
    ok = isinstance(lp.iter, ast.Name) and in_order(lp.iter.id, g.nodes_for(lp)[0])
    R.ob('C02.b', gi, lp, ok, text=f'for name in {short(lp.iter)}', detail='' if ok else
         'the candidates are not iterated in the order given (sorted / set / reversed / re-bound)')
    table = f'{recv}._methods'
    tname = lp.target.id if isinstance(lp.target, ast.Name) else ''
    head_ = g.nodes_for(lp)[0]

    def entry_of_candidate(x):
        return (isinstance(x, ast.Call) and call_attr(x) == 'get' and dotted(x.func.value) == table
                and x.args and isinstance(x.args[0], ast.Name) and x.args[0].id == tname) or \
               (isinstance(x, ast.Subscript) and dotted(x.value) == table)
    if gi.name == '__getitem__':
        rets = [n for n in walk_shallow(gi.node) if isinstance(n, ast.Return) and n.value is not None and not is_const(n.value, None)]
        vals = [(r, r.value, g.node_of_stmt(r)[0]) for r in rets]
    else:
        # the copy in the router: the values that leave the loop through a break
        vals = []
        for st in walk_shallow(lp):
            if isinstance(st, ast.Break) and T._inside(st, lp.body):
                bn = g.node_of_stmt(st)[0]
                for n_ in g.nodes:
                    for d in rd.gen.get(n_, []):
                        if d.kind == 'assign' and d.value is not None and T._inside(d.stmt, lp.body) and g.dominates(n_, bn) \
                                and not any(entry_of_candidate(x) for x in ast.walk(d.value)) and not is_const(d.value, None):
                            vals.append((d.stmt, d.value, n_))
    ok = bool(vals)
    for (r, v, rn) in vals:
        cl = rd.closure_nodes(v, rn)
        ok = ok and any(entry_of_candidate(x) for x in cl)
    # the first hit ends the search: from the truthy edge of the test on the looked-up entry the loop head is not reached again
    hits = []
    for tn in g.nodes:
        if tn.kind == 'test' and T._inside(tn.ast, lp.body):
            t_, neg_ = strip_not(tn.ast)
            if isinstance(t_, ast.Name) and any(d.value is not None and isinstance(d.value, ast.Call) and call_attr(d.value) == 'get'
                                                for d in rd.at(tn, t_.id)):
                hits.append((tn, 'false' if neg_ else 'true'))
            cp_ = compare_parts(t_)
            if cp_ and cp_[1] in (ast.IsNot, ast.Is) and is_const(cp_[2], None) and isinstance(cp_[0], ast.Name):
                hits.append((tn, ('true' if cp_[1] is ast.IsNot else 'false') if not neg_ else ('false' if cp_[1] is ast.IsNot else 'true')))
    ok = ok and bool(hits) and all(not g.can_reach(s_, head_) for (tn, lab) in hits for s_ in T.succ_by_label(tn, lab))
    R.ob('C02.b', gi, vals[0][0] if vals else lp, ok, text=f'{table}[<candidate>] on the first hit', detail='' if ok else
         'the loop does not return the table entry of the first registered candidate')


def lookup_failed_witnesses(R, rs, route_name):
    """(node, label) pairs: control passes there only when the method lookup on the matched route failed.  Either the handler of
    RouteMethodError (label None), or the `is None` / falsy edge of a test on the result of a search loop over the route's
    table that binds None in its else-branch only."""
    g, rd = rs.cfg, rs.rd
    out = [(hh, None) for hh in g.nodes if hh.kind == 'except' and 'RouteMethodError' in src(hh.ast.type or ast.Constant(value=''))]
    table = f'{route_name}._methods'
    loops = [lp for lp in walk_shallow(rs.node) if isinstance(lp, ast.For) and lp.orelse and any(
        isinstance(x, ast.Attribute) and dotted(x) == table for b in lp.body for x in ast.walk(b))]
    for lp in loops:
        check_candidates_loop(R, rs, lp, rs.params[2], route_name)
        for tn in g.nodes:
            if tn.kind != 'test' or T._inside(tn.ast, lp.body) or T._inside(tn.ast, lp.orelse):
                continue
            t_, neg_ = strip_not(tn.ast)
            cp_ = compare_parts(t_)
            if cp_ and cp_[1] in (ast.Is, ast.IsNot) and is_const(cp_[2], None) and isinstance(cp_[0], ast.Name):
                v, lab = cp_[0].id, ('true' if cp_[1] is ast.Is else 'false')
            elif isinstance(t_, ast.Name):
                v, lab = t_.id, 'false'
            else:
                continue
            if neg_:
                lab = 'false' if lab == 'true' else 'true'
            ds = rd.at(tn, v)
            nones = [d for d in ds if d.value is not None and is_const(d.value, None)]
            others = [d for d in ds if d not in nones]
            if nones and all(d.stmt is not None and T._inside(d.stmt, lp.orelse) for d in nones) and \
                    all(d.stmt is not None and T._inside(d.stmt, lp.body) for d in others):
                out.append((tn, lab))
    return out


def allow_from_table(P, fn, expr, at, route_name, depth=0):
    cl = fn.rd.closure_nodes(expr, at)
    consts = [x for x in cl if isinstance(x, ast.Name) and x.id == 'HTTP_METHODS']
    if consts:
        return False, 'Allow is built from the constant list of HTTP methods'
    join = [x for x in cl if isinstance(x, ast.Call) and call_attr(x) == 'join' and isinstance(x.func.value, ast.Constant)]
    attrs = [x for x in cl if isinstance(x, ast.Attribute) and isinstance(x.value, ast.Name) and x.value.id == route_name]
    route_cls = P.cls(f'{RR}:Route')
    for a in attrs:
        if a.attr in ('_methods',):
            return _join_ok(join)
        getter = route_cls.methods.get(a.attr)
        if getter is not None and any(dotted(d) == 'property' for d in getter.node.decorator_list):
            rets = [n for n in walk_shallow(getter.node) if isinstance(n, ast.Return) and n.value is not None]
            good = True
            why = ''
            for r in rets:
                gcl = getter.rd.closure_nodes(r.value, getter.cfg.node_of_stmt(r)[0])
                direct = any(isinstance(x, ast.Attribute) and dotted(x) == 'self._methods' for x in gcl)
                if not direct:
                    good = False
                    memo_attr = [dotted(x) for x in gcl if isinstance(x, ast.Attribute) and (dotted(x) or '').startswith('self.')]
                    why = (f'Route.{a.attr} returns {memo_attr or short(r.value)}: a value remembered from an earlier request, '
                           f'not the method table as it is now (stale after remove_method / overwrite)')
            if not good:
                return False, why
            if a.attr == 'methods':
                return _join_ok(join)
            # a property that itself joins
            return True, ''
    return False, 'Allow does not derive from the matched route\'s method table'


def _join_ok(join):
    if not join:
        return False, 'Allow is not a comma-joined list'
    j = join[0]
    ok = j.func.value.value.strip() == ',' and j.args and isinstance(j.args[0], ast.Call) and dotted(j.args[0].func) == 'sorted'
    return ok, '' if ok else 'Allow is not ",".join(sorted(<registered methods>))'


def check_plain_property(P, R, rid, fq, what, consequence, why):
    """the accessor is a plain property: computed from the environ on every read, not memoised (in the environ or elsewhere)"""
    pm = P.func(fq)
    decos = [src(d) for d in pm.node.decorator_list]
    cached = [d for d in decos if d.split('(')[0].split('.')[-1] in ('cache_in', 'cached_property', 'lru_cache', 'cache')]
    if cached or decos == ['property']:
        R.ob(rid, pm, pm.node, not cached, text=f'{what} is computed from the environ on every read', detail='' if not cached else
             f'{what} is memoised by `{cached[0]}`: {consequence}', why=why, key_extra=f'plain-property:{pm.name}')
    else:
        R.undecided(rid, pm, pm.node, what, f'decorators {decos} are neither a plain property nor a known memoiser')
