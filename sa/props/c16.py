"""C16 - static_file never serves a file outside its root."""
import ast

from ..astutil import (walk_shallow, dotted, call_attr, short, src, stmt_of, names_loaded, is_const, enclosing,
                       compare_parts, strip_not, const)
from ..loader import AnalysisError
from .. import rules as T

ID = 'C16'
DECIDED = ('(a) every file-opening call in static_stream.py is enumerated; (b) each is dominated by the pass edge of '
           '`name.startswith(root)` whose other edge returns 403/404; (c) at the guard `root` is abspath(<root argument>) + '
           'separator (separator appended outside abspath, computed on every call - no memoisation of a cwd-dependent '
           'value) and `name` is abspath(join(root, <filename argument>)) with that same root; (d) the path opened, '
           'stat-ed and tested is the very definition of `name` the guard tested (no rebinding in between); (e) the '
           'exists/isfile and access tests dominate the open with 404/403 on their failing edges. With os.path.abspath '
           'normalising lexically this gives: every opened path has the normalised root directory as a proper ancestor.')
DECIDED_R6 = ('Round 6: test tables and a None sentinel of a locating helper are normalised away; containment is a prefix test against root + separator.')
DECIDED = DECIDED + ' ' + DECIDED_R6
DECIDED_R7 = ('Round 7: all() / any() over literal tuples of tests and walrus forms are normalised away.')
DECIDED = DECIDED + ' ' + DECIDED_R7
DECIDED_R8 = ('Round 8: every answer other than 403 / 404 lies behind the pass edge of the containment test.')
DECIDED = DECIDED + ' ' + DECIDED_R8
NOT_DECIDED = 'symlinks inside the root (outside the statement\'s "normalised location"); behaviour of os.path itself.'
ASSUMPTIONS = ['os.path.abspath normalises "."/".."/repeated separators lexically and returns no trailing separator',
               'os.path.join(root, x) with x stripped of leading separators stays relative to root']

SS = 'ombott.static_stream'
OPENERS = {'open', 'io.open', 'os.open', 'os.fdopen', 'codecs.open'}
OPEN_ATTRS = {'open', 'read_bytes', 'read_text'}
CACHE_DECOS = {'lru_cache', 'cache', 'functools.lru_cache', 'functools.cache', 'cached_property', 'functools.cached_property'}


def file_sinks(f):
    out = []
    for c in walk_shallow(f.node):
        if not isinstance(c, ast.Call):
            continue
        d = dotted(c.func)
        if d in OPENERS:
            out.append(c)
        elif isinstance(c.func, ast.Attribute) and c.func.attr in OPEN_ATTRS and d not in ('os_path.open',):
            # Path(...).open / .read_bytes
            if d is None or not d.startswith(('self.', 'html.')):
                out.append(c)
            elif d.startswith('html.'):
                out.append(c)
    return out


def deny_return(g, node, label, statuses):
    """the given edge of a test leads (without branching back) to a `return HTTPError(<status>, ...)`"""
    for s in T.succ_by_label(node, label):
        n = s
        seen = 0
        while n is not None and seen < 4:
            if n.kind == 'stmt' and isinstance(n.ast, ast.Return) and isinstance(n.ast.value, ast.Call) \
                    and dotted(n.ast.value.func) in ('HTTPError', 'HTTPResponse'):
                a = n.ast.value.args
                st = const(a[0]) if a else None
                for kw in n.ast.value.keywords:
                    if kw.arg == 'status':
                        st = const(kw.value)
                return st in statuses, st
            if n.kind == 'stmt' and isinstance(n.ast, ast.Raise):
                return True, 'raise'
            nxt = [m for (m, l) in n.succ if l == 'next']
            n = nxt[0] if len(nxt) == 1 and n.kind in ('join', 'stmt') else None
            seen += 1
    return False, None


def deny_return_ps(X, node, label, statuses, sinks):
    """path-sensitive form: every feasible path that starts with the given edge ends in `return HTTPError(<status>)` (the value may
    have been parked in a local on the way) or a raise, before any sink"""
    terms = X.terminals_from_edge(node, label, until=sinks)
    if not terms:
        return False, None
    st_seen = None
    for (n, state) in terms:
        if n.kind == 'stmt' and isinstance(n.ast, ast.Raise):
            st_seen = st_seen or 'raise'
            continue
        if not (n.kind == 'stmt' and isinstance(n.ast, ast.Return)):
            return False, None
        v = X.value_at(n, state, n.ast.value) if n.ast.value is not None else None
        if not (isinstance(v, ast.Call) and dotted(v.func) in ('HTTPError', 'HTTPResponse')):
            return False, None
        st = const(v.args[0]) if v.args else None
        for kw in v.keywords:
            if kw.arg == 'status':
                st = const(kw.value)
        if st not in statuses:
            return False, st
        st_seen = st
    return True, st_seen


def deref(f, e, at):
    """follow a local temporary to the expression bound to it (one reaching, non self-referential `name = <expr>`)"""
    k = 0
    while isinstance(e, ast.Name) and f.rd.is_local(e.id) and k < 6:
        ds = f.rd.at(at, e.id)
        if len(ds) == 1 and ds[0].kind == 'assign' and ds[0].value is not None and e.id not in names_loaded(ds[0].value):
            e, at = ds[0].value, ds[0].node
            k += 1
        else:
            break
    return e, at


def helper_return_exprs(P, f, call):
    """if `call` invokes a package-level helper function, return (helper Func, [return exprs])"""
    d = dotted(call.func)
    if not d:
        return None, []
    r = P.resolve_name(f.module, d)
    if r and r[0] == 'func':
        h = r[1]
        return h, [n.value for n in walk_shallow(h.node) if isinstance(n, ast.Return) and n.value is not None]
    return None, []


def root_shape_ok(P, f, expr, at_node, R, depth=0):
    """expr (value of `root` at the guard) is abspath(<root param>) + sep.  Returns (ok, detail)."""
    rd = f.rd
    if isinstance(expr, ast.Name) and rd.is_local(expr.id):
        defs = rd.at(at_node, expr.id)
        if not defs:
            return False, f'{expr.id} has no definition'
        res = [root_shape_ok(P, f, d.value, d.node, R, depth) if d.value is not None and d.kind == 'assign'
               else (False, f'{expr.id} is bound by {d.kind}') for d in defs]
        bad = [r for r in res if not r[0]]
        return (not bad, bad[0][1] if bad else '')
    if isinstance(expr, ast.BinOp) and isinstance(expr.op, ast.Add):
        l, r = expr.left, expr.right
        l = deref(f, l, at_node)[0]
        sep_ok = dotted(r) in ('os.sep', 'os_path.sep', 'os.path.sep') or (isinstance(r, ast.Constant) and r.value == '/')
        abs_ok = isinstance(l, ast.Call) and call_attr(l) in ('abspath', 'realpath') and l.args
        if not sep_ok:
            return False, f'root is not terminated by the path separator (`{short(expr)}`)'
        if not abs_ok:
            return False, f'root is not os.path.abspath(<root>) + separator (`{short(expr)}`)'
        inner = l.args[0]
        if any(isinstance(x, ast.BinOp) for x in ast.walk(inner)):
            return False, f'abspath() is applied to a concatenation (`{short(l)}`): it strips the separator again'
        return True, ''
    if isinstance(expr, ast.Call):
        if call_attr(expr) in ('abspath', 'realpath', 'normpath'):
            return False, (f'root is `{short(expr)}`: abspath() returns no trailing separator, so startswith(root) is a bare '
                           f'string-prefix test and a sibling directory sharing the prefix passes')
        if depth < 2:
            h, rets = helper_return_exprs(P, f, expr)
            if h is not None and rets:
                decos = {dotted(d.func) if isinstance(d, ast.Call) else dotted(d) for d in h.node.decorator_list}
                if decos & CACHE_DECOS:
                    return False, (f'root normalisation is memoised ({", ".join(sorted(x for x in decos if x))} on {h.qual}): abspath() '
                                   f'depends on the current directory, a relative root is resolved once and reused after chdir')
                res = [root_shape_ok(P, h, e, h.cfg.node_of_stmt(e)[0], R, depth + 1) for e in rets]
                bad = [r for r in res if not r[0]]
                return (not bad, bad[0][1] if bad else '')
        return False, f'root comes from `{short(expr)}`, not from abspath(<root>) + separator'
    return False, f'root is `{short(expr)}`, not abspath(<root>) + separator'


def check(P, R):
    R.rule('C16.a', 'file-opening sinks enumerated', floor=1)
    R.rule('C16.b', 'prefix guard dominates every sink; failing edge is 403/404', floor=2)
    R.rule('C16.c', 'guard operands are the normalised root (with separator) and the normalised join', floor=2)
    R.rule('C16.d', 'checked name is the opened / stat-ed name', floor=2)
    R.rule('C16.e', 'existence / regular-file / access tests dominate the sink', floor=2)

    mod = P.module(SS)
    f = P.func(f'{SS}:static_file')
    g, rd = f.cfg, f.rd
    sinks_all = []
    for fn in mod.functions.values():
        for c in file_sinks(fn):
            sinks_all.append((fn, c))
    R.require(any(fn is f for fn, _ in sinks_all), 'static_file opens no file: anchor changed')
    for fn, c in sinks_all:
        if fn is not f:
            R.ob('C16.a', fn, c, False, detail='a file is opened in static_stream.py outside static_file, i.e. outside the prefix guard',
                 why='any opener not behind the guard can serve a path outside the root')
        else:
            R.ob('C16.a', fn, c, True, nontrivial=False)

    # the guard(s)
    guards = []
    class _G:      # the two operands of a containment test, whatever its spelling
        def __init__(self, name, root, node):
            self.name, self.root, self.node = name, root, node

    for n in g.nodes:
        if n.kind != 'test':
            continue
        t, neg = strip_not(n.ast)
        if isinstance(t, ast.Name) and rd.is_local(t.id):
            # a flag computed just before: look at the expression it stands for (one level, its operands stay names)
            ds_ = rd.at(n, t.id)
            if len(ds_) == 1 and ds_[0].kind == 'assign' and ds_[0].value is not None:
                t2, neg2 = strip_not(ds_[0].value)
                t, neg = t2, (neg != neg2)
                cpx_ = compare_parts(t)
                if cpx_ and isinstance(cpx_[0], ast.Subscript) and isinstance(cpx_[0].slice, ast.Slice) and isinstance(cpx_[0].slice.upper, ast.Name):
                    # name[:root_len] with root_len = len(root)
                    import copy as _copy
                    t = _copy.deepcopy(t)
                    compare_parts(t)[0].slice.upper = T.expand(f, cpx_[0].slice.upper, ds_[0].node)
        cp_ = compare_parts(t)
        if cp_ and cp_[1] in (ast.Eq, ast.NotEq) and isinstance(cp_[0], ast.Subscript) and isinstance(cp_[0].slice, ast.Slice) \
                and cp_[0].slice.lower is None and cp_[0].slice.step is None and isinstance(cp_[0].value, ast.Name) and isinstance(cp_[2], ast.Name) \
                and isinstance(cp_[0].slice.upper, ast.Call) and dotted(cp_[0].slice.upper.func) == 'len' and src(cp_[0].slice.upper.args[0]) == cp_[2].id:
            # name[:len(root)] == root  is  name.startswith(root)
            passes = (cp_[1] is ast.Eq) != neg
            guards.append((n, _G(cp_[0].value, cp_[2], t), 'true' if passes else 'false'))
            continue
        if isinstance(t, ast.Call) and call_attr(t) == 'startswith' and len(t.args) == 1:
            if isinstance(t.func.value, ast.Name) and isinstance(t.args[0], ast.Name):
                guards.append((n, _G(t.func.value, t.args[0], t), 'false' if neg else 'true'))   # pass label
            else:
                R.ob('C16.c', f, n.ast, False, text=f'prefix test {short(t)}', detail=
                     f'the containment test compares transformed strings (`{short(t.func.value)}` against `{short(t.args[0])}`) instead of the normalised path and root '
                     f'themselves: e.g. case folding lets a sibling or ancestor that differs only in letter case pass on a case-sensitive file system',
                     why='the file opened must lie inside the root as the file system sees it', key_extra='transformed')
    sinks = [c for fn, c in sinks_all if fn is f]
    if not guards:
        # other spellings of "the normalised name lies under the normalised root" a maintainer might use; anything else guarding the open() - a hand-written
        # walk over the segments, a regex, a blacklist of `..` - is not a containment test of what the file system will open
        other_ok = False
        for n in g.nodes:
            if n.kind != 'test':
                continue
            for x in ast.walk(n.ast):
                if isinstance(x, ast.Call) and (call_attr(x) in ('is_relative_to',) or dotted(x.func) in ('os.path.commonpath', 'os_path.commonpath', 'commonpath')):
                    other_ok = True
        if other_ok:
            R.undecided('C16.b', f, f.node, 'containment test', 'commonpath / is_relative_to form: no recogniser for its operands')
            return
        for c in sinks:
            R.ob('C16.b', f, c, False, text=f'{short(c)}: dominated by a containment test of the normalised path', detail=
                 'no test of the form <normalised name>.startswith(<normalised root + separator>) (or an equivalent prefix / commonpath / is_relative_to test) guards '
                 'the open(): whatever replaces it (segment counting, pattern matching) does not see what the operating system resolves - repeated separators, '
                 'symbolic spellings - and lets `sub//../../x` out of the root', why='the file opened lies inside the root directory', key_extra='no-guard')
        return
    name_var = None

    def same_value(n1, nm1, n2, nm2):
        # the two names hold the same object: equal sets of definitions once plain copies (`filename = location_path`) are followed back
        a_, b_ = rd.root_defs(n1, nm1), rd.root_defs(n2, nm2)
        return bool(a_) and {id(x_) for x_ in a_} == {id(x_) for x_ in b_}
    from ..paths import Explorer
    X = Explorer(f, P)
    sink_nodes = [g.node_of_stmt(c)[0] for c in sinks]
    # whatever is not inside the root is answered 403 / 404: every other answer of static_file lies behind the pass edge of the containment test
    def _deny_value(v):
        return isinstance(v, ast.Call) and (dotted(v.func) or '').split('.')[-1] == 'HTTPError' and v.args and isinstance(v.args[0], ast.Constant) and v.args[0].value in (403, 404)
    for rn in [n for n in g.nodes if n.kind == 'stmt' and isinstance(n.ast, (ast.Return, ast.Raise)) and n in g.reachable()]:
        v = n_val = rn.ast.value if isinstance(rn.ast, ast.Return) else rn.ast.exc
        if v is None or _deny_value(v):
            continue
        if isinstance(v, ast.Name):
            ds_ = rd.root_defs(rn, v.id)
            nn_ = [d for d in ds_ if not (d.value is not None and isinstance(d.value, ast.Constant) and d.value.value is None)]
            if nn_ and all(d.value is not None and _deny_value(d.value) for d in nn_):
                continue          # (a `None` placeholder for "no refusal" is not an answer)
        okr = any(g.edge_dominates(n, lab, rn) or X.edge_dominates(n, lab, rn) for (n, t, lab) in guards)
        R.ob('C16.b', f, rn.ast, okr, text=f'`{short(rn.ast)}` lies behind the containment test', detail='' if okr else
             f'`{short(rn.ast)}` answers a request before the containment test was passed: a name outside the root gets this answer (it reveals whether the file exists, '
             f'and when it was modified) instead of 403 / 404',
             why='anything not inside the root is answered with 403 or 404', key_extra='answer-behind-guard')
    for c in sinks:
        cn = g.node_of_stmt(c)[0]
        arg = c.args[0] if c.args else None
        dom = [(n, t, lab) for (n, t, lab) in guards if g.edge_dominates(n, lab, cn) or X.edge_dominates(n, lab, cn)]
        R.ob('C16.b', f, c, bool(dom), detail='' if dom else 'the open() is not dominated by the pass edge of the prefix test',
             why='a path outside the root would be opened')
        for (n, t, lab) in dom:
            deny = 'true' if lab == 'false' else 'false'
            okd, st = deny_return(g, n, deny, {403, 404})
            if not okd:
                okd, st = deny_return_ps(X, n, deny, {403, 404}, sink_nodes)
            R.ob('C16.b', f, n.ast, okd, text=f'{short(n.ast)} -> {st}', detail='' if okd else
                 f'the failing edge of the prefix test does not return 403/404 (got {st})')
            gname = t.name.id
            name_var = gname
            # d: same definition opened
            okn = isinstance(arg, ast.Name) and ((arg.id == gname and rd.same_defs(n, cn, gname)) or same_value(n, gname, cn, arg.id))
            R.ob('C16.d', f, c, okn, detail='' if okn else
                 f'the path opened (`{short(arg)}`) is not the definition of `{gname}` that the prefix test checked '
                 f'(rebound or different expression after the check)',
                 why='the check validates one string and the open uses another: dot-dot / separator rewriting after the check escapes the root')
            # c: operands
            rootarg = t.root
            okr, detr = root_shape_ok(P, f, rootarg, n, R)
            R.ob('C16.c', f, n.ast, okr, text=f'root operand of {short(t.node)}', detail=detr,
                 why='without the trailing separator /srv/static-private passes the test for root /srv/static', key_extra='root')
            # name = abspath(join(root, <param filename>))
            defs = rd.root_defs(n, gname)
            okf = bool(defs)
            detf = ''
            for d in defs:
                v = d.value
                if not (d.kind == 'assign' and isinstance(v, ast.Call) and call_attr(v) in ('abspath', 'realpath') and v.args):
                    okf, detf = False, f'`{gname}` is not abspath(...) at the guard ({short(v) if v is not None else d.kind})'
                    break
                j, jat = deref(f, v.args[0], d.node)
                if not (isinstance(j, ast.Call) and call_attr(j) == 'join' and len(j.args) >= 2):
                    okf, detf = False, f'`{gname}` is not abspath(join(root, name)) ({short(v)})'
                    break
                r0 = j.args[0]
                if not (isinstance(r0, ast.Name) and isinstance(rootarg, ast.Name)
                        and set(rd.root_defs(jat, r0.id)) == set(rd.root_defs(n, rootarg.id)) and rd.root_defs(n, rootarg.id)):
                    okf, detf = False, 'the join does not start from the same normalised root that the guard compares with'
                    break
                from_param = False
                for a in j.args[1:]:
                    for x_ in rd.closure(a, jat):
                        if not isinstance(x_[0], ast.AST) and x_[0].kind == 'param' and x_[0].name == f.params[0]:
                            from_param = True
                if not from_param:
                    okf, detf = False, 'the joined name does not come from the filename argument'
                    break
            R.ob('C16.c', f, n.ast, okf, text=f'name operand of {short(t.node)}', detail=detf, key_extra='name')

    # e: exists / isfile / access dominate the sink
    for c in sinks:
        cn = g.node_of_stmt(c)[0]
        for role, attrs, statuses in (('exists/isfile', {'isfile'}, {404, 403}), ('access', {'access'}, {403, 404})):
            found = False
            for n in g.nodes:
                if n.kind != 'test':
                    continue
                te = n.ast
                if isinstance(strip_not(n.ast)[0], ast.Name):            # a flag stands for its expression
                    te = T.expand(f, n.ast, n, keep=tuple(rd.locals - {strip_not(n.ast)[0].id}))
                calls = [x for x in ast.walk(te) if isinstance(x, ast.Call) and call_attr(x) in attrs]
                if not calls:
                    continue
                # failing edge: determine by polarity of the whole test: `not A or not B` -> true edge denies
                deny = None
                t, neg = strip_not(te)
                if isinstance(te, ast.BoolOp) and isinstance(te.op, ast.Or) and all(strip_not(v)[1] for v in te.values):
                    deny = 'true'
                elif neg:
                    deny = 'true'
                else:
                    deny = 'false'
                passl = 'false' if deny == 'true' else 'true'
                if g.edge_dominates(n, passl, cn) or X.edge_dominates(n, passl, cn):
                    okd, st = deny_return(g, n, deny, statuses)
                    if not okd:
                        okd, st = deny_return_ps(X, n, deny, statuses, sink_nodes)
                    argok = all(x.args and isinstance(x.args[0], ast.Name) and ((x.args[0].id == name_var and rd.same_defs(n, cn, name_var)) or
                                                                                 (isinstance(sinks[0].args[0], ast.Name) and
                                                                                  same_value(n, x.args[0].id, cn, sinks[0].args[0].id))) for x in calls)
                    found = True
                    R.ob('C16.e', f, n.ast, okd and argok, text=f'{role}: {short(n.ast)} -> {st}',
                         detail='' if (okd and argok) else ('failing edge does not return 403/404' if not okd else
                                                             'tests a different path than the one opened'))
            if not found:
                R.ob('C16.e', f, c, False, text=f'{role} test before open', detail=f'no {role} test dominates the open()',
                     why='directories / unreadable files would be opened')
    # stat on the same name
    for c in [x for x in walk_shallow(f.node) if isinstance(x, ast.Call) and dotted(x.func) in ('os.stat', 'os.lstat')]:
        cn = g.node_of_stmt(c)[0]
        a = c.args[0] if c.args else None
        ok = isinstance(a, ast.Name) and any((a.id == name_var and rd.same_defs(n, cn, name_var)) or (name_var and same_value(n, name_var, cn, a.id)) for (n, _, _) in guards)
        R.ob('C16.d', f, c, ok, detail='' if ok else 'os.stat() is taken of a different path than the one checked', key_extra='stat')
