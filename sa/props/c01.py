"""C01 - Route resolution equals the plain rule-by-rule semantics."""
import ast

from ..astutil import (walk_shallow, dotted, call_attr, short, src, stmt_of, names_loaded, is_const, enclosing,
                       compare_parts, strip_not, const, bool_operands)
from ..loader import AnalysisError
from .. import rules as T
from .. import regexast as RX

ID = 'C01'
TECHNIQUE = 'dominators, sentinel-identity rule, sibling cross-check, paired-update rule, provenance / taint of the wildcard marker'
DECIDED = ('(a) in RadiDict.get a wildcard value is appended to the parameters only on the true edge of an identity test '
           '`value is not None` (converted values may be falsy), and the three filter-handler siblings built by make_filter '
           'match anchored at the cursor (mask.match), return (None, 0, ...) when the mask does not match, return the match '
           'end as consumed length and pass the matched text through the converter; (b) every change of a node\'s child list '
           'is paired with the matching change of its index string, wildcard child appended last, literal children inserted '
           'in front; (c) when a literal child is taken past a wildcard sibling a look-back record holding *copies* of the '
           'parameter and hook lists is pushed, and a failed descent always reaches the look-back pop; (d) when a rule reuses '
           'an existing route object the parameter names of the new rule are read (not dropped); (e) the wildcard marker '
           'character occurring in a request path is never matched against the index string as a literal child key; (f) '
           'parameter names and values are zipped positionally from one lookup result, anonymous ones dropped; (g) when the '
           'tail of a rule is mounted below an existing prefix, the filter / exclusivity lists are sliced by the number of '
           'wildcards already consumed, in step with the sliced pattern.')
DECIDED_MORE = ('Also: a literal child chosen by a search (idx.find) excludes the wildcard marker; the filter-handler cache is keyed by an injective composition of (filter, configuration).')
DECIDED = DECIDED + ' ' + DECIDED_MORE
DECIDED_R6 = ('Round 6: saved alternatives retried last-in first-out and pushed whenever the node also has a wildcard child; the anonymous-wildcard prefix cannot begin an identifier; the (name, value) filter of make_params_dict tests the name only; the plain-wildcard scan starts at the cursor.')
DECIDED = DECIDED + ' ' + DECIDED_R6
DECIDED_R7 = ('Round 7: filter expressions compiled without flags; route objects are never falsy (truth-value recognition in the tree lookup).')
DECIDED = DECIDED + ' ' + DECIDED_R7
DECIDED_R8 = ("Round 8: PATH_INFO gets its mount prefix by concatenation only and _add never removes from the tree; the parser's negated character classes built from param_delimiters agree; a pending look-back record is tried whenever there is one.")
DECIDED = DECIDED + ' ' + DECIDED_R8
DECIDED_R9 = ('Round 9: a rule dropped from the routes index has left the tree (premise C11.d) (h); the end of a plain wildcard may be `next((k for k in range(i, L) if route[k] == SEP), L)` (i).')
DECIDED = DECIDED + ' ' + DECIDED_R9
NOT_DECIDED = ('equivalence of the radix-tree search with a rule-by-rule matcher over all rule sets x paths (algorithmic '
               'equivalence over unbounded inputs); regex semantics of user filters; the rule-text parser.')
ASSUMPTIONS = ['re.Pattern.match anchors at the start of the string it is given']

RD = 'ombott.router.radidict'
RR = 'ombott.router.radirouter'
FF = 'ombott.router.filter_factory'


def slot_consts(P):
    m = P.module(RD)
    env = T.module_consts(m)
    need = ['KEY', 'IDX', 'PARAMS', 'FILTER', 'HOOKS', 'DATA', 'OFFSET']
    for n in need:
        if n not in env:
            raise AnalysisError(f'radidict slot constant {n} not found')
    return env


def check_path_as_requested(P, R, rid):
    """the path the tree lookup gets is the request path: where the framework rewrites PATH_INFO (mounting by host name) it only puts a prefix in front of it -
    nothing that normalises a path (dot segments collapsed, empty segments dropped) stands between the request and the router"""
    w = P.func('ombott.ombott:Ombott.wsgi')
    for st in walk_shallow(w.node):
        if isinstance(st, ast.Assign) and any(isinstance(t, ast.Subscript) and is_const(t.slice, 'PATH_INFO') for t in st.targets):
            v = st.value
            parts = []

            def flat(e):
                if isinstance(e, ast.BinOp) and isinstance(e.op, ast.Add):
                    flat(e.left)
                    flat(e.right)
                else:
                    parts.append(e)
            flat(v)
            ok = bool(parts) and isinstance(parts[-1], ast.Subscript) and is_const(parts[-1].slice, 'PATH_INFO') and \
                not any(isinstance(x, ast.Call) for p_ in parts for x in ast.walk(p_))
            calls = [x for x in ast.walk(v) if isinstance(x, ast.Call)]
            R.ob(rid, w, st, ok, text=f'`{short(st)}`: a prefix in front of the request path, the path itself untouched', detail='' if ok else
                 f'`{short(st)}` passes the request path through `{short(calls[0]) if calls else short(v)}`: a function that normalises paths collapses `.` / `..` and drops '
                 f'empty segments, so the router does not see the path that was requested - `/item/..` no longer reaches `/item/<name>` with name=\'..\'',
                 why='the router selects exactly the route a rule-by-rule matcher selects for the request path', key_extra='path-as-requested')


def check_add_never_removes(P, R, rid, why):
    """registering a rule never takes anything out of the tree: a rejected registration has mounted nothing (the tree refuses before it mounts), and what a
    clean-up after the refusal removes is the rule that was already there"""
    f = P.func(f'{RR}:RadiRouter._add')
    rem = [c for c in walk_shallow(f.node) if isinstance(c, ast.Call) and call_attr(c) in ('remove', '_remove', 'pop', '__delitem__') and
           (dotted(c.func.value) or '').startswith('self.radidict')]
    rem += [st for st in walk_shallow(f.node) if isinstance(st, ast.Delete) and any('self.routes' in src(t) or 'self.radidict' in src(t) for t in st.targets)]
    R.ob(rid, f, rem[0] if rem else f.node, not rem, text='_add never removes from the tree', detail='' if not rem else
         f'`{short(rem[0])}` in the registration path: the pattern of the refused rule is the pattern of the rule that made it clash, so the clean-up deletes the rule '
         f'that was registered before - after a refused add of `/n/<name>` the path `/n/5` of `/n/<i:int>` answers 404',
         why=why, key_extra='add-removes')


def check_parser_literal_classes(P, R, rid):
    """the rule parser finds the end of literal text in two places (a literal part, the literal tail behind a `path` wildcard): both stop at the same set of
    wildcard-opening characters"""
    pf = [f for f in P.all_funcs() if f.module.name == 'ombott.router.parser' and not isinstance(f.node, ast.Lambda)]
    found = []
    for f in pf:
        for x in walk_shallow(f.node):
            if isinstance(x, ast.JoinedStr) and any(isinstance(v, ast.Constant) and isinstance(v.value, str) and v.value.endswith('[^') for v in x.values):
                for i, v in enumerate(x.values):
                    if isinstance(v, ast.FormattedValue) and i > 0 and isinstance(x.values[i - 1], ast.Constant) and str(x.values[i - 1].value).endswith('[^'):
                        ns = f.cfg.node_of_stmt(x)
                        found.append((f, x, src(T.expand(f, v.value, ns[0])) if ns else src(v.value)))
    found = [x for x in found if 'param_delimiters' in x[2] and 'param_delimiters_map' not in x[2]]
    if len(found) < 2:
        return
    kinds = {k for (_f, _x, k) in found}
    ok = len(kinds) == 1
    R.ob(rid, found[0][0], found[0][1], ok, text=f'{len(found)} scans for the end of literal text in the rule parser stop at one set of characters', detail='' if ok else
         f'the scans stop at different character sets ({sorted(kinds)}): one wildcard spelling (`:name`) ends a literal part but not the literal tail of a `path` wildcard, '
         f'so `/files/<p:path>/rev/:rev` expects the text `:rev` in the request while `<rev>` in the same place works',
         why='the router selects exactly the route a rule-by-rule matcher selects, whatever spelling a wildcard has', key_extra='parser-classes')


def slot_name(sub):
    """for `node[DATA]` return 'DATA'"""
    if isinstance(sub, ast.Subscript) and isinstance(sub.slice, ast.Name):
        return sub.slice.id
    return None


def get_roles(P):
    """names of the search state of RadiDict.get, found by role (not by spelling)"""
    f = P.func(f'{RD}:RadiDict.get')
    roles = {'route': f.params[1]}
    for r in [n for n in walk_shallow(f.node) if isinstance(n, ast.Return) and isinstance(n.value, ast.Tuple)]:
        for x in ast.walk(r.value):
            if isinstance(x, ast.Call) and dotted(x.func) == 'dict':
                kw = {k.arg: k.value for k in x.keywords}
                if 'param_values' in kw and isinstance(kw['param_values'], ast.Name):
                    roles['params'] = kw['param_values'].id
                if 'hooks' in kw and isinstance(kw['hooks'], ast.Name):
                    roles['hooks'] = kw['hooks'].id
    for st in walk_shallow(f.node):
        if isinstance(st, ast.Assign) and isinstance(st.targets[0], ast.Tuple) and len(st.targets[0].elts) >= 5 \
                and isinstance(st.value, ast.Call) and call_attr(st.value) == 'pop' and isinstance(st.value.func.value, ast.Name):
            roles['look_back'] = st.value.func.value.id
        if isinstance(st, ast.Assign) and isinstance(st.value, ast.Subscript) and isinstance(st.value.slice, ast.BinOp) \
                and src(st.value.slice.left) == 'OFFSET' and isinstance(st.value.slice.right, ast.Name) and isinstance(st.value.value, ast.Name) \
                and isinstance(st.targets[0], ast.Name) and (st.targets[0].id == st.value.value.id or T.loops_of(st)):
            roles.setdefault('kidx', st.value.slice.right.id)
            roles.setdefault('pnode', st.value.value.id)
        if isinstance(st, ast.Assign) and isinstance(st.value, ast.Subscript) and c01_slot(st.value) == 'IDX' and isinstance(st.targets[0], ast.Name) \
                and T.loops_of(st):
            roles['idx'] = st.targets[0].id
    for x in walk_shallow(f.node):
        if isinstance(x, ast.Subscript) and isinstance(x.value, ast.Name) and x.value.id == roles['route'] and isinstance(x.slice, ast.Slice) \
                and isinstance(x.slice.lower, ast.Name) and isinstance(x.slice.upper, ast.Name):
            roles.setdefault('cursor', x.slice.lower.id)
    if 'look_back' not in roles:
        # the saved state may be a small record object instead of a list: `saved = stack.pop(); route, pnode = saved.route, saved.node ...`
        for st in walk_shallow(f.node):
            if isinstance(st, ast.Assign) and isinstance(st.targets[0], ast.Name) and isinstance(st.value, ast.Call) and call_attr(st.value) == 'pop' \
                    and isinstance(st.value.func.value, ast.Name) and not st.value.args:
                rec = st.targets[0].id
                fields = {x.attr for x in walk_shallow(f.node) if isinstance(x, ast.Attribute) and isinstance(x.value, ast.Name) and x.value.id == rec}
                pushes_ = [c for c in walk_shallow(f.node) if isinstance(c, ast.Call) and call_attr(c) == 'append' and isinstance(c.func.value, ast.Name)
                           and c.func.value.id == st.value.func.value.id]
                if len(fields) >= 5 and len(pushes_) >= 2:
                    roles['look_back'] = st.value.func.value.id
    for need in ('params', 'hooks', 'look_back', 'kidx', 'pnode', 'idx', 'cursor'):
        if need not in roles:
            raise AnalysisError(f'RadiDict.get: cannot identify the `{need}` variable by role')
    return roles


def c01_slot(sub):
    return sub.slice.id if isinstance(sub, ast.Subscript) and isinstance(sub.slice, ast.Name) else None


def check_lookback(P, R, rid, what=('params', 'hooks')):
    roles = get_roles(P)
    """C01.c / C11.f: look-back records carry copies of the live lists"""
    f = P.func(f'{RD}:RadiDict.get')
    pushes = [c for c in walk_shallow(f.node) if isinstance(c, ast.Call) and call_attr(c) == 'append'
              and isinstance(c.func.value, ast.Name) and c.func.value.id == roles['look_back']]
    R.require(len(pushes) >= 2, f'RadiDict.get: {len(pushes)} look-back pushes found (2 on the pinned tree)')
    for i, c in enumerate(pushes):
        rec = c.args[0] if c.args else None
        elts = rec.elts if isinstance(rec, (ast.List, ast.Tuple)) else []
        if isinstance(rec, ast.Call) and len(rec.args) + len(rec.keywords) >= 5:
            elts = list(rec.args) + [k.value for k in rec.keywords]      # a record object built from the same values
        for role in what:
            name = roles[role]
            refs = [e for e in elts if name in names_loaded(e)]
            ok = bool(refs) and all(isinstance(e, ast.Subscript) and isinstance(e.slice, ast.Slice) and e.slice.lower is None
                                    and e.slice.upper is None or (isinstance(e, ast.Call) and dotted(e.func) in ('list', 'copy.copy') or
                                                                  (isinstance(e, ast.Call) and call_attr(e) == 'copy')) for e in refs)
            R.ob(rid, f, c, ok, text=f'look_back record #{i + 1} stores a copy of the {role} list `{name}`', detail='' if ok else
                 f'the record stores the live `{name}` list itself: what the abandoned branch appended is still there when the search '
                 f'falls back to the wildcard sibling',
                 why='the retried branch must see the parameters / hooks as they were at the branching point', key_extra=f'{i}:{role}')
    # a failed branch falls back to the pending alternative whenever there is one: nothing but the emptiness of the record stack decides it (the record restores
    # the cursor, so the state of the abandoned branch says nothing about what the alternative can match)
    lb = roles['look_back']
    pops = [c for c in walk_shallow(f.node) if isinstance(c, ast.Call) and call_attr(c) == 'pop' and isinstance(c.func.value, ast.Name) and c.func.value.id == lb]
    for c in pops:
        t = enclosing(c, ast.If)
        while t is not None and lb not in names_loaded(t.test):
            t = enclosing(t, ast.If)
        if t is None:
            continue
        others = sorted(names_loaded(t.test) - {lb, 'len'})
        R.ob(rid, f, t.test, not others, text=f'`{short(t.test)}`: the pending alternative is tried whenever there is one', detail='' if not others else
             f'whether the look-back record is popped also depends on {others}: these describe the branch that just failed, the record restores them - with the '
             f'condition false a pending wildcard alternative is skipped and a path its rule matches is answered 404',
             why='every path a registered rule matches is routed to it', key_extra='lookback-pop-guard')
    return f, pushes


def _injective_key(e, params):
    """True: `e` is a composition of all `params` that distinct argument tuples cannot share; False: it is computed from them through a call or
    drops one; None: unrecognised."""
    leaves = []          # ('p', name) | ('c', text)

    def flat(x):
        if isinstance(x, ast.JoinedStr):
            for v in x.values:
                if isinstance(v, ast.Constant):
                    leaves.append(('c', str(v.value)))
                elif isinstance(v, ast.FormattedValue) and v.format_spec is None and isinstance(v.value, ast.Name) and v.value.id in params:
                    leaves.append(('p', v.value.id))
                elif isinstance(v, ast.FormattedValue):
                    return flat_other(v.value)
            return True
        if isinstance(x, ast.BinOp) and isinstance(x.op, ast.Add):
            return flat(x.left) and flat(x.right)
        if isinstance(x, ast.Constant) and isinstance(x.value, str):
            leaves.append(('c', x.value))
            return True
        if isinstance(x, ast.Name) and x.id in params:
            leaves.append(('p', x.id))
            return True
        if isinstance(x, ast.Call) and isinstance(x.func, ast.Name) and x.func.id in ('str', 'repr') and len(x.args) == 1:
            return flat(x.args[0])
        return flat_other(x)

    def flat_other(x):
        leaves.append(('x', x))
        return True

    if isinstance(e, ast.Tuple):
        names = [el.id for el in e.elts if isinstance(el, ast.Name)]
        if len(names) == len(e.elts):
            return all(p_ in names for p_ in params)
        if any(isinstance(n_, ast.Call) for n_ in ast.walk(e)):
            return False
        return None
    flat(e)
    if any(k == 'x' for k, _ in leaves):
        others = [v for k, v in leaves if k == 'x']
        if any(isinstance(n_, (ast.Call, ast.Subscript)) for o in others for n_ in ast.walk(o)):
            return False
        return None
    seen = [v for k, v in leaves if k == 'p']
    if not all(p_ in seen for p_ in params):
        return False
    # two adjacent parameters without a literal between them can trade characters
    for a_, b_ in zip(leaves, leaves[1:]):
        if a_[0] == 'p' and b_[0] == 'p':
            return False
    return True


def check(P, R):
    R.rule('C01.a', 'rejected values never reach a handler', floor=8)
    R.rule('C01.b', 'index string and child list change together', floor=5)
    R.rule('C01.c', 'look-back armed with copies; failures reach the pop', floor=5)
    R.rule('C01.d', 'handler gets the names of its own rule', floor=1)
    R.rule('C01.e', 'wildcard marker cannot be injected by the request', floor=1)
    R.rule('C01.f', 'names and values zipped in order from one lookup', floor=3)
    R.rule('C01.g', 'filter lists sliced in step with the pattern', floor=1)
    slot_consts(P)
    f = P.func(f'{RD}:RadiDict.get')
    g, rd = f.cfg, f.rd
    roles = get_roles(P)

    # ---- a: append guarded by identity test
    apps = [c for c in walk_shallow(f.node) if isinstance(c, ast.Call) and call_attr(c) == 'append'
            and isinstance(c.func.value, ast.Name) and c.func.value.id == roles['params']]
    R.require(apps, 'RadiDict.get: params.append not found')
    for c in apps:
        cn = g.node_of_stmt(c)[0]
        v = c.args[0]
        ok, det = False, 'the appended value is not a simple name'
        if isinstance(v, ast.Name):
            det = f'no test `{v.id} is not None` dominates the append'
            for n in g.nodes:
                if n.kind != 'test':
                    continue
                t, neg = strip_not(n.ast)
                cp = compare_parts(t)
                if cp and isinstance(cp[0], ast.Name) and cp[0].id == v.id and is_const(cp[2], None) and cp[1] in (ast.IsNot, ast.Is):
                    lab = 'true' if (cp[1] is ast.IsNot) != neg else 'false'
                    if g.edge_dominates(n, lab, cn) and rd.same_defs(n, cn, v.id):
                        ok, det = True, ''
                elif isinstance(t, ast.Name) and t.id == v.id and g.edge_dominates(n, 'false' if neg else 'true', cn):
                    det = (f'the value is accepted by truthiness (`if {v.id}`): a filter that matches but converts to a falsy value '
                           f'(int 0, float 0.0, an empty segment) is treated as rejected -> 404 or a wrong route')
        R.ob('C01.a', f, c, ok, detail=det, why='a value the filter accepted must reach the handler; a rejected one must not')
        # the value comes from the filter call or from the separator scan of the path
        if isinstance(v, ast.Name):
            defs = rd.at(cn, v.id)
            kinds = set()
            for d in defs:
                if d.kind == 'unpack' and isinstance(d.value, ast.Call) and isinstance(d.value.func, ast.Name) and d.index == 0:
                    kinds.add('filter')
                elif d.kind == 'assign' and isinstance(d.value, ast.Subscript) and isinstance(d.value.slice, ast.Slice) \
                        and isinstance(d.value.value, ast.Name) and d.value.value.id == roles['route']:
                    kinds.add('slice')
                else:
                    kinds.add('other:' + short(d.value or d.stmt, 30))
            ok = kinds == {'filter', 'slice'}
            for d in defs:
                if d.kind == 'unpack' and isinstance(d.value, ast.Call) and isinstance(d.value.func, ast.Name) and d.index == 0:
                    a_ = d.value.args
                    fa_ok = len(a_) == 1 and not d.value.keywords and isinstance(a_[0], ast.Subscript) and isinstance(a_[0].slice, ast.Slice) \
                        and src(a_[0].value) == roles['route'] and src(a_[0].slice.lower) == roles['cursor'] and a_[0].slice.upper is None
                    R.ob('C01.a', f, d.value, fa_ok, text=f'the filter is given the remaining path {roles["route"]}[{roles["cursor"]}:] as its own string',
                         detail='' if fa_ok else f'the filter is called as `{short(d.value)}`: it no longer sees just the text from the cursor on',
                         why='each wildcard is bound to the text its filter accepted', key_extra='filter-arg')
            R.ob('C01.a', f, c, ok, text=f'{v.id} = filter(route[i:])[0] | route[i:j]', detail='' if ok else f'unexpected origin of the value: {sorted(kinds)}',
                 key_extra='origin')
    # the `path` mask is greedy up to the look-ahead at the following literal: the walker never backtracks into a filter, so a lazy
    # mask stops at the first occurrence of the literal and rules whose literal recurs inside the value stop matching
    ffc = P.cls(f'{FF}:FilterFactory')
    tbl_ = ffc.attrs.get('filters')
    if isinstance(tbl_, ast.Dict):
        from . import c19 as _c19
        for k_, v_ in zip(tbl_.keys, tbl_.values):
            if const(k_) != 'path':
                continue
            lam_ = _c19.as_lambda(P, ffc.module, v_)
            if lam_ is None or not isinstance(lam_[1], ast.Tuple) or not lam_[1].elts:
                continue
            for pt_ in (RX.pattern_literal(T.module_value(ffc, lam_[1].elts[0])) or []):
                tree_ = RX.parse(pt_.replace('\x00HOLE\x00', 'X'))
                if tree_ is None:
                    continue
                lazy = [op for (op, av) in RX.walk(tree_) if str(op) == 'MIN_REPEAT']
                R.ob('C01.a', ffc.fq, None, not lazy, text=f'path mask {pt_!r} is greedy', detail='' if not lazy else
                     f'the path mask {pt_!r} is lazy: the wildcard ends at the first occurrence of the following literal and the rest of the path is left over '
                     f'(/files/<p:path>/raw no longer matches /files/a/raw/b/raw)',
                     why='answers not found only when no registered rule matches', key_extra='path-greedy:' + pt_)
    # filter handler siblings
    mf = P.func(f'{FF}:FilterFactory.make_filter')
    sibs = [x for x in P.all_funcs() if x.parent is mf and x.name == 'handler']
    masks = {d.name for n in mf.cfg.nodes for d in mf.rd.gen.get(n, []) if d.value is not None and isinstance(d.value, ast.Call)
             and dotted(d.value.func) == 're.compile'}
    R.require(masks, 'make_filter: compiled mask variable not found')
    # the rule author's expression is compiled as written: a flag changes the set of texts it matches
    for c_ in walk_shallow(mf.node):
        if isinstance(c_, ast.Call) and dotted(c_.func) == 're.compile':
            flags = list(c_.args[1:]) + [k.value for k in c_.keywords if k.arg == 'flags']
            live = [fl for fl in flags if not (isinstance(fl, ast.Constant) and fl.value == 0)]
            R.ob('C01.a', mf, c_, not live, text=f'{short(c_)}: the filter expression is compiled as written (no flags)', detail='' if not live else
                 f'`{short(c_)}` compiles every filter expression with `{short(live[0])}`: the texts a wildcard accepts are no longer those of the rule\'s own expression '
                 f'(re.ASCII narrows \\w / \\d / \\s - `/u/<name:re(\\w+)>` stops matching `/u/zoë`; IGNORECASE / DOTALL / VERBOSE widen or re-read it)',
                 why='the router selects exactly the route a rule-by-rule matcher selects', key_extra='mask-flags')
    # a handler may also be an instance of a small callable class of the package built here (`handler = _MaskFilter(mask, f_in)`): its __call__ is the sibling,
    # and the attribute that __init__ fills from the constructor argument holding the compiled mask is the mask
    mask_recv = {id(h_): set(masks) for h_ in sibs}
    n_sites = len(sibs)
    for st_ in walk_shallow(mf.node):
        if isinstance(st_, ast.Assign) and isinstance(st_.value, ast.Call) and isinstance(st_.value.func, ast.Name):
            r_ = P.resolve_name(mf.module, st_.value.func.id)
            if r_ and r_[0] == 'class' and '__call__' in r_[1].methods and '__init__' in r_[1].methods:
                init_, call_ = r_[1].methods['__init__'], r_[1].methods['__call__']
                recv_ = set()
                for i_, a_ in enumerate(st_.value.args):
                    if isinstance(a_, ast.Name) and a_.id in masks and i_ + 1 < len(init_.params):
                        pn_ = init_.params[i_ + 1]
                        for s2 in walk_shallow(init_.node):
                            if isinstance(s2, ast.Assign) and isinstance(s2.value, ast.Name) and s2.value.id == pn_:
                                recv_ |= {dotted(t_) for t_ in s2.targets if dotted(t_)}
                if recv_:
                    n_sites += 1
                    if call_ not in sibs:
                        sibs.append(call_)
                        mask_recv[id(call_)] = recv_
    R.require(n_sites >= 2, f'make_filter: {n_sites} handler variants found (3 on the pinned tree)')
    for i, h in enumerate(sibs):
        hg, hrd = h.cfg, h.rd
        mcalls = [c for c in walk_shallow(h.node) if isinstance(c, ast.Call) and isinstance(c.func, ast.Attribute)
                  and dotted(c.func.value) in mask_recv[id(h)]]
        ok = bool(mcalls) and all(c.func.attr == 'match' and len(c.args) == 1 and not c.keywords and src(c.args[0]) == [p_ for p_ in h.params if p_ != 'self'][0] for c in mcalls)
        R.ob('C01.a', h, mcalls[0] if mcalls else h.node, ok, text=f'handler#{i + 1}: mask.match(param)', detail='' if ok else
             ('the mask is not applied with match(<remaining path>) alone: search/fullmatch change what a wildcard consumes, and match(text, pos) is not '
              'match(text[pos:]) - `^`, `\\A` and look-behind see the text before the wildcard, so anchored user filters stop matching'), key_extra=f'h{i}:match')
        tmp = T.assigned_name_of_call(mcalls[0]) if mcalls else None
        tests = T.falsy_tests(hg, tmp) if tmp else []
        ok = False
        for (tn, lab) in tests:
            for s in T.succ_by_label(tn, lab):
                if s.kind == 'stmt' and isinstance(s.ast, ast.Return) and isinstance(s.ast.value, ast.Tuple) and len(s.ast.value.elts) == 3 \
                        and is_const(s.ast.value.elts[0], None) and is_const(s.ast.value.elts[1], 0):
                    ok = True
        R.ob('C01.a', h, tests[0][0].ast if tests else h.node, ok, text=f'handler#{i + 1}: no match -> (None, 0, ...)', detail='' if ok else
             'a mask that does not match is not reported as (None, 0, ...)', key_extra=f'h{i}:none')
        rets = [n for n in walk_shallow(h.node) if isinstance(n, ast.Return) and isinstance(n.value, ast.Tuple) and not is_const(n.value.elts[0], None)]
        ok = bool(rets)
        for r in rets:
            rn = hg.node_of_stmt(r)[0]
            e0, e1 = r.value.elts[0], r.value.elts[1]
            cl1 = hrd.closure_nodes(e1, rn)
            end_ok = any(isinstance(x, ast.Call) and call_attr(x) == 'end' and dotted(x.func.value) == tmp for x in cl1)
            cl0 = hrd.closure_nodes(e0, rn)
            grp_ok = any(isinstance(x, ast.Call) and call_attr(x) == 'group' and dotted(x.func.value) == tmp for x in cl0)
            ok = ok and end_ok and grp_ok
        R.ob('C01.a', h, rets[0] if rets else h.node, ok, text=f'handler#{i + 1}: (converted tmp.group(), tmp.end(), ...)', detail='' if ok else
             'the handler does not return the matched text and the match end', key_extra=f'h{i}:ret')

    # the handler cache of make_filter is keyed by an injective encoding of (filter name, configuration)
    cache_stores = [st for st in walk_shallow(mf.node) if isinstance(st, ast.Assign) and isinstance(st.targets[0], ast.Subscript)
                    and dotted(st.targets[0].value) and dotted(st.targets[0].value).split('.')[0] in (mf.params[0], 'FilterFactory')]
    cache_reads = [c for c in walk_shallow(mf.node) if isinstance(c, ast.Call) and call_attr(c) in ('get', '__getitem__') and c.args
                   and any(dotted(c.func.value) == dotted(st.targets[0].value) for st in cache_stores)]
    cache_reads += [x for x in walk_shallow(mf.node) if isinstance(x, ast.Subscript) and isinstance(x.ctx, ast.Load)
                    and any(dotted(x.value) == dotted(st.targets[0].value) for st in cache_stores)]
    fpar = [p_ for p_ in mf.params if p_ not in ('cls', 'self')]
    for site in cache_stores + cache_reads:
        if isinstance(site, ast.Assign):
            kexpr, anchor = site.targets[0].slice, site
        elif isinstance(site, ast.Call):
            kexpr, anchor = site.args[0], site
        else:
            kexpr, anchor = site.slice, site
        ns_ = mf.cfg.node_of_stmt(anchor)
        if not ns_:
            continue
        full = T.expand(mf, kexpr, ns_[0], keep=tuple(fpar))
        verdict = _injective_key(full, fpar)
        if verdict is None:
            # a leaf that is (part of) the result of a call is a computed value
            for nm_ in [x for x in ast.walk(full) if isinstance(x, ast.Name) and x.id not in fpar]:
                defs_ = mf.rd.at(ns_[0], nm_.id)
                if defs_ and all(isinstance(getattr(d_.stmt, 'value', None), ast.Call) for d_ in defs_):
                    verdict = False
        if verdict is None:
            R.undecided('C01.a', mf, anchor, 'make_filter cache key', f'`{short(full)}` is neither a literal composition of the parameters nor a computed value')
            continue
        R.ob('C01.a', mf, anchor, verdict, text=f'filter cache key `{short(full)}` determines (filter, configuration)', detail='' if verdict else
             f'the process-wide handler cache is keyed by `{short(full)}`, which two different (filter, configuration) pairs can share: a wildcard then gets the '
             f'handler (and converter) built for another filter - `<code:re(-?\\d+)>` after `<id:int>` delivers an int',
             why='the value is converted by the filter of the rule the handler was registered under', key_extra='cache-key:' + type(site).__name__)

    # ---- b: IDX / children pairing
    check_idx_pairing(P, R, 'C01.b')

    # ---- c
    _, pushes = check_lookback(P, R, 'C01.c', what=('params',))
    # the literal-branch push is conditioned on the wildcard marker ending the index
    def _last_field(c_):
        r_ = c_.args[0] if c_.args else None
        if isinstance(r_, (ast.List, ast.Tuple)) and r_.elts:
            return r_.elts[-1]
        if isinstance(r_, ast.Call) and (r_.keywords or r_.args):
            return r_.keywords[-1].value if r_.keywords else r_.args[-1]
        return None
    lit_push = [c for c in pushes if _last_field(c) is not None and is_const(_last_field(c), True)] if pushes else []
    ok = False
    for c in lit_push:
        t = enclosing(c, ast.If)
        if t is not None:
            cp = compare_parts(t.test)
            ok = bool(cp) and cp[1] is ast.Eq and f"{roles['idx']}[-1]" in src(cp[0]) and ('param_token' in src(cp[2]) or _is_token_name(f, cp[2]))
    R.ob('C01.c', f, lit_push[0] if lit_push else f.node, ok, text='push when idx[-1] == TOKEN before taking a literal child', detail='' if ok else
         'the look-back record is not pushed whenever the node also has a wildcard child')
    # push precedes the descent
    desc = [st for st in walk_shallow(f.node) if isinstance(st, ast.Assign) and any(isinstance(t_, ast.Name) and t_.id == roles['pnode'] for t_ in st.targets)
            and T.xsrc(f, st.value, g.node_of_stmt(st)[0], keep=(roles['pnode'], roles['kidx'])).replace(' ', '') == f"{roles['pnode']}[OFFSET+{roles['kidx']}]"]
    R.require(desc, 'RadiDict.get: literal descent not found')
    # once a literal child was selected, no exit of the descent loop may come before the push decision
    push_tests = [n for n in g.nodes if n.kind == 'test' and f"{roles['idx']}[-1]" in src(n.ast) and any(g.dominates(n, g.node_of_stmt(st_)[0]) for st_ in desc)]
    sel_tests = [n for n in g.nodes if n.kind == 'test' and compare_parts(n.ast) and src(compare_parts(n.ast)[0]) == roles['kidx']
                 and is_const(compare_parts(n.ast)[2], None) and compare_parts(n.ast)[1] in (ast.Is, ast.IsNot)]
    if push_tests and sel_tests:
        early = []
        for sn_ in sel_tests:
            lab_ = 'false' if compare_parts(sn_.ast)[1] is ast.Is else 'true'        # the edge on which a literal child was found
            for s_ in T.succ_by_label(sn_, lab_):
                if s_ in push_tests:
                    continue
                reach_ = g.reachable_from(s_, avoid_nodes=push_tests)
                early += [n for n in reach_ if n.kind == 'stmt' and isinstance(n.ast, (ast.Break, ast.Return)) and n not in push_tests]
        R.ob('C01.c', f, early[0].ast if early else push_tests[0].ast, not early, text='with a literal child selected, the descent cannot be left before the look-back decision',
             detail='' if not early else f'`{short(early[0].ast)}` (line {early[0].line}) leaves the descent after a literal child was selected but before the wildcard '
             f'sibling was recorded for look-back: a path that fails on the literal branch is answered "not found" although the wildcard rule matches it '
             f'(rules /user/me and /user/:id, path /user/m)',
             why='answers not found only when no registered rule matches', key_extra='no-exit-before-push')
    for st in desc:
        dn = g.node_of_stmt(st)[0]
        tests = [n for n in g.nodes if n.kind == 'test' and f"{roles['idx']}[-1]" in src(n.ast) and g.dominates(n, dn)]
        ok = bool(tests) and bool(lit_push) and all(
            s is g.node_of_stmt(lit_push[0])[0] or not g.can_reach(s, dn, avoid_nodes=[g.node_of_stmt(lit_push[0])[0]])
            for s in T.succ_by_label(tests[0], 'true'))
        R.ob('C01.c', f, st, ok, text='literal descent happens after the push', detail='' if ok else
             'the literal child can be entered without the look-back record having been pushed')
    # all failure exits of the inner loop reach the pop
    pops = [c for c in walk_shallow(f.node) if isinstance(c, ast.Call) and call_attr(c) == 'pop' and dotted(c.func.value) == roles['look_back']]
    R.require(pops, 'RadiDict.get: look_back.pop not found')
    for pc_ in pops:
        # the alternatives saved last are the deepest ones: they are retried first (a stack), and the pushes append at the end
        lifo = not pc_.args or (len(pc_.args) == 1 and isinstance(pc_.args[0], ast.UnaryOp) and isinstance(pc_.args[0].op, ast.USub) and is_const(pc_.args[0].operand, 1))
        pushes_ = [c for c in walk_shallow(f.node) if isinstance(c, ast.Call) and dotted(c.func.value if isinstance(c.func, ast.Attribute) else c.func) == roles['look_back']
                   and isinstance(c.func, ast.Attribute) and c.func.attr in ('append', 'insert', 'appendleft')]
        at_end = all(c.func.attr == 'append' for c in pushes_)
        okl = (lifo and at_end) or (not lifo and pushes_ and all(c.func.attr in ('insert', 'appendleft') and (c.func.attr == 'appendleft' or is_const(c.args[0], 0)) for c in pushes_)
                                   and len(pc_.args) == 1 and is_const(pc_.args[0], 0))
        R.ob('C01.c', f, pc_, bool(okl), text=f'`{short(pc_)}` retries the most recently saved alternative first', detail='' if okl else
             f'`{short(pc_)}` does not take the alternative that was saved last: with two nested literal-vs-wildcard choices the shallow wildcard is retried before the deep '
             f'one, so `/a/b/d` goes to `/:y/b/d` although `/a/:x/d` shares the longer literal prefix',
             why='literal text wins over a wildcard at the first position where the candidates differ', key_extra='lifo')
    pop_test = enclosing(pops[0], ast.If)
    ptn = g.nodes_for(pop_test.test)[0]
    inner = [w for w in walk_shallow(f.node) if isinstance(w, ast.While) and w is not f.node and enclosing(w, ast.While) is not None]
    inner = [w for w in inner if compare_parts(w.test) and compare_parts(w.test)[1] is ast.Lt and isinstance(enclosing(w, ast.While).test, ast.Constant)]
    R.require(len(inner) == 1, 'RadiDict.get: descent loop `while i < L` not found')
    breaks = [n for n in g.nodes if n.kind == 'stmt' and isinstance(n.ast, ast.Break) and T.loops_of(n.ast) and T.loops_of(n.ast)[0] is inner[0]]
    ok = bool(breaks) and all(g.must_pass(b, g.exit, [ptn]) for b in breaks)
    R.ob('C01.c', f, pop_test.test, ok, text=f'{len(breaks)} failure exits of the descent all reach `if look_back`', detail='' if ok else
         'a failed descent can answer "not found" without trying the saved wildcard alternative')
    # returns of None only when look_back is empty
    none_rets = [n for n in g.nodes if n.kind == 'stmt' and isinstance(n.ast, ast.Return) and n.ast.value is not None
                 and ('allow_partial' in src(n.ast.value) or is_const(n.ast.value, None))]
    ok = bool(none_rets) and all(g.edge_dominates(ptn, 'false', n) for n in none_rets)
    R.ob('C01.c', f, none_rets[0].ast if none_rets else f.node, ok, text='"not found" only with an empty look-back stack', detail='' if ok else
         '"not found" is answered while alternatives are still on the look-back stack')

    # ---- d
    ad = P.func(f'{RR}:RadiRouter._add')
    ag, ard = ad.cfg, ad.rd
    news = [st for st in walk_shallow(ad.node) if isinstance(st, ast.Assign) and isinstance(st.value, ast.Call) and dotted(st.value.func) == 'Route']
    R.require(news, '_add: Route(rule) not found')
    new = news[0]
    nname = new.targets[0].id
    nn = ag.node_of_stmt(new)[0]
    # reads of <new>.params / params_signature() on the path where the existing route is reused
    # the variable that names the route the rule ends up on (the one handed to the tree when it is new)
    wname = nname
    for c_ in T.calls_to(ad, 'self.radidict.add'):
        if len(c_.args) >= 2 and isinstance(c_.args[1], ast.Name):
            wname = c_.args[1].id
    reuse = [st for st in walk_shallow(ad.node) if isinstance(st, ast.Assign) and isinstance(st.value, ast.Name)
             and isinstance(st.targets[0], ast.Name) and st.targets[0].id == wname and st.value.id != nname]
    if not reuse:
        # the route variable may be another name than the freshly parsed one: the reuse is the binding of the *match result* to the name that is registered / returned
        mres = {st.targets[0].id for st in walk_shallow(ad.node) if isinstance(st, ast.Assign) and isinstance(st.targets[0], ast.Name)
                and isinstance(st.value, ast.Call) and (dotted(st.value.func) or '').endswith('_match')}
        reuse = [st for st in walk_shallow(ad.node) if isinstance(st, ast.Assign) and isinstance(st.value, ast.Name) and st.value.id in mres
                 and isinstance(st.targets[0], ast.Name) and st.targets[0].id != nname]
    R.require(reuse, '_add: reuse of an existing route (`route = route_`) not found')
    run = ag.node_of_stmt(reuse[0])[0]
    uses = []
    for n in g.nodes if False else ag.nodes:
        if n.ast is None or n.kind not in ('stmt', 'test'):
            continue
        for x in walk_shallow(n.ast):
            if isinstance(x, ast.Attribute) and isinstance(x.value, ast.Name) and x.value.id == nname and x.attr in ('params', 'params_signature'):
                if any(d.stmt is new for d in ard.at(n, nname)) and (ag.can_reach(n, run) or ag.dominates(n, run)):
                    uses.append(n)
    ok = bool(uses)
    R.ob('C01.d', ad, reuse[0], ok, text='names of the new rule are read before the fresh Route is dropped', detail='' if ok else
         'when a second rule has the same pattern and filters as a registered one, the fresh Route (with the new rule\'s wildcard '
         'names) is discarded unread: the handler registered under the second rule receives the first rule\'s parameter names',
         why='the handler is called with exactly the named wildcards of the rule it was registered under')

    # ---- e: marker
    lit_tests = []
    for n in g.nodes:
        if n.kind == 'test' and any(isinstance(s.ast, ast.Assign) and roles['kidx'] in [t.id for t in s.ast.targets if isinstance(t, ast.Name)]
                                    for s in T.succ_by_label(n, 'true') if s.kind == 'stmt'):
            lit_tests.append(n)
    # the same selection written as a search: `kidx = idx.find(route[i])`
    finds = [c for c in walk_shallow(f.node) if isinstance(c, ast.Call) and call_attr(c) in ('find', 'index', 'rfind') and c.args
             and src(c.func.value) == roles['idx']]
    pre_any = any(isinstance(x, ast.Compare) and any(_is_token_name(f, y) for y in [x.left] + x.comparators) and roles['route'] in src(x) and isinstance(x.ops[0], (ast.In, ast.NotIn))
                  for x in ast.walk(f.node))
    for c in finds:
        cn = g.node_of_stmt(c)[0] if g.node_of_stmt(c) else None
        arg = c.args[0]
        def _excl(t):
            return any(compare_parts(p_) and compare_parts(p_)[1] is ast.NotEq and
                       (_is_token_name(f, compare_parts(p_)[0]) or _is_token_name(f, compare_parts(p_)[2])) for p_ in bool_operands(t, ast.And))
        guard = any(n.kind == 'test' and _excl(n.ast) and cn is not None and g.edge_dominates(n, 'true', cn) for n in g.nodes)
        ife = enclosing(c, ast.IfExp)
        guard = guard or (ife is not None and _excl(ife.test) and any(x is c for x in ast.walk(ife.body)))
        ok = guard or pre_any
        R.ob('C01.e', f, c, ok, text=f'literal child search `{short(c)}` excludes the marker', detail='' if ok else
             'a request path character equal to the wildcard marker (CR) is found in the children index and selects the wildcard child as if '
             'it were a literal child: the character is consumed as the node key and no value is bound',
             why='the handler must be called with its named wildcards; CR is in the path alphabet')
    R.require(lit_tests or finds, 'RadiDict.get: literal child selection (`kidx = ic`) not found')
    for n in lit_tests:
        parts = bool_operands(n.ast, ast.And)
        # a test of the position a search returned (`found >= 0`) is covered by the clause on the search itself
        from_find = False
        for x in ast.walk(n.ast):
            if isinstance(x, ast.Name) and f.rd.is_local(x.id):
                ds_ = f.rd.at(n, x.id)
                if ds_ and all(d_.value is not None and any(c_ is y_ for c_ in finds for y_ in ast.walk(d_.value)) for d_ in ds_):
                    from_find = True
        if from_find:
            continue
        guard = any(compare_parts(p) and compare_parts(p)[1] is ast.NotEq and
                    (_is_token_name(f, compare_parts(p)[0]) or _is_token_name(f, compare_parts(p)[2])) for p in parts)
        # or: the path is rejected / escaped before the search
        pre = any(isinstance(x, ast.Compare) and any(_is_token_name(f, y) for y in [x.left] + x.comparators) and roles['route'] in src(x) and isinstance(x.ops[0], (ast.In, ast.NotIn))
                  for x in ast.walk(f.node))
        ok = guard or pre
        R.ob('C01.e', f, n.ast, ok, text=f'literal child selection `{short(n.ast)}` excludes the marker', detail='' if ok else
             'a request path character equal to the wildcard marker (CR) selects the wildcard child as if it were a literal child: '
             'the segment is consumed as the node key and no value is bound',
             why='the handler must be called with its named wildcards; CR is in the path alphabet')

    # ---- f
    mp = P.func(f'{RR}:Route.make_params_dict')
    z = [c for c in ast.walk(mp.node) if isinstance(c, ast.Call) and dotted(c.func) == 'zip']
    ok = bool(z) and [src(a) for a in z[0].args] == [mp.params[1], mp.params[2]]
    comp = [c for c in ast.walk(mp.node) if isinstance(c, ast.DictComp)]
    if ok and comp:
        dc = comp[0]
        tgt = dc.generators[0].target
        ok = isinstance(tgt, ast.Tuple) and src(dc.key) == src(tgt.elts[0]) and src(dc.value) == src(tgt.elts[1]) and \
            any('anon_prefix' in src(i) and 'startswith' in src(i) for i in dc.generators[0].ifs)
    elif ok:
        loops_ = [l for l in walk_shallow(mp.node) if isinstance(l, ast.For) and l.iter is z[0]]
        if loops_ and isinstance(loops_[0].target, ast.Tuple) and len(loops_[0].target.elts) == 2:
            a_, b_ = [src(e) for e in loops_[0].target.elts]
            stores = [st_ for st_ in walk_shallow(loops_[0]) if isinstance(st_, ast.Assign) and isinstance(st_.targets[0], ast.Subscript)]
            ok = bool(stores) and all(src(st_.targets[0].slice) == a_ and src(st_.value) == b_ for st_ in stores) and \
                any(isinstance(t_, ast.If) and 'anon_prefix' in src(t_.test) and 'startswith' in src(t_.test) for t_ in walk_shallow(loops_[0]))
        else:
            R.undecided('C01.f', mp, mp.node, 'make_params_dict', 'neither a dict comprehension nor a loop over zip(names, values)')
    R.ob('C01.f', mp, z[0] if z else mp.node, ok, text='{name: value for name, value in zip(names, values) if not anonymous}', detail='' if ok else
         'names and values are not zipped positionally (or anonymous wildcards are not dropped)')
    check_params_filter(P, R, 'C01.f', 'the handler is called with exactly the named wildcards of the rule (a converted value may be 0 or the empty string)')
    # the prefix that marks anonymous wildcards cannot begin a wildcard *name* (names are identifiers): otherwise named wildcards are dropped as anonymous
    rcls_ = P.cls(f'{RR}:Route')
    apv = rcls_.attrs.get('anon_prefix')
    try:
        apx = T.ceval(rcls_, apv) if apv is not None else None
    except T.CannotEval:
        apx = None
    if isinstance(apx, str):
        clash = (apx + 'x').isidentifier() or apx == ''
        R.ob('C01.f', rcls_.fq, None, not clash, text=f'anon_prefix = {apx!r} is not the beginning of any identifier', detail='' if not clash else
             f'anon_prefix = {apx!r} can begin an ordinary wildcard name: every named wildcard starting with it (`<{apx}id:int>`) is taken for an anonymous one and dropped '
             f'from the keyword arguments', why='the handler is called with exactly the named wildcards of the rule', key_extra='anon-prefix')
    else:
        R.undecided('C01.f', rcls_.fq, None, 'Route.anon_prefix', 'not a constant string')
    rs = P.func(f'{RR}:RadiRouter.resolve')
    calls = [c for c in walk_shallow(rs.node) if isinstance(c, ast.Call) and call_attr(c) == 'make_params_dict']
    gets = [st for st in walk_shallow(rs.node) if isinstance(st, ast.Assign) and isinstance(st.targets[0], ast.Tuple) and len(st.targets[0].elts) == 2
            and isinstance(st.value, ast.Call) and dotted(st.value.func) == 'self.radidict.get']
    extra = gets[0].targets[0].elts[1].id if gets and isinstance(gets[0].targets[0].elts[1], ast.Name) else '?'
    ok = bool(calls) and [T.xsrc(rs, a, rs.cfg.node_of_stmt(calls[0])[0], keep=(extra,)).replace('"', "'") for a in calls[0].args] == \
        [f"{extra}['param_keys']", f"{extra}['param_values']"]
    R.ob('C01.f', rs, calls[0] if calls else rs.node, ok, text="make_params_dict(extra['param_keys'], extra['param_values'])", detail='' if ok else
         'names and values do not come from the same lookup result in (names, values) order')
    # get returns PARAMS of the terminal node and the collected values
    rets = [n for n in walk_shallow(f.node) if isinstance(n, ast.Return) and isinstance(n.value, ast.Tuple) and 'param_keys' in src(n.value)]
    ok = bool(rets) and f"param_keys={roles['pnode']}[PARAMS]" in src(rets[0].value).replace(' ', '') and f"param_values={roles['params']}" in src(rets[0].value).replace(' ', '') \
        and src(rets[0].value.elts[0]).replace(' ', '') == f"{roles['pnode']}[DATA]"
    R.ob('C01.f', f, rets[0] if rets else f.node, ok, text='get returns (pnode[DATA], {param_keys: pnode[PARAMS], param_values: params, ...})', detail='' if ok else
         'the lookup result does not pair the terminal node\'s names with the collected values')

    # ---- h: the route dispatched is the one the tree lookup selected
    R.rule('C01.h', 'the dispatched route comes from the tree lookup only', floor=1)
    check_path_as_requested(P, R, 'C01.h')
    check_add_never_removes(P, R, 'C01.h', 'the router selects exactly the route a rule-by-rule matcher selects from the registered rules')
    # "registered rules" are those not removed: the removal pairing of C11.d is a premise (a rule dropped from the index but left mounted keeps being selected)
    from ..report import run_premise
    from . import c11 as _c11
    run_premise(R, _c11, P, {'C11.d'}, 'C01.h', 'not found is answered only when no registered rule matches, and a removed rule is not registered')
    check_parser_literal_classes(P, R, 'C01.g')
    # ... and the lookup recognises a stored route by its truth value (`if pnode[DATA]`): a route object is never falsy
    from . import c02 as _c02
    _c02.check_truthy_classes(P, R, 'C01.h', 'the router selects exactly the route a rule-by-rule matcher selects: a registered literal rule wins over its wildcard sibling')
    # the object whose method table is consulted: `route[methods]`, `route.<lookup>(methods)`, or (a lookup written out) `route._methods`
    uses = [x for x in walk_shallow(rs.node) if isinstance(x, ast.Subscript) and isinstance(x.ctx, ast.Load) and isinstance(x.value, ast.Name)
            and src(x.slice) == rs.params[2]]
    uses += [x.func for x in walk_shallow(rs.node) if isinstance(x, ast.Call) and isinstance(x.func, ast.Attribute) and isinstance(x.func.value, ast.Name)
             and x.func.value.id != 'self' and any(src(a) == rs.params[2] for a in x.args)]
    uses += [x for x in walk_shallow(rs.node) if isinstance(x, ast.Attribute) and x.attr == '_methods' and isinstance(x.value, ast.Name)
             and x.value.id != 'self']
    R.require(uses, 'resolve: route[methods] not found')
    for u in uses:
        un = rs.cfg.node_of_stmt(u)[0]
        defs = rs.rd.at(un, u.value.id)
        ok = bool(defs) and all(d.kind == 'unpack' and isinstance(d.value, ast.Call) and dotted(d.value.func) == 'self.radidict.get' and d.index == 0 for d in defs)
        bad = [d for d in defs if not (d.kind == 'unpack' and isinstance(d.value, ast.Call) and dotted(d.value.func) == 'self.radidict.get')]
        R.ob('C01.h', rs, u, ok, text=f'{short(u)}: the route comes from self.radidict.get(path) alone', detail='' if ok else
             f'the route can also be `{short(bad[0].value) if bad and bad[0].value is not None else "?"}`: a lookup that bypasses the tree (e.g. the pattern index, whose keys '
             f'contain the wildcard marker) selects routes by literal pattern text - a path spelling a wildcard pattern calls the handler without parameters',
             why='the router selects exactly the route a rule-by-rule matcher selects')
    # the plain (unfiltered) wildcard consumes up to the next separator at or after the cursor
    R.rule('C01.i', 'plain wildcard consumes up to the next separator', floor=1)
    slices = [d for n in g.nodes for d in rd.gen.get(n, []) if d.kind == 'assign' and isinstance(d.value, ast.Subscript) and isinstance(d.value.slice, ast.Slice)
              and isinstance(d.value.value, ast.Name) and d.value.value.id == roles['route'] and src(d.value.slice.lower) == roles['cursor']
              and isinstance(d.value.slice.upper, ast.Name) and d.name in [a.args[0].id for a in apps if isinstance(a.args[0], ast.Name)]]
    R.require(slices, 'RadiDict.get: plain wildcard value `route[i:j]` not found')
    for d in slices:
        jn = d.value.slice.upper.id
        jdefs = rd.at(d.node, jn)
        form = None
        det = ''
        finds = [x for x in jdefs if x.kind == 'assign' and isinstance(x.value, ast.Call) and call_attr(x.value) in ('find', 'index')]
        inits = [x for x in jdefs if x.kind == 'assign' and isinstance(x.value, ast.Name) and x.value.id == roles['cursor']]
        late = [x for x in jdefs if x.kind == 'assign' and isinstance(x.value, ast.BinOp) and isinstance(x.value.op, ast.Add) and isinstance(x.value.left, ast.Name)
                and x.value.left.id == roles['cursor'] and isinstance(x.value.right, ast.Constant) and isinstance(x.value.right.value, int) and x.value.right.value >= 1]
        if late and not inits:
            form, ok = 'scan', False
            det = (f'the scan for the end of the value starts at `{short(late[0].value)}`, behind the cursor: a separator exactly at the cursor (an empty segment, `/item//edit`) is '
                   f'stepped over and the wildcard swallows the next segment - another rule is selected, or none')
        elif inits and any(x.kind == 'aug' and is_const(x.value, 1) for x in jdefs):
            # scanning loop: while j < L: if route[j] == SEP: break; j += 1
            w = [n for n in walk_shallow(f.node) if isinstance(n, ast.While) and compare_parts(n.test) and src(compare_parts(n.test)[0]) == jn
                 and compare_parts(n.test)[1] is ast.Lt]
            ok = False
            for lp in w:
                brk = [t for t in walk_shallow(lp) if isinstance(t, ast.If) and compare_parts(t.test) and compare_parts(t.test)[1] is ast.Eq
                       and f'{roles["route"]}[{jn}]' in src(t.test) and any(isinstance(b, ast.Break) for b in t.body)]
                ok = ok or bool(brk)
            form, det = ('scan', '' if ok else 'the scanning loop does not stop at the separator')
        elif finds:
            fnd = finds[0].value
            ok = len(fnd.args) == 2 and src(fnd.args[1]) == roles['cursor']
            det = '' if ok else 'the separator is not searched from the cursor'
            # the "not found" test must be `< 0` / `== -1`
            tests = [n for n in g.nodes if n.kind == 'test' and compare_parts(n.ast) and src(compare_parts(n.ast)[0]) == jn and g.can_reach(finds[0].node, n)
                     and g.can_reach(n, d.node)]
            good = [n for n in tests if (compare_parts(n.ast)[1] is ast.Lt and is_const(compare_parts(n.ast)[2], 0)) or
                    (compare_parts(n.ast)[1] is ast.Eq and isinstance(compare_parts(n.ast)[2], ast.UnaryOp)) or
                    (compare_parts(n.ast)[1] is ast.Eq and is_const(compare_parts(n.ast)[2], -1))]
            if call_attr(fnd) == 'find' and not good:
                ok = False
                det = (f'"no separator ahead" is decided by `{short(tests[0].ast) if tests else "?"}` instead of `{jn} < 0`: a separator exactly at the cursor (an empty '
                       f'segment) is taken for "not found" and the wildcard swallows the rest of the path')
            form = 'find'
        elif any(x.kind == 'for' and isinstance(x.value, ast.Call) and dotted(x.value.func) == 'range' for x in jdefs):
            # for j in range(i, L): if route[j] == SEP: break  /  else: j = L
            fd = [x for x in jdefs if x.kind == 'for'][0]
            lp = fd.stmt
            rng = fd.value.args
            brk = [t for t in walk_shallow(lp) if isinstance(t, ast.If) and compare_parts(t.test) and compare_parts(t.test)[1] is ast.Eq
                   and f'{roles["route"]}[{jn}]' in src(t.test) and any(isinstance(b, ast.Break) for b in t.body)]
            ends = [x for x in jdefs if x.kind == 'assign' and any(x.stmt is s_ for s_ in lp.orelse)]
            ok = len(rng) == 2 and src(rng[0]) == roles['cursor'] and bool(brk) and bool(ends) and all(src(x.value) == src(rng[1]) for x in ends) \
                and len(jdefs) == 1 + len(ends)
            form, det = 'for-range', '' if ok else 'the range scan does not start at the cursor, does not stop at the separator, or does not end at the range end'
        elif len(jdefs) == 1 and jdefs[0].kind == 'assign' and isinstance(jdefs[0].value, ast.Call) and dotted(jdefs[0].value.func) == 'next' and len(jdefs[0].value.args) == 2 \
                and isinstance(jdefs[0].value.args[0], ast.GeneratorExp) and len(jdefs[0].value.args[0].generators) == 1:
            # j = next((k for k in range(i, L) if route[k] == SEP), L)
            ge_ = jdefs[0].value.args[0]
            gen_ = ge_.generators[0]
            kv_ = gen_.target.id if isinstance(gen_.target, ast.Name) else None
            rng = gen_.iter.args if isinstance(gen_.iter, ast.Call) and dotted(gen_.iter.func) == 'range' else []
            cond_ok = len(gen_.ifs) == 1 and compare_parts(gen_.ifs[0]) and compare_parts(gen_.ifs[0])[1] is ast.Eq and f'{roles["route"]}[{kv_}]' in src(gen_.ifs[0])
            ok = kv_ is not None and isinstance(ge_.elt, ast.Name) and ge_.elt.id == kv_ and len(rng) == 2 and src(rng[0]) == roles['cursor'] and bool(cond_ok) \
                and src(jdefs[0].value.args[1]) == src(rng[1])
            form, det = 'next-range', '' if ok else 'the generator scan does not start at the cursor, does not stop at the separator, or does not default to the end'
        else:
            R.undecided('C01.i', f, d.stmt, f'{short(d.stmt)}: end of the plain wildcard value', 'no recogniser for how it is computed')
            continue
        R.ob('C01.i', f, d.stmt, ok, text=f'{short(d.stmt)} with {jn} = next separator at or after the cursor, else the end [{form}]', detail=det,
             why='an empty segment is matched by a plain wildcard as the empty string; rules after it must still match')

    # ---- g
    st = P.func(f'{RD}:RadiDict._set')
    mcalls = T.calls_to(st, 'self._make_route')
    R.require(mcalls, '_set: _make_route call not found')
    mr_ = P.maybe_func(f'{RD}:RadiDict._make_route')
    for c in mcalls:
        a = c.args
        ok, det = True, ''
        extra_kw = [k.arg for k in c.keywords if k.arg not in ('pnode', 'route_pattern', 'data', 'hooks', 'param_exclusions', 'param_filters', 'param_names')]
        if extra_kw:
            # the callee takes something the reference signature does not have (an offset into the lists, say): how rule tail and lists are paired is another protocol
            R.undecided('C01.g', st, c, '_set -> _make_route', f'the call passes {extra_kw}, which the reference signature of _make_route does not have: no recogniser for this pairing of '
                        f'rule tail and wildcard lists')
            continue
        if len(a) >= 7 and isinstance(a[1], ast.Subscript) and isinstance(a[1].slice, ast.Slice) and a[1].slice.lower is not None:
            # pattern sliced by ptr -> exclusions / filters sliced by the wildcard count from the same _match
            m = [s for s in walk_shallow(st.node) if isinstance(s, ast.Assign) and isinstance(s.targets[0], ast.Tuple)
                 and isinstance(s.value, ast.Call) and dotted(s.value.func) == 'self._match']
            idxname = m[0].targets[0].elts[3].id if m and len(m[0].targets[0].elts) >= 4 and isinstance(m[0].targets[0].elts[3], ast.Name) else None
            for k in (4, 5):
                x = a[k]
                good = isinstance(x, ast.Subscript) and isinstance(x.slice, ast.Slice) and x.slice.lower is not None and src(x.slice.lower) == idxname
                if not good:
                    ok = False
                    det = (f'the rule tail `{short(a[1])}` is mounted with the un-sliced list `{short(x)}`: a wildcard behind an existing '
                           f'prefix with k wildcards gets the filter of the wildcard k positions earlier')
        R.ob('C01.g', st, c, ok, detail=det, why='each wildcard is bound to the text its own filter accepted')


def _is_token_name(f, e):
    """expression denotes the wildcard marker: self.param_token or a local bound to it"""
    if 'param_token' in src(e):
        return True
    if isinstance(e, ast.Name):
        for n in f.cfg.nodes:
            for d in f.rd.gen.get(n, []):
                if d.name == e.id and d.value is not None and 'param_token' in src(d.value):
                    return True
    return False


def check_idx_pairing(P, R, rid):
    """every mutation of a node's child list is paired with the matching update of node[IDX]"""
    mod = P.module(RD)
    cls_ = P.cls(f'{RD}:RadiDict')
    n_sites = 0
    for name, f in cls_.methods.items():
        g = f.cfg
        body_stmts = [n for n in g.nodes if n.kind == 'stmt']
        for n in body_stmts:
            a = n.ast
            site = None
            want = None
            # pnode.append(child)
            if isinstance(a, ast.Expr) and isinstance(a.value, ast.Call) and call_attr(a.value) == 'append' and isinstance(a.value.func.value, ast.Name) \
                    and a.value.func.value.id in ('pnode', 'node') and name in ('_mount',):
                site = ('append', a.value.func.value.id)
                want = lambda st, nd: isinstance(st, ast.AugAssign) and isinstance(st.op, ast.Add) and src(st.target) == f'{nd}[IDX]'
                wtxt = 'IDX += key'
                cond_ok = cond_is_token(a, positive=True, f=f)
            elif isinstance(a, ast.Expr) and isinstance(a.value, ast.Call) and call_attr(a.value) == 'insert' and isinstance(a.value.func.value, ast.Name) \
                    and a.value.args and src(a.value.args[0]) == 'OFFSET':
                site = ('insert', a.value.func.value.id)
                want = lambda st, nd: isinstance(st, ast.Assign) and src(st.targets[0]) == f'{nd}[IDX]' and isinstance(st.value, ast.BinOp) \
                    and isinstance(st.value.op, ast.Add) and src(st.value.right) == f'{nd}[IDX]' and '[0]' in src(st.value.left)
                wtxt = 'IDX = key[0] + IDX'
                cond_ok = cond_is_token(a, positive=False, f=f)
            elif isinstance(a, ast.Delete) and len(a.targets) == 1 and isinstance(a.targets[0], ast.Subscript) \
                    and isinstance(a.targets[0].value, ast.Name) and 'OFFSET' in src(a.targets[0].slice):
                nd = a.targets[0].value.id
                if isinstance(a.targets[0].slice, ast.Slice):
                    site = ('truncate', nd)
                    want = lambda st, nd: isinstance(st, ast.Assign) and src(st.targets[0]) == f'{nd}[IDX]' and is_const(st.value, None)
                    wtxt = 'IDX = None'
                else:
                    site = ('delete', nd)
                    want = lambda st, nd: isinstance(st, ast.Assign) and src(st.targets[0]) == f'{nd}[IDX]' and isinstance(st.value, ast.Call) \
                        and call_attr(st.value) == 'replace'
                    wtxt = 'IDX = IDX.replace(key0, "")'
                cond_ok = True
            if not site:
                continue
            n_sites += 1
            nd = site[1]
            # the paired update sits in the same straight-line block: search neighbours (both directions) until a branch
            found = False
            for direction in ('succ', 'pred'):
                cur = n
                for _ in range(4):
                    nxt = [m for (m, lab) in getattr(cur, direction) if lab == 'next']
                    if len(nxt) != 1 or nxt[0].kind != 'stmt':
                        break
                    cur = nxt[0]
                    if want(cur.ast, nd):
                        found = True
                        break
                if found:
                    break
            R.ob(rid, f, a, found and cond_ok, text=f'{site[0]} on {nd} <-> {wtxt}', detail='' if found and cond_ok else
                 (f'the child list of `{nd}` changes without the matching update `{wtxt}` of its index string' if not found else
                  'wildcard child must be appended last / literal children inserted in front'),
                 why='get() picks child k by the position of a character in IDX and finds the wildcard at idx[-1]')
    # whole-node rebuilds: _split (idx= keyword with children=[node]), _try_merge (pnode[:] = child)
    sp = cls_.methods.get('_split')
    if sp is None:
        sp = P.func(f'{RD}:RadiDict._split')        # merged into its only caller of the reference layout: analysed there
    mk = T.calls_to(sp, 'self._make_node', '_make_node', 'RadiDict._make_node')
    ok = False
    for c in mk:
        kw = {k.arg: k.value for k in c.keywords}
        ok = 'idx' in kw and 'children' in kw and src(kw['idx']).endswith('[0]') and isinstance(kw['children'], ast.List) and len(kw['children'].elts) == 1
        if ok:
            # idx is the first char of the rest key given to the single child
            rest = kw['idx'].value.id if isinstance(kw['idx'], ast.Subscript) and isinstance(kw['idx'].value, ast.Name) else None
            child = kw['children'].elts[0].id if isinstance(kw['children'].elts[0], ast.Name) else None
            ok = any(isinstance(st, ast.Assign) and src(st.targets[0]) == f'{child}[KEY]' and src(st.value) == rest for st in walk_shallow(sp.node))
    if not mk:
        # in-place form: pnode[IDX] = rest[0]; pnode[OFFSET:] = [node]; node[KEY] = rest
        idx_st = [st for st in walk_shallow(sp.node) if isinstance(st, ast.Assign) and slot_name(st.targets[0]) == 'IDX' and src(st.value).endswith('[0]')]
        ch_st = [st for st in walk_shallow(sp.node) if isinstance(st, ast.Assign) and isinstance(st.targets[0], ast.Subscript) and isinstance(st.targets[0].slice, ast.Slice)
                 and src(st.targets[0].slice.lower) == 'OFFSET' and isinstance(st.value, ast.List) and len(st.value.elts) == 1]
        ok = False
        if idx_st and ch_st:
            rest = idx_st[0].value.value.id if isinstance(idx_st[0].value, ast.Subscript) and isinstance(idx_st[0].value.value, ast.Name) else None
            child = ch_st[0].value.elts[0].id if isinstance(ch_st[0].value.elts[0], ast.Name) else None
            ok = any(isinstance(st, ast.Assign) and src(st.targets[0]) == f'{child}[KEY]' and src(st.value) == rest for st in walk_shallow(sp.node))
    R.ob(rid, sp, mk[0] if mk else sp.node, ok, text='_split: new node idx = rest[0], children = [old node with KEY = rest]', detail='' if ok else
         'the split node\'s index does not name its single child\'s key')
    n_sites += 1
    tm = cls_.methods.get('_try_merge')
    R.require(tm is not None, 'RadiDict._try_merge missing')
    whole = [st for st in walk_shallow(tm.node) if isinstance(st, ast.Assign) and isinstance(st.targets[0], ast.Subscript)
             and isinstance(st.targets[0].slice, ast.Slice) and st.targets[0].slice.lower is None]
    ok = bool(whole) and isinstance(whole[0].value, ast.Name)
    R.ob(rid, tm, whole[0] if whole else tm.node, ok, text='_try_merge: pnode[:] = child (index and children of the child taken together)', detail='' if ok else
         'the merged node does not take the child\'s index and children as a whole')
    n_sites += 1
    # a wildcard node is never merged with its child, nor a node with its wildcard child
    gtests = [n for n in tm.cfg.nodes if n.kind == 'test']
    gsrc = ' '.join(src(n.ast) for n in gtests).replace(' ', '')
    fold_nodes = [tm.cfg.node_of_stmt(w_)[0] for w_ in whole]
    facts = [(e_, h_) for fn_ in fold_nodes for (e_, h_, _t) in T.guard_atoms(tm, fn_)]
    for (slot, what) in (('KEY', 'the node itself is a wildcard'), ('IDX', 'its only child is a wildcard')):
        # at the fold, `node[SLOT] == token` is known to be false (or `!=` known to be true)
        ok = any(compare_parts(e_) and slot_name(compare_parts(e_)[0]) == slot and 'param_token' in src(compare_parts(e_)[2]) and
                 ((compare_parts(e_)[1] is ast.Eq and not h_) or (compare_parts(e_)[1] is ast.NotEq and h_)) for (e_, h_) in facts)
        R.ob(rid, tm, gtests[0].ast if gtests else tm.node, ok, text=f'_try_merge refuses to merge when {what} ([{slot}] == param_token)', detail='' if ok else
             f'_try_merge no longer refuses when {what}: after a removal the wildcard node is fused with a literal sibling, its filter is lost and '
             f'the literal text after the wildcard is no longer checked',
             why='a value the wildcard filter would reject must never reach a handler', key_extra='merge-' + slot)
    R.require(n_sites >= 6, f'{n_sites} child-list mutation sites found (6 on the pinned tree)')


def cond_is_token(stmt, positive, f=None):
    t = enclosing(stmt, ast.If)
    if t is None:
        return False
    cp = compare_parts(t.test)
    rhs = src(cp[2]) if cp else ''
    if cp and f is not None and 'param_token' not in rhs:
        ns_ = f.cfg.nodes_for(t.test)
        rhs = T.xsrc(f, cp[2], ns_[0]) if ns_ else rhs          # a local copy of self.param_token
    if not cp or cp[1] is not ast.Eq or 'param_token' not in rhs:
        return False
    in_body = T._inside(stmt, t.body)
    return in_body if positive else not in_body


def check_params_filter(P, R, rid, why):
    """make_params_dict drops a pair for one reason only: the name is anonymous.  No condition on the value (0, 0.0 and '' are values)."""
    mp = P.func(f'{RR}:Route.make_params_dict')
    conds = []
    for dc in [c for c in ast.walk(mp.node) if isinstance(c, ast.DictComp)]:
        tgt = dc.generators[0].target
        vname = tgt.elts[1].id if isinstance(tgt, ast.Tuple) and len(tgt.elts) == 2 and isinstance(tgt.elts[1], ast.Name) else None
        for i in dc.generators[0].ifs:
            conds += [(c_, vname) for c_ in bool_operands(i, ast.And)]
    for l in [l for l in walk_shallow(mp.node) if isinstance(l, ast.For) and isinstance(l.target, ast.Tuple) and len(l.target.elts) == 2]:
        vname = l.target.elts[1].id if isinstance(l.target.elts[1], ast.Name) else None
        for t_ in [t_ for t_ in walk_shallow(l) if isinstance(t_, ast.If)]:
            conds += [(c_, vname) for c_ in bool_operands(t_.test, ast.And)] + [(c_, vname) for c_ in bool_operands(t_.test, ast.Or) if len(bool_operands(t_.test, ast.Or)) > 1]
    for (c_, vname) in conds:
        on_value = vname is not None and any(isinstance(x, ast.Name) and x.id == vname for x in ast.walk(c_))
        none_test = on_value and compare_parts(c_) and compare_parts(c_)[1] in (ast.Is, ast.IsNot) and is_const(compare_parts(c_)[2], None)
        ok = not on_value
        R.ob(rid, mp, c_, ok, text=f'filter condition `{short(c_)}` is about the name only', detail='' if ok else
             (f'the pair is also dropped on `{short(c_)}`, a test of the value: a named wildcard that legitimately matched 0, 0.0 or the empty string disappears from the keyword '
              f'arguments (and url() built from that assignment raises KeyError)' if not none_test else
              f'`{short(c_)}`: values are never None here; the condition has no recogniser beyond that'), why=why, key_extra='params-filter-name-only')
