"""C13 - Body size limits and disk spooling bound what a request can consume."""
import ast

from ..astutil import (walk_shallow, dotted, call_attr, short, src, stmt_of, names_loaded, is_const, enclosing,
                       compare_parts, strip_not, const, bool_operands)
from ..loader import AnalysisError
from .. import rules as T
from . import c04, c05

ID = 'C13'
DECIDED = ('(a) _body_read compares the running size with max_body_size inside the part loop, after the size was increased '
           'by len(part) of the current part on every path, and its true edge raises BodySizeError; (b) the comparison is '
           'strict and guarded by `is not None`, so a body of exactly the limit passes; (c) the switch to a temporary file '
           'happens inside the loop on `size > threshold` alone (plus its one-shot flag) - it does not depend on the '
           'framing or the declared length - and copies the buffer (C04.d); (d) BodySizeError maps to 413 through _raise '
           '(class looked up before the generic fallback) and _body converts reader errors; (e) every in-memory read of a '
           'multipart header block or text value is dominated by the budget test that includes its size, the budget '
           'shrinks by what was read, file parts get a window instead of a read, and _get_body_string rejects a declared '
           'length above the threshold before reading and reads threshold+1 bytes when the length is unknown so that the '
           'following size test can fire; (f) both readers request at most one buffer per read (C04.a / C05.a), hence at '
           'most limit + one buffer bytes are requested before the 413.')
DECIDED_MORE = ('Also: count-down form of the limit with an `is not None` guard; the limit argument of _body_read is the configured one on every path; the spill pass still feeds the multipart scanner.')
DECIDED = DECIDED + ' ' + DECIDED_MORE
DECIDED_R6 = ('Round 6: strict limit comparison; a supplied setting is used whenever the key is present; the one-shot spill flag is armed before the loop; a declared length above the threshold is refused before reading.')
DECIDED = DECIDED + ' ' + DECIDED_R6
DECIDED_R7 = ('Round 7: the spooled body stays open while the response is produced; an upload reads its own part only (read(-1) included).')
DECIDED = DECIDED + ' ' + DECIDED_R7
DECIDED_R8 = ('Round 8: the framing readers and wsgi.input are used by _body_read only; a failed switch to the temporary file ends the reader; the accessors hand the body buffer to iter_items only.')
DECIDED = DECIDED + ' ' + DECIDED_R8
DECIDED_R9 = ('Round 9: `copy()` hands the configuration to the copy (b); the read total may travel through copies (e).')
DECIDED = DECIDED + ' ' + DECIDED_R9
NOT_DECIDED = ('framing overhead of pathological chunking (1-byte chunks); memory used by the interpreter for the objects '
               'themselves.')
ASSUMPTIONS = ['wsgi.input.read(n) returns at most n bytes', 'TemporaryFile keeps its content on disk']

BM = 'ombott.request_pkg.body_mixin'
MP = 'ombott.request_pkg.multipart'


def check(P, R):
    R.rule('C13.a', 'limit checked after every part, inside the loop, after the size update', floor=2)
    R.rule('C13.b', 'strict comparison guarded by is-not-None', floor=1)
    R.rule('C13.c', 'spill on accumulated size alone', floor=2)
    R.rule('C13.d', 'BodySizeError -> 413', floor=3)
    R.rule('C13.e', 'in-memory budget precedes every read', floor=7)
    R.rule('C13.f', 'one buffer per read in both readers', floor=2)

    from . import c12 as _c12
    _c12.check_size_line_cap(P, R, 'C13.f')
    from . import c04
    c04.check_reader_premise(P, R, 'C13.a', 'the size that is compared with the limit is the size of the whole declared body: a reader that stops early on a short read '
                             'lets an oversized body through truncated')
    # a body kept on disk has "identical content": the spooled file stays open while the response is produced, and an upload reads its own part of it only
    from ..report import Sub as _Sub13
    bm_ = P.cls(f'{BM}:BodyMixin').methods.get('_body')
    if bm_ is not None:
        decs_ = [d for d in bm_.node.decorator_list if isinstance(d, ast.Call) and dotted(d.func) == 'cache_in']
        c04.check_nobody_closes_body(P, _Sub13(R, why='a body larger than the in-memory threshold is kept on disk with identical content - readable as long as the request lives'),
                                     'C13.c', bm_, decs_)
    from . import c07 as _c07
    _c07.check_upload_window(P, _Sub13(R, why='a body larger than the in-memory threshold is kept on disk, not loaded: an upload reads its own part only'), 'C13.c')
    check_single_reader(P, R, 'C13.a')
    from . import c08 as _c08
    _c08.check_copy_keeps_config(P, R, 'C13.b', 'a body larger than the configured maximum is rejected - also when it is read through a copy of the request')
    f = P.func(f'{BM}:_body_read')
    g, rd = f.cfg, f.rd
    fors = [n for n in walk_shallow(f.node) if isinstance(n, ast.For)]
    R.require(len(fors) == 1, f'{f.fq}: expected one part loop')
    loop = fors[0]
    part = loop.target.id if isinstance(loop.target, ast.Name) else None
    R.require(part, 'loop target not a name')
    head = T.loop_head(g, loop)
    # the limit test
    lim_tests = []
    for n in g.nodes:
        if n.kind == 'test' and any(isinstance(x, ast.Compare) and isinstance(x.ops[0], (ast.Gt, ast.GtE, ast.Lt, ast.LtE))
                                    and 'max_body_size' in names_loaded(x) and len(x.ops) == 1 for x in ast.walk(n.ast)):
            lim_tests.append(n)
    # count-down formulation: `allowance = max_body_size; ...; allowance -= len(part); if allowance < 0: raise`
    copies = {d.name for n_ in g.nodes for d in rd.gen.get(n_, []) if d.kind == 'assign' and isinstance(d.value, ast.Name) and d.value.id == 'max_body_size'}
    down_tests = []
    for n in g.nodes:
        if n.kind == 'test' and n.ast is not None:
            cp = compare_parts(n.ast) if not isinstance(n.ast, ast.BoolOp) else None
            for x in ast.walk(n.ast):
                cpx = compare_parts(x) if isinstance(x, ast.Compare) else None
                if cpx and isinstance(cpx[0], ast.Name) and cpx[0].id in copies and cpx[1] in (ast.Lt, ast.LtE) and is_const(cpx[2], 0):
                    down_tests.append((n, cpx[0].id, cpx[1]))
    for (n, nm, op) in down_tests:
        in_loop = T._inside(n.ast, loop.body)
        R.ob('C13.a', f, n.ast, in_loop, text=f'if {short(n.ast)} [inside the part loop]', detail='' if in_loop else
             'the size limit is checked outside the loop: the whole body is buffered before it is refused',
             why='at most limit + one buffer may be read before the 413')
        decs = [x for st in loop.body for x in walk_shallow(st) if isinstance(x, ast.AugAssign) and isinstance(x.target, ast.Name) and x.target.id == nm
                and isinstance(x.op, ast.Sub)]
        good = [x for x in decs if T.is_len_of(x.value, part)]
        R.ob('C13.a', f, decs[0] if decs else loop, bool(good) and len(good) == len(decs), text=f'{nm} -= len({part})', detail='' if good and len(good) == len(decs) else
             f'the remaining allowance is not lowered by len({part}) of each part')
        atoms = T.guard_atoms(f, n)
        not_none = T.holds_not_none(atoms, nm) or T.holds_not_none(atoms, 'max_body_size')
        truthy = [(e, h) for (e, h, _t) in atoms if isinstance(e, ast.Name) and e.id in (nm, 'max_body_size') and h]
        strict = op is ast.Lt
        okb = not_none and strict
        R.ob('C13.b', f, n.ast, okb, text=f'{short(n.ast)} under `{nm} is not None`', detail='' if okb else
             ('the comparison is not strict: a body of exactly max_body_size is refused' if not strict else
              (f'the limit check is enabled by the truth value of `{truthy[0][0].id}`: once the parts read so far add up to exactly the limit the allowance is 0, the check '
               f'is switched off for the rest of the stream and a body of any size is accepted (and a limit of 0 disables it altogether)' if truthy else
               f'the comparison is not guarded by `{nm} is not None`')),
             why='a body larger than the maximum must be rejected with 413, wherever the part boundaries fall', key_extra='countdown-guard')
        reach = g.reachable_from(T.succ_by_label(n, 'true'))
        raises = [m for m in reach if m.kind == 'stmt' and isinstance(m.ast, ast.Raise)]
        okr = g.exit not in reach and head not in reach and any('BodySizeError' in src(m.ast) for m in raises)
        R.ob('C13.a', f, n.ast, okr, text=f'{short(n.ast)} -> raise BodySizeError', detail='' if okr else
             'exceeding the limit does not raise BodySizeError straight away', key_extra='raises')
        dec_nodes = [g.node_of_stmt(x)[0] for x in good]
        first = T.succ_by_label(head, 'iter')
        oko = bool(dec_nodes) and all(g.must_pass(s_, n, dec_nodes) or s_ in dec_nodes for s_ in first)
        R.ob('C13.a', f, n.ast, oko, text=f'{short(n.ast)} [after the allowance update of this part]', detail='' if oko else
             'the allowance is tested before the current part was counted', why='a body larger than the maximum must be rejected with 413', key_extra='order')
    R.require(lim_tests or down_tests, f'{f.fq}: no test involving max_body_size')
    for n in lim_tests:
        parts = bool_operands(n.ast, ast.And)
        cmp = [p for p in parts if isinstance(p, ast.Compare) and not isinstance(p.ops[0], (ast.Is, ast.IsNot))]
        guard = [p for p in parts if isinstance(p, ast.Compare) and isinstance(p.ops[0], ast.IsNot) and is_const(p.comparators[0], None)
                 and src(p.left) == 'max_body_size']
        in_loop = T._inside(n.ast, loop.body)
        R.ob('C13.a', f, n.ast, in_loop, text=f'if {short(n.ast)} [inside the part loop]', detail='' if in_loop else
             'the size limit is checked outside the loop: the whole body is buffered before it is refused',
             why='at most limit + one buffer may be read before the 413')
        if not cmp:
            R.ob('C13.b', f, n.ast, False, detail='no size comparison in the limit test')
            continue
        c = cmp[0]
        l, op, r = c.left, c.ops[0], c.comparators[0]
        if src(r) == 'max_body_size':
            size, strict = l, isinstance(op, ast.Gt)
        elif src(l) == 'max_body_size':
            size, strict = r, isinstance(op, ast.Lt)
        else:
            size, strict = None, False
        okb = strict and bool(guard) and parts.index(guard[0]) < parts.index(c) if guard and size is not None else False
        if not okb and strict and size is not None:
            # the None guard may sit in an enclosing `if` (possibly through a flag computed before the loop)
            okb = T.holds_not_none(T.guard_atoms(f, n), 'max_body_size')
        R.ob('C13.b', f, c, okb, detail='' if okb else
             ('the comparison is not strict: a body of exactly max_body_size is refused' if not strict else
              'the comparison is not guarded by `max_body_size is not None`'),
             why='any body within the limit is accepted')
        # true edge raises BodySizeError
        reach = g.reachable_from(T.succ_by_label(n, 'true'))
        raises = [m for m in reach if m.kind == 'stmt' and isinstance(m.ast, ast.Raise)]
        okr = g.exit not in reach and head not in reach and any('BodySizeError' in src(m.ast) for m in raises)
        R.ob('C13.a', f, n.ast, okr, text=f'{short(n.ast)} -> raise BodySizeError', detail='' if okr else
             'exceeding the limit does not raise BodySizeError straight away', key_extra='raises')
        # the size compared includes the current part: on every path from the loop head to the test the increment ran
        if isinstance(size, ast.Name) and in_loop:
            incs = []
            for st in loop.body:
                for x in walk_shallow(st):
                    if isinstance(x, ast.AugAssign) and isinstance(x.target, ast.Name) and x.target.id == size.id \
                            and isinstance(x.op, ast.Add):
                        incs.append(x)
            good = [x for x in incs if T.is_len_of(x.value, part)]
            R.ob('C13.a', f, incs[0] if incs else loop, bool(good) and len(good) == len(incs),
                 text=f'{size.id} += len({part})', detail='' if good and len(good) == len(incs) else
                 f'the running size is not increased by len({part}) of each part')
            inc_nodes = [g.node_of_stmt(x)[0] for x in good]
            first = T.succ_by_label(head, 'iter')
            oko = bool(inc_nodes) and all(g.must_pass(s, n, inc_nodes) or s in inc_nodes for s in first)
            R.ob('C13.a', f, n.ast, oko, text=f'{short(n.ast)} [after the size update of this part]', detail='' if oko else
                 'the limit is compared with the size *before* the current part was counted: the part that crosses the limit is '
                 'only noticed if another part follows (a body exceeding the limit in its last part is accepted)',
                 why='a body larger than the maximum must be rejected with 413', key_extra='order')

    # ---- c: spill condition
    rets = [n for n in walk_shallow(f.node) if isinstance(n, ast.Return) and isinstance(n.value, ast.Name)]
    R.require(rets, '_body_read returns no buffer name')
    body = rets[0].value.id
    rebinds = [d for n in g.nodes for d in rd.gen.get(n, []) if d.name == body and T._inside(d.stmt, loop.body)]
    R.ob('C13.c', f, loop, bool(rebinds), text='switch to a temporary file inside the part loop', detail='' if rebinds else
         'the buffer never moves to a temporary file while parts arrive: a large body stays in memory')
    for d in rebinds:
        cl_tmp = list(rd.closure_nodes(d.value, d.node, follow_mut=False) if d.value is not None else ast.walk(d.stmt))
        has_tmp = any(isinstance(x, ast.Call) and call_attr(x) in ('TemporaryFile', 'NamedTemporaryFile') for x in cl_tmp)
        spooled = [x for x in cl_tmp if isinstance(x, ast.Call) and call_attr(x) == 'SpooledTemporaryFile']
        for x in spooled:
            R.ob('C13.c', f, x, False, text=f'{short(x)} as the spill target', detail=
                 'a SpooledTemporaryFile keeps its content in memory until max_size is exceeded (never, with the default max_size=0): the body that was to be moved '
                 'to disk stays in memory whatever its size', why='bodies larger than the in-memory threshold are kept on disk', key_extra='spooled')
        has_tmp = has_tmp or bool(spooled)
        test = enclosing(d.stmt, ast.If)
        ok, det = False, 'the switch is not under a size test'
        if test is not None and has_tmp:
            names = names_loaded(test.test)
            flags = {x.operand.id for x in ast.walk(test.test) if isinstance(x, ast.UnaryOp) and isinstance(x.op, ast.Not)
                     and isinstance(x.operand, ast.Name)}
            # ... and whatever else lets the switch happen exactly once (`mem_body is not None`, cleared at the switch)
            from . import c04 as _c04
            armed_by = {fl: _c04._falsy_const for fl in flags}
            armed_by.update(dict(_c04.one_shot_flags(f, loop, g.nodes_for(loop)[0], d, body, with_armed=True)))
            flags = set(armed_by)
            cmpx = [p for p in bool_operands(test.test, ast.And) if isinstance(p, ast.Compare)]
            def _tell(e_):
                # the write position of the buffer itself is its accumulated size (it is only ever appended to)
                return isinstance(e_, ast.Call) and call_attr(e_) == 'tell' and not e_.args and isinstance(e_.func.value, ast.Name) and e_.func.value.id == body
            tnode_ = g.nodes_for(test.test)[0] if g.nodes_for(test.test) else g.node_of_stmt(d.stmt)[0]

            def _is_param(e_):
                # the threshold: a parameter, possibly through a plain copy made before the loop
                return isinstance(e_, ast.Name) and (e_.id in f.params or T.xsrc(f, e_, tnode_) in f.params)
            size_cmp = [p for p in cmpx if isinstance(p.ops[0], (ast.Gt, ast.GtE)) and (isinstance(p.left, ast.Name) or _tell(p.left))
                        and _is_param(p.comparators[0])]
            extra = names - flags - {p.left.id if isinstance(p.left, ast.Name) else body for p in size_cmp} - {p.comparators[0].id for p in size_cmp}
            if not size_cmp and cmpx and not any(isinstance(p.left, ast.Name) for p in cmpx):
                R.undecided('C13.c', f, d.stmt, 'spill condition', f'`{short(test.test)}` measures the accumulated size in a way that has no recogniser')
                continue
            if not size_cmp:
                det = 'the switch is not conditioned on `accumulated size > threshold`'
            elif extra:
                det = (f'the switch also depends on {sorted(extra)}: for some framing / declared length the body is never moved '
                       f'to disk although it exceeds the threshold')
            else:
                # the flags must start False
                ok = True
                for fl in flags:
                    for dd in rd.at(head, fl):
                        if T._inside(dd.stmt, loop.body):
                            continue
                        if dd.kind != 'assign' or dd.value is None or not armed_by[fl](dd.value):
                            ok = False
                            det = (f'the one-shot flag `{fl}` starts as `{short(dd.value) if dd.value is not None else dd.kind}`: it does not allow the switch '
                                   f'on the first part that exceeds the threshold')
                det = '' if ok else det
        R.ob('C13.c', f, d.stmt, ok, detail=det, why='a body larger than the in-memory threshold is kept on disk under both framings')
        # the switch happens, or the reader fails: no way back into the loop (or out of the function with a buffer) once the size test said "over the threshold"
        # except through the completed switch
        if test is not None and has_tmp:
            tn_ = [n for n in g.nodes_for(test.test) if n.kind == 'test']
            exc_succ = [m for (m, lab) in d.node.succ if lab == 'exc']
            back = set()
            for m in exc_succ:
                back |= g.reachable_from([m])
            resumed = [m for m in (head, g.exit) if m in back and (m is head or any(
                isinstance(p.ast, ast.Return) for (p, lab) in m.pred if p in back and p.kind == 'stmt'))]
            okf = not resumed
            R.ob('C13.c', f, d.stmt, okf, text=f'`{short(d.stmt)}`: a failed switch ends the reader', detail='' if okf else
                 f'when `{short(d.stmt)}` fails the exception is caught and the reader goes on: the parts keep accumulating in the in-memory buffer although the size test '
                 f'said the body is over the threshold', why='a body larger than the in-memory threshold is kept on disk rather than in memory', key_extra='switch-or-fail')
    # the initial buffer is an in-memory BytesIO (the spill is the only way to a file) or the file from the start
    init = [d for d in rd.at(head, body) if not T._inside(d.stmt, loop.body)]
    def _ctor(v):
        if isinstance(v, ast.IfExp):
            return _ctor(v.body) and _ctor(v.orelse)
        return isinstance(v, ast.Call) and call_attr(v) in ('BytesIO', 'TemporaryFile', 'SpooledTemporaryFile')
    ok = bool(init) and all(_ctor(d.value) for d in init)
    R.ob('C13.c', f, init[0].stmt if init else f.node, ok, text='initial buffer', detail='' if ok else 'initial buffer is not a BytesIO/TemporaryFile constructor',
         nontrivial=False)

    # ---- d: 413
    table = c05.errors_map_table(P)
    bse = P.cls('ombott.request_pkg.errors:BodySizeError')
    req = P.cls('ombott.request_pkg.errors:RequestError')
    st = c05.status_for(P, table, bse, req)
    R.ob('C13.d', 'ombott.ombott:DefaultConfig', None, st == 413, text=f'BodySizeError -> {st}', detail='' if st == 413 else
         f'BodySizeError is answered with {st}, not 413')
    c05.check_raise_and_body(P, R, 'C13.d')

    # ---- f: one buffer per read (only the buffer bound matters here; exactness of the accounting is C04 / C05)
    for fq in (f'{BM}:_iter_body', f'{BM}:_iter_chunked'):
        fr_ = P.func(fq)
        reads = [c for c in c04.read_param_calls(fr_) if c.args and not isinstance(c.args[0], ast.Constant)]
        R.require(reads, f'{fq}: payload read not found')
        for c in reads:
            cn = fr_.cfg.node_of_stmt(c)[0]
            cl = fr_.rd.closure_nodes(c.args[0], cn)
            mins = [x for x in cl if isinstance(x, ast.Call) and dotted(x.func) == 'min']
            ok = any('buff_size' in names_loaded(a_) for m in mins for a_ in m.args) or (isinstance(c.args[0], ast.Name) and c.args[0].id == 'buff_size')
            R.ob('C13.f', fr_, c, ok, detail='' if ok else 'a payload read is not bounded by the buffer size: more than limit + one buffer can be pulled in before the 413',
                 why='rejected after reading at most the limit plus one buffer')

    # each part is handed to _body_read in the iteration that read it (limit check / spooling happen per buffer)
    for fq in (f'{BM}:_iter_body', f'{BM}:_iter_chunked'):
        fr_ = P.func(fq)
        for c in [c for c in c04.read_param_calls(fr_) if c.args and not isinstance(c.args[0], ast.Constant)]:
            var = T.assigned_name_of_call(c)
            lps = T.loops_of(c)
            ys = T.yield_nodes(fr_.cfg, within=lps[0].body) if lps else []
            ok = bool(var) and any(var in names_loaded(y.ast) and isinstance([x for x in walk_shallow(y.ast) if isinstance(x, ast.Yield)][0].value, ast.Name) for y in ys)
            R.ob('C13.f', fr_, c, ok, text='the part read is yielded, as it is, in the same iteration', detail='' if ok else
                 'parts are collected and handed over later (e.g. one bytes object per chunk): _body_read checks max_body_size and spools only per '
                 'delivered piece, so a single huge chunk is read into memory completely before the 413',
                 why='rejected after reading at most the limit plus one buffer; large bodies kept on disk', key_extra='handover')
    # the in-memory threshold handed to the reader is the configured one, unclamped
    fb_ = P.func(f'{BM}:BodyMixin._body')
    for c in [x for x in walk_shallow(fb_.node) if isinstance(x, ast.Call) and dotted(x.func) == '_body_read']:
        a1 = c.args[1] if len(c.args) > 1 else None
        cn = fb_.cfg.node_of_stmt(c)[0]
        cl = fb_.rd.closure_nodes(a1, cn) if a1 is not None else []
        calls_ = [x for x in cl if isinstance(x, ast.Call)]
        ok = a1 is not None and T.xsrc(fb_, a1, cn) == 'self.config.max_memfile_size'
        R.ob('C13.c', fb_, c, ok, text=f'buffer / spill threshold argument = self.config.max_memfile_size', detail='' if ok else
             f'the threshold handed to the reader is `{short(a1)}`' + (f' = {short(calls_[0])}' if calls_ else '') +
             ', not the configured max_memfile_size itself: bodies between the configured threshold and the substituted value stay in memory',
             why='a body larger than the in-memory threshold is kept on disk', key_extra='threshold-arg')

        # ... and so is the size limit, whatever the framing / declared length
        kw = [k for k in c.keywords if k.arg == 'max_body_size']
        pos = c.args[4] if len(c.args) > 4 else None
        a_l = kw[0].value if kw else pos
        vals = []
        if isinstance(a_l, ast.Name) and fb_.rd.is_local(a_l.id):
            vals = [T.expand(fb_, d.value, d.node) if d.value is not None else None for d in fb_.rd.root_defs(cn, a_l.id)]
        elif a_l is not None:
            vals = [T.expand(fb_, a_l, cn)]
        ok = bool(vals) and all(v is not None and src(v) == 'self.config.max_body_size' for v in vals)
        R.ob('C13.a', fb_, c, ok, text='size limit argument = self.config.max_body_size on every path', detail='' if ok else
             f'the limit handed to the reader may be {[short(v) if v is not None else "?" for v in vals] or "missing"}: on that path the per-part check of _body_read is off - '
             f'the reader is chosen by the chunked flag, so a chunked request that also declares a small Content-Length is read without any limit',
             why='a body larger than the maximum is rejected with 413 under both framings', key_extra='limit-arg')

    check_config_by_presence(P, R, 'C13.b', 'a configured limit of 0 (accept no body) is a limit, not "unset": any body within the limit is accepted, any body over it refused')
    # a body that moves to disk is the same body for the multipart layer: the pass that spills still feeds the scanner
    from . import c06
    c06.check_scanner_fed(P, R, 'C13.c', why='a body larger than the in-memory threshold is kept on disk with identical content (its parts included)')
    check_memory_budget(P, R)


def check_single_reader(P, R, rid):
    """the limit and the spill live in _body_read: the framing readers and the input stream are used by nobody else"""
    seen = 0
    for f in P.all_funcs():
        if not f.module.name.startswith('ombott.request_pkg'):
            continue
        for x in walk_shallow(f.node):
            what = None
            if isinstance(x, ast.Name) and x.id in ('_iter_body', '_iter_chunked') and isinstance(x.ctx, ast.Load) and not f.rd.is_local(x.id):
                what = x.id
            elif isinstance(x, ast.Subscript) and isinstance(x.slice, ast.Constant) and x.slice.value == 'wsgi.input' and isinstance(x.ctx, ast.Load):
                what = "environ['wsgi.input']"
            if what is None:
                continue
            seen += 1
            if what.startswith('_iter'):
                ok = f.fq == f'{BM}:_body_read'
            else:
                # the stream's read method is handed to _body_read and to nothing else
                par = getattr(x, '_parent', None)
                call = enclosing(x, ast.Call)
                ok = call is not None and (dotted(call.func) or '').split('.')[-1] == '_body_read'
                if not ok:
                    ns_ = f.cfg.node_of_stmt(x)
                    st_ = ns_[0].ast if ns_ else None
                    if isinstance(st_, ast.Assign) and len(st_.targets) == 1 and isinstance(st_.targets[0], ast.Name):
                        nm = st_.targets[0].id
                        uses = [u for u in walk_shallow(f.node) if isinstance(u, ast.Name) and u.id == nm and isinstance(u.ctx, ast.Load)]
                        ok = bool(uses) and all((lambda c_: c_ is not None and (dotted(c_.func) or '').split('.')[-1] == '_body_read')(enclosing(u, ast.Call)) for u in uses)
            R.ob(rid, f, x, ok, text=f'`{what}` used in {f.fq.split(":")[1]}: only _body_read reads the stream', detail='' if ok else
                 f'`{what}` is used in {f.fq.split(":")[1]} outside _body_read, the one place where max_body_size is enforced and the roll-over to disk happens: the bytes read '
                 f'here are neither counted against the limit nor moved out of memory',
                 why='a body larger than the configured maximum is rejected with 413 under both framings', key_extra=f'single-reader:{what}')
    R.require(seen >= 3, f'uses of the framing readers / the input stream: {seen} found, 3 confirmed by hand')


def check_memory_budget(P, R):
    f = P.func(f'{MP}:FieldStorage.read')
    g, rd = f.cfg, f.rd
    srcp = f.params[1]
    budget = 'max_read'
    reads = [c for c in walk_shallow(f.node) if isinstance(c, ast.Call) and call_attr(c) == 'read'
             and isinstance(c.func.value, ast.Name) and c.func.value.id == srcp]
    R.require(len(reads) >= 2, f'{f.fq}: expected reads of the header block and of the text value')
    for i, c in enumerate(reads):
        cn = g.node_of_stmt(c)[0]
        sz = c.args[0] if c.args else None
        ok, det = False, 'read() without a size'
        if isinstance(sz, ast.Name):
            det = f'no budget test `<running total incl. {sz.id}> > {budget}` dominates this read'
            for n in g.nodes:
                if n.kind != 'test' or budget not in names_loaded(n.ast):
                    continue
                cp = compare_parts(n.ast)
                if not cp or cp[1] not in (ast.Gt, ast.GtE) or src(cp[2]) != budget:
                    continue
                if not g.edge_dominates(n, 'false', cn):
                    continue
                # the compared total includes sz: closure of the left side at the test contains the def of sz
                tot = cp[0]
                cl = rd.closure(tot, n)
                szdefs = set(rd.at(cn, sz.id))
                includes = any(isinstance(x, ast.Name) and x.id == sz.id and set(rd.at(nn, sz.id)) == szdefs for (x, nn) in cl
                               if isinstance(x, ast.AST))
                reach = g.reachable_from(T.succ_by_label(n, 'true'))
                raises = any(m.kind == 'stmt' and isinstance(m.ast, ast.Raise) and 'BodySizeError' in src(m.ast) for m in reach) \
                    and g.exit not in reach
                if includes and raises:
                    ok, det = True, ''
                elif not includes:
                    det = 'the budget test that dominates this read does not count the bytes about to be read'
                else:
                    det = 'exceeding the budget does not raise BodySizeError'
        R.ob('C13.e', f, c, ok, detail=det, why='form text larger than the threshold is refused rather than loaded', key_extra=f'read#{i}')
        # size = end - start of the section it seeks to
        if isinstance(sz, ast.Name):
            d = rd.at(cn, sz.id)
            oks = bool(d) and all(x.kind == 'assign' and isinstance(x.value, ast.BinOp) and isinstance(x.value.op, ast.Sub) for x in d)
            R.ob('C13.e', f, c, oks, text=f'{sz.id} = end - start', detail='' if oks else 'read size is not end - start of the section',
                 key_extra=f'size#{i}', nontrivial=False)
    # the total reported to the caller (which lowers the shared budget by it) counts every read
    rets_ = [n for n in g.nodes if n.kind == 'stmt' and isinstance(n.ast, ast.Return) and isinstance(n.ast.value, ast.Name)]
    for i, c in enumerate(reads):
        cn = g.node_of_stmt(c)[0]
        sz = c.args[0] if c.args else None
        if not isinstance(sz, ast.Name) or not rets_:
            continue
        tot = rets_[0].ast.value.id
        szdefs = set(rd.at(cn, sz.id))
        # the total may travel through plain copies (`consumed = consumed__i1`) before it is returned
        tots = {tot}
        for _ in range(4):
            for n_ in g.nodes:
                for d in rd.gen.get(n_, []):
                    if d.name in tots and d.value is not None and isinstance(d.value, ast.Name):
                        tots.add(d.value.id)
        counted = [n for n in g.nodes for d in rd.gen.get(n, []) if d.name in tots and d.value is not None and sz.id in names_loaded(d.value)
                   and set(rd.at(n, sz.id)) == szdefs]
        ok = bool(counted) and all(not (g.can_reach(g.entry, cn, avoid_nodes=counted) and g.can_reach(cn, r, avoid_nodes=counted)) for r in rets_)
        R.ob('C13.e', f, c, ok, text=f'{short(c)}: its size is added to the total `{tot}` returned to the caller', detail='' if ok else
             f'the bytes of this read are tested against the budget but not added to `{tot}`: iter_items lowers the shared budget only by what read() '
             f'reports, so the limit applies per field instead of to the whole form (n fields load n x threshold bytes)',
             why='form text larger than the threshold is refused rather than loaded', key_extra=f'counted#{i}')
    # file parts are not read
    wins = [c for c in walk_shallow(f.node) if isinstance(c, ast.Call) and dotted(c.func) == 'BytesIOProxy']
    ok = False
    for c in wins:
        t = enclosing(c, ast.If)
        if t is not None and 'filename' in src(t.test):
            branch = t.body if T._inside(c, t.body) else t.orelse
            ok = not any(T._inside(r, branch) for r in reads)
    R.ob('C13.e', f, wins[0] if wins else f.node, ok, text='file part -> BytesIOProxy window, no read', detail='' if ok else
         'file content is read into memory instead of being windowed')
    # returns the total read
    rets = [n for n in walk_shallow(f.node) if isinstance(n, ast.Return) and n.value is not None]
    fi = P.func(f'{MP}:FieldStorage.iter_items')
    calls = [c for c in walk_shallow(fi.node) if isinstance(c, ast.Call) and call_attr(c) == 'read' and any(k.arg == 'max_read' for k in c.keywords)]
    R.require(calls, 'iter_items does not call field.read(..., max_read=...)')
    for c in calls:
        res = T.assigned_name_of_call(c)
        kw = [k for k in c.keywords if k.arg == 'max_read'][0]
        okk = isinstance(kw.value, ast.Name)
        decs = [x for x in walk_shallow(fi.node) if isinstance(x, ast.AugAssign) and isinstance(x.op, ast.Sub)
                and isinstance(x.target, ast.Name) and okk and x.target.id == kw.value.id
                and isinstance(x.value, ast.Name) and x.value.id == res]
        gi = fi.cfg
        ok = bool(decs) and res is not None
        if ok:
            # on every path from the read to the next read the budget was lowered
            cn = gi.node_of_stmt(c)[0]
            dn = [gi.node_of_stmt(x)[0] for x in decs]
            ok = all(s in dn or gi.must_pass(s, cn, dn) for (s, lab) in cn.succ if lab != 'exc')
        R.ob('C13.e', fi, c, ok, text='budget lowered by what the field read', detail='' if ok else
             'the in-memory budget is not reduced by the bytes each field consumed: n fields may load n * threshold bytes')
    check_get_body_string(P, R, 'C13.e')
    check_buffer_consumers(P, R, 'C13.e')


def check_buffer_consumers(P, R, rid):
    """the parsed-body accessors get the text of the body from _get_body_string (which refuses what is over the threshold) and hand the buffer itself only to
    the budgeted field reader: nobody else loads it"""
    cls_ = P.cls(f'{BM}:BodyMixin')
    seen = 0
    for mname, m in sorted(cls_.methods.items()):
        if mname in ('_get_body_string', 'body', '_body'):
            continue
        g, rd = m.cfg, m.rd

        def is_buf(e, at):
            if isinstance(e, ast.Attribute) and src(e) in ('self.body', 'self._body'):
                return True
            if isinstance(e, ast.Name) and rd.is_local(e.id):
                ds = rd.root_defs(at, e.id)
                return bool(ds) and all(d.value is not None and isinstance(d.value, ast.Attribute) and src(d.value) in ('self.body', 'self._body') for d in ds)
            return False
        for c in walk_shallow(m.node):
            if not isinstance(c, ast.Call):
                continue
            ns_ = g.node_of_stmt(c)
            if not ns_:
                continue
            at = ns_[0]
            bad = None
            if isinstance(c.func, ast.Attribute) and is_buf(c.func.value, at):
                if c.func.attr in ('read', 'readline', 'readlines', 'getvalue', 'getbuffer', 'read1', 'readinto', '__iter__', '__next__'):
                    if not (c.args and isinstance(c.args[0], ast.Constant) and isinstance(c.args[0].value, int) and 0 <= c.args[0].value <= 65536):
                        bad = f'`{short(c)}` reads the buffer'
                else:
                    seen += 1
            for a in list(c.args) + [k.value for k in c.keywords]:
                if is_buf(a, at):
                    seen += 1
                    callee = (dotted(c.func) or '').split('.')[-1]
                    if callee not in ('iter_items',):
                        bad = f'`{short(c)}` hands the buffer to `{dotted(c.func) or short(c.func)}`'
            if bad:
                R.ob(rid, m, c, False, text=f'{mname}: {bad}', detail=
                     f'{bad}: the text of a body is loaded through _get_body_string (refuses more than max_memfile_size) and the buffer goes to FieldStorage.iter_items '
                     f'(budgeted) only - here a body of any size, spooled to disk because it is over the threshold, is loaded into memory',
                     why='form text larger than the in-memory threshold is refused rather than loaded', key_extra='buffer-consumer')
        for lp in [x for x in walk_shallow(m.node) if isinstance(x, (ast.For, ast.comprehension))]:
            ns_ = g.node_of_stmt(lp) if isinstance(lp, ast.For) else None
            if ns_ and is_buf(lp.iter, ns_[0]):
                R.ob(rid, m, lp, False, text=f'{mname}: iterates the buffer', detail='the buffer is read line by line without any budget',
                     why='form text larger than the in-memory threshold is refused rather than loaded', key_extra='buffer-consumer')
    R.require(seen >= 1, 'no use of the body buffer found in the accessors (iter_items hand-over expected)')
    R.ob(rid, cls_.fq, None, True, text=f'{seen} use(s) of the body buffer in the accessors: handed to iter_items / attribute access only', key_extra='buffer-consumer-summary')


def check_rewind(P, R, rid, why):
    """the cached body buffer is rewound before _get_body_string reads it (the buffer is shared by every accessor of the request)"""
    fs = P.func(f'{BM}:BodyMixin._get_body_string')
    gs = fs.cfg
    reads = [c for c in walk_shallow(fs.node) if isinstance(c, ast.Call) and (T.resolved_callee(fs, c) or '').split('.')[-1] == 'read' and c.args]
    seeks = [gs.node_of_stmt(c)[0] for c in walk_shallow(fs.node) if isinstance(c, ast.Call) and call_attr(c) == 'seek' and c.args and is_const(c.args[0], 0)
             and len(c.args) == 1]
    for c in reads:
        cn = gs.node_of_stmt(c)[0]
        ok = bool(seeks) and gs.must_pass(gs.entry, cn, seeks)
        R.ob(rid, fs, c, ok, text=f'{short(c)} after <body>.seek(0)', detail='' if ok else
             'the buffered body is read from wherever an earlier accessor left it (request.body is one cached object): after request.body.read() the form / '
             'JSON text is empty or cut', why=why, key_extra='rewind')


def check_get_body_string(P, R, rid):
    fs = P.func(f'{BM}:BodyMixin._get_body_string')
    gs, rs = fs.cfg, fs.rd
    check_rewind(P, R, rid, 'what is parsed is the whole body')
    reads = [c for c in walk_shallow(fs.node) if isinstance(c, ast.Call) and (T.resolved_callee(fs, c) or '').split('.')[-1] == 'read']
    reads = [c for c in reads if c.args]
    R.require(reads, '_get_body_string: no sized read')
    thr_names = {d.name for n in gs.nodes for d in rs.gen.get(n, []) if d.value is not None and 'max_memfile_size' in src(d.value)}
    R.require(thr_names, '_get_body_string: threshold variable not found')
    thr = sorted(thr_names)[0]
    for c in reads:
        cn = gs.node_of_stmt(c)[0]
        a = c.args[0]
        # declared length > threshold rejected before the read
        pre = [n for n in gs.nodes if n.kind == 'test' and compare_parts(n.ast) and compare_parts(n.ast)[1] is ast.Gt
               and src(compare_parts(n.ast)[2]) == thr and isinstance(compare_parts(n.ast)[0], ast.Name)
               and gs.edge_dominates(n, 'false', cn)]
        okp = False
        for n in pre:
            reach = gs.reachable_from(T.succ_by_label(n, 'true'))
            okp = okp or (cn not in reach and gs.exit not in reach)
        if not okp:
            # the decision may be kept in a flag: `too_large = declared > limit; if not too_large: <read>; ...; if too_large: raise`
            def _is_pre(e_):
                cp_ = compare_parts(e_)
                return bool(cp_) and cp_[1] is ast.Gt and src(cp_[2]) == thr and isinstance(cp_[0], ast.Name)
            def _is_pre_x(e_):     # the same comparison with the locals expanded (guard_atoms substitutes single definitions)
                cp_ = compare_parts(e_)
                return bool(cp_) and cp_[1] is ast.Gt and (src(cp_[2]) == thr or 'max_memfile_size' in src(cp_[2])) and 'len(' not in src(cp_[0])
            not_over = any(_is_pre_x(e_) and not holds_ for (e_, holds_, _t) in T.guard_atoms(fs, cn))
            refusing = []
            for n in gs.nodes:
                if n.kind == 'test' and isinstance(n.ast, ast.Name) and any(d.value is not None and _is_pre(d.value) for d in rs.at(n, n.ast.id)):
                    reach = gs.reachable_from(T.succ_by_label(n, 'true'))
                    if gs.exit not in reach and cn not in reach:
                        refusing.append(n)
            okp = not_over and bool(refusing)
        R.ob(rid, fs, c, okp, text='declared length above the threshold refused before reading', detail='' if okp else
             'a declared Content-Length above the threshold is not refused before the body is read into memory')
        # unknown length: read threshold + k, k >= 1
        if isinstance(a, ast.Name):
            defs = rs.at(cn, a.id)
            def alts(v_):
                return alts(v_.body) + alts(v_.orelse) if isinstance(v_, ast.IfExp) else [v_]
            unknown = [v_ for d in defs if d.value is not None for v_ in alts(d.value) if thr in names_loaded(v_)]
            oku = bool(unknown)
            det = 'no substitute size for an unknown length'
            for v in unknown:
                good = isinstance(v, ast.BinOp) and isinstance(v.op, ast.Add) and (
                    (src(v.left) == thr and isinstance(v.right, ast.Constant) and isinstance(v.right.value, int) and v.right.value >= 1) or
                    (src(v.right) == thr and isinstance(v.left, ast.Constant) and isinstance(v.left.value, int) and v.left.value >= 1))
                if not good:
                    oku = False
                    det = (f'for an unknown length only `{short(v)}` bytes are read, so the following `len(data) > {thr}` test can never '
                           f'fire: an oversized chunked form is silently truncated and accepted')
            R.ob(rid, fs, c, oku, text=f'unknown length -> read {thr} + 1', detail='' if oku else det,
                 why='form text larger than the threshold is refused rather than loaded', key_extra='unknown')
        # post test
        res = T.assigned_name_of_call(c)
        post = [n for n in gs.nodes if n.kind == 'test' and compare_parts(n.ast) and compare_parts(n.ast)[1] is ast.Gt
                and src(compare_parts(n.ast)[2]) == thr and res and src(compare_parts(n.ast)[0]) == f'len({res})']
        okq = False
        for n in post:
            reach = gs.reachable_from(T.succ_by_label(n, 'true'))
            okq = okq or gs.exit not in reach
        if not okq and res:
            for n in gs.nodes:
                if n.kind == 'test' and isinstance(n.ast, ast.Name) and gs.can_reach(cn, n):
                    defs_ = [d for d in rs.at(n, n.ast.id) if d.value is not None and gs.can_reach(cn, d.node)]
                    if defs_ and all(compare_parts(d.value) and compare_parts(d.value)[1] is ast.Gt and src(compare_parts(d.value)[2]) == thr
                                     and src(compare_parts(d.value)[0]) == f'len({res})' for d in defs_):
                        reach = gs.reachable_from(T.succ_by_label(n, 'true'))
                        okq = okq or gs.exit not in reach
        R.ob(rid, fs, c, okq, text=f'len(data) > {thr} refused after reading', detail='' if okq else
             'data longer than the threshold is not refused after the read')
    # the refusals go through _raise(BodySizeError(), RequestError)
    for r in [n for n in walk_shallow(fs.node) if isinstance(n, ast.Raise)]:
        ok = isinstance(r.exc, ast.Call) and dotted(r.exc.func) == 'self._raise' and r.exc.args and 'BodySizeError' in src(r.exc.args[0])
        R.ob(rid, fs, r, ok, detail='' if ok else 'the refusal is not raised through self._raise(BodySizeError(), ...) -> not a 413')


def check_config_by_presence(P, R, rid, why):
    """the configuration objects (DefaultConfig, RequestConfig) take every value the caller supplied - by presence of the key, not by its truth value:
    max_body_size=0, max_memfile_size=0, catchall=False, debug=False are settings"""
    gf = P.func('ombott.common_helpers:SimpleConfig.get_from')
    srcp = gf.params[1] if len(gf.params) > 1 else 'src_config'
    sites = [c for c in ast.walk(gf.node) if isinstance(c, ast.Call) and call_attr(c) == 'get' and isinstance(c.func.value, ast.Name) and c.func.value.id == srcp]
    if not sites:
        R.undecided(rid, gf, gf.node, 'SimpleConfig.get_from', 'no lookup of the supplied configuration by key')
        return
    for c in sites:
        par = getattr(c, '_p', None)
        by_truth = isinstance(par, ast.BoolOp) and isinstance(par.op, ast.Or) and par.values[0] is c
        by_truth = by_truth or (isinstance(par, ast.IfExp) and any(x is c for x in ast.walk(par.test)))
        has_default = len(c.args) >= 2
        ok = has_default and not by_truth
        R.ob(rid, gf, c, ok, text=f'`{short(c, 60)}`: a supplied value is used whenever the key is present', detail='' if ok else
             f'the supplied value is taken by its truth value (`{short(par, 70) if by_truth else short(c, 60)}`): a setting that is falsy on purpose - max_body_size=0, '
             f'max_memfile_size=0, debug=False - is replaced by the default (no limit at all for max_body_size)', why=why, key_extra='config-presence')
