"""C14 - Response header values cannot split the response and are wire-safe."""
import ast

from ..astutil import (walk_shallow, dotted, call_attr, short, src, stmt_of, names_loaded, is_const, enclosing,
                       compare_parts, strip_not, const, bool_operands, is_none)
from ..loader import AnalysisError
from .. import rules as T
from .. import regexast as RX

ID = 'C14'
DECIDED = ('(a) the dictionaries behind response headers are written only inside HeaderDict, BaseResponse.__init__ (fresh '
           'dict) and HTTPResponse.apply (copy from another guarded store) - any other writer is a violation; (b) every '
           'single-value setter (item assignment, append, scalar setdefault, HeaderProperty.__set__, constructor headers '
           'and keyword headers) stores only the return value of the guard _hval; (c) the guard raises for non-scalar '
           'types, converts to str and raises when CR, LF or NUL occurs anywhere in the text, returning the converted '
           'text; (d) headerlist emits list-valued entries once per element in order, passes every value and every cookie '
           'through encode(utf8).decode(latin1), withholds the per-status blacklist (204: Content-Type; 304: the RFC 7232 '
           'entity headers) including the default Content-Type, and wsgi hands response.headerlist itself to '
           'start_response.')
DECIDED_MORE = ('Also: the stored status code is an int on every path; no equality-keyed memo on the guard; constructor values reach the store through append only.')
DECIDED = DECIDED + ' ' + DECIDED_MORE
DECIDED_R6 = ('Round 6: blacklist applied to the name of the stored pair; the two halves of the status written together; every pair entering the header list is transcoded; setters store on every returning path; an unscanned short cut only for None and the exact builtin numbers.')
DECIDED = DECIDED + ' ' + DECIDED_R6
DECIDED_R7 = ('Round 7: nothing can raise between the two stores of the status pair; no stored header value is already in wire form.')
DECIDED = DECIDED + ' ' + DECIDED_R7
DECIDED_R9 = ('Round 9: `setdefault` through a bound method picked into a local; the list branch as a statement (b).')
DECIDED = DECIDED + ' ' + DECIDED_R9
NOT_DECIDED = ('"decodes back to the original text": codec semantics of utf8/latin1 (assumed injective); header *names*; '
               'HeaderDict.update and list-valued setdefault are not single-value setters in the statement (reported as notes).')
ASSUMPTIONS = ["s.encode('utf8').decode('latin1') is total and injective", 'str(x) of int/float/bool/None contains no control characters']

CH = 'ombott.common_helpers'
RS = 'ombott.response'
CTL = {'\n', '\r', '\0'}
ENTITY_304 = {'allow', 'content-encoding', 'content-language', 'content-length', 'content-range', 'content-type',
              'content-md5', 'last-modified'}


def is_raw_store_target(t):
    """assignment target that writes into a raw header dict: X._ts.dict[k], X.dict[k], X._headers[k]"""
    if isinstance(t, ast.Subscript):
        d = dotted(t.value) or ''
        return d.endswith('._ts.dict') or d.endswith('.dict') and ('headers' in d or d.startswith('self.')) or d.endswith('._headers')
    return False


def check(P, R):
    R.rule('C14.a', 'raw header store has few writers', floor=3)
    R.rule('C14.b', 'single-value setters store only the guard\'s result', floor=6)
    R.rule('C14.c', 'guard rejects CR, LF, NUL and non-scalars', floor=5)
    R.rule('C14.d', 'emission: per value, transcoded, blacklist, same list to start_response', floor=7)

    hd = P.cls(f'{CH}:HeaderDict')
    allowed_writer_funcs = {f.fq for f in hd.methods.values()}
    allowed_writer_funcs |= {f'{RS}:BaseResponse.__init__', f'{RS}:HTTPResponse.apply', f'{CH}:<lambda4>'}
    # ---- a: writers
    nw = 0
    for f in P.all_funcs():
        if f.module.name.endswith('server_adapters'):
            continue
        for st in walk_shallow(f.node):
            targets = []
            if isinstance(st, ast.Assign):
                targets = st.targets
            elif isinstance(st, ast.AugAssign):
                targets = [st.target]
            for t in targets:
                if is_raw_store_target(t):
                    nw += 1
                    in_hd = f.owner_cls is hd or (f.parent is None and f.cls is None and f.module is hd.module and '<lambda' in f.qual)
                    ok = in_hd or f.fq in allowed_writer_funcs
                    R.ob('C14.a', f, st, ok, detail='' if ok else
                         'a raw header dictionary is written outside HeaderDict: the value bypasses the control-character guard',
                         why='a CR/LF in the value reaches the header list handed to the server')
            # .dict.update / ._headers.update / setdefault on raw dict
            if isinstance(st, ast.Call) and isinstance(st.func, ast.Attribute) and st.func.attr in ('update', 'setdefault', '__setitem__'):
                d = dotted(st.func.value) or ''
                if d.endswith('._ts.dict') or d.endswith('._headers') or d.endswith('.headers.dict'):
                    nw += 1
                    ok = f.owner_cls is hd or f.fq in allowed_writer_funcs
                    R.ob('C14.a', f, st, ok, detail='' if ok else 'a raw header dictionary is updated outside HeaderDict / apply')
    R.require(nw >= 3, f'only {nw} raw-store writers recognised (pinned tree: 4)')

    # ---- b: setters
    for name in ('__setitem__', 'append', 'setdefault'):
        f = hd.methods.get(name)
        R.require(f is not None, f'HeaderDict.{name} missing')
        g, rd = f.cfg, f.rd
        vparam = f.params[2]
        stored = []   # (node, value expr)
        for st in walk_shallow(f.node):
            if isinstance(st, ast.Assign):
                for t in st.targets:
                    if isinstance(t, ast.Subscript):
                        stored.append((st, st.value))
            if isinstance(st, ast.Call) and isinstance(st.func, ast.Name) and (T.resolved_callee(f, st) or '').split('.')[-1] in ('append', 'setdefault') \
                    and '.' in (T.resolved_callee(f, st) or ''):
                # the bound method picked into a local first: `store = self._ts.dict.setdefault; store(key, v)`
                rc_ = T.resolved_callee(f, st).split('.')[-1]
                if rc_ == 'append' and len(st.args) == 1:
                    stored.append((st, st.args[0]))
                elif rc_ == 'setdefault' and len(st.args) == 2:
                    stored.append((st, st.args[1]))
            if isinstance(st, ast.Call) and call_attr(st) in ('append', 'setdefault') and isinstance(st.func.value, (ast.Name, ast.Attribute)) \
                    and st is not f.node:
                if call_attr(st) == 'append' and len(st.args) == 1:
                    stored.append((st, st.args[0]))
                elif call_attr(st) == 'setdefault' and len(st.args) == 2:
                    stored.append((st, st.args[1]))
        R.require(stored, f'HeaderDict.{name}: no store found')
        for (st, v) in stored:
            sn = g.node_of_stmt(st)[0]
            ok = value_is_guarded(f, v, sn, vparam, allow_list_branch=(name == 'setdefault'))
            R.ob('C14.b', f, st, ok, text=f'{short(st)}', detail='' if ok else
                 f'the value stored does not come from _hval({vparam}) on every path',
                 why='an unguarded setter lets CR/LF/NUL into the header list')
    # HeaderProperty.__set__ stores through obj.headers[...]
    hp = P.func(f'{CH}:HeaderProperty.__set__')
    stores = [st for st in walk_shallow(hp.node) if isinstance(st, ast.Assign) and not all(isinstance(t, ast.Name) for t in st.targets)]
    R.require(stores, 'HeaderProperty.__set__: no store')
    for st in stores:
        ok = all(isinstance(t, ast.Subscript) and (dotted(t.value) or '').endswith('.headers') for t in st.targets)
        R.ob('C14.b', hp, st, ok, detail='' if ok else 'the header attribute does not store through headers[...] (the guarded item assignment)')
    # BaseResponse.__init__: headers via self.headers.append
    bi = P.func(f'{RS}:BaseResponse.__init__')
    fors = [n for n in walk_shallow(bi.node) if isinstance(n, ast.For)]
    for c_ in walk_shallow(bi.node):
        if isinstance(c_, ast.Call) and isinstance(c_.func, ast.Attribute) and dotted(c_.func.value) in ('self.headers', 'self._headers', 'self.headers.dict') \
                and c_.func.attr in ('update', '__ior__') and c_.args:
            from_args = any(not isinstance(d_, ast.AST) and d_.kind == 'param' and d_.name != 'self' for (d_, _) in bi.rd.closure(c_.args[0], bi.cfg.node_of_stmt(c_)[0]))
            R.ob('C14.b', bi, c_, not from_args, text=f'{short(c_)}', detail='' if not from_args else
                 'constructor header arguments are bulk-loaded with update(), which stores the values as they are: CR / LF / NUL and non-scalar types are accepted '
                 'and emitted', why='a value offered through the response constructor arguments is guarded like any other setter', key_extra='ctor-update')
    R.require(len(fors) >= 1, 'BaseResponse.__init__: header loops not found')
    # both header sources (the positional mapping / pair list and the keyword headers) are iterated
    seen_src = ' '.join(T.xsrc(bi, lp_.iter, bi.cfg.nodes_for(lp_)[0]) for lp_ in fors)
    # (the sources may reach the loop through a local that collects them: `pairs = chain(headers.items(), more_headers.items())`)
    for lp_ in fors:
        seen_src += ' ' + ' '.join(x.id for x in bi.rd.closure_nodes(lp_.iter, bi.cfg.nodes_for(lp_)[0]) if isinstance(x, ast.Name) and x.id in bi.params)
    R.ob('C14.b', bi, fors[0], bi.params[3] in seen_src and (bi.params[4] if len(bi.params) > 4 else 'more_headers') in seen_src,
         text='constructor iterates the positional and the keyword headers', detail='' if (bi.params[3] in seen_src) else 'a header source of the constructor is not stored',
         nontrivial=False)
    for lp in fors:
        calls = [c for st in lp.body for c in walk_shallow(st) if isinstance(c, ast.Call)]
        appends_ = [c for c in T.calls_to(bi, 'self.headers.append') if T._inside(c, lp.body)]
        ok = bool(appends_) and not any(
            isinstance(st, ast.Assign) for b in lp.body for st in walk_shallow(b))
        R.ob('C14.b', bi, lp, ok, text=f'for {short(lp.target)} in {short(lp.iter)}: self.headers.append', detail='' if ok else
             'constructor headers are not stored through self.headers.append (guarded)')
        # ... and through nothing else: setdefault hands a list on as it is (its items are neither type-checked nor scanned)
        tnames = {x.id for x in ast.walk(lp.target) if isinstance(x, ast.Name)}
        for c in calls:
            if isinstance(c.func, ast.Attribute) and dotted(c.func.value) in ('self.headers', 'self._headers', 'self.headers.dict') and c.func.attr not in ('append',) \
                    and any(isinstance(x, ast.Name) and x.id in tnames for a_ in c.args for x in ast.walk(a_)):
                R.ob('C14.b', bi, c, False, text=f'{short(c)}', detail=
                     f'a constructor header value is stored with `{c.func.attr}`, which does not guard every value it is given (a list is handed on item by item unchecked): '
                     f"headers={{'Set-Cookie': ['a=1', 'b=2\\r\\nX-Injected: 1']}} reaches the header list verbatim",
                     why='a value offered through the response constructor arguments is guarded like any other setter', key_extra='ctor-other-setter')

    check_guard(P, R)
    check_emission(P, R)


def value_is_guarded(f, v, sn, vparam, allow_list_branch=False):
    """v evaluated at sn is _hval(<param>) or a name all of whose reaching defs are"""
    rd = f.rd
    if isinstance(v, ast.Call) and dotted(v.func) == '_hval' and v.args and isinstance(v.args[0], ast.Name):
        return True
    if isinstance(v, ast.IfExp):
        t, neg = strip_not(v.test)
        islist = isinstance(t, ast.Call) and dotted(t.func) == 'isinstance' and len(t.args) == 2 and src(t.args[1]) == 'list'
        if allow_list_branch and islist:
            # _hval(value) if not isinstance(value, list) else value
            scalar = v.body if neg else v.orelse
            return value_is_guarded(f, scalar, sn, vparam)
        # `value if v is None else [v, value]`: whichever arm is taken
        return value_is_guarded(f, v.body, sn, vparam) and value_is_guarded(f, v.orelse, sn, vparam)
    if isinstance(v, ast.Name) and v.id == vparam and allow_list_branch and all(d.kind == 'param' for d in rd.at(sn, v.id)):
        # the list branch written as a statement: `if isinstance(value, list): return store(key, value)`
        for (e_, holds_, _t) in T.guard_atoms(f, sn):
            if holds_ and isinstance(e_, ast.Call) and dotted(e_.func) == 'isinstance' and len(e_.args) == 2 and src(e_.args[0]) == vparam and src(e_.args[1]) == 'list':
                return True
    if isinstance(v, ast.Name):
        defs = rd.at(sn, v.id)
        return bool(defs) and all(d.kind == 'assign' and d.value is not None and value_is_guarded(f, d.value, d.node, vparam, allow_list_branch) for d in defs)
    if isinstance(v, (ast.List, ast.Tuple)):
        # [old, value]: every element that derives from the parameter must be guarded; elements read back from the store are already guarded
        oks = []
        for e in v.elts:
            if isinstance(e, ast.Name):
                defs = rd.at(sn, e.id)
                from_store = bool(defs) and all(d.value is not None and isinstance(d.value, ast.Call) and call_attr(d.value) == 'get' for d in defs)
                oks.append(from_store or value_is_guarded(f, e, sn, vparam))
            else:
                oks.append(value_is_guarded(f, e, sn, vparam))
        return all(oks)
    return False


def check_guard(P, R):
    f = P.func(f'{CH}:_hval')
    g, rd = f.cfg, f.rd
    p = f.params[0]
    # the text emitted for a value is computed from that very value: a memo keyed by equality hands 1.0 the text of True ('True' == 1 == 1.0 as keys)
    memo = [src(d) for d in f.node.decorator_list if (dotted(d.func) if isinstance(d, ast.Call) else dotted(d) or '').split('.')[-1] in ('lru_cache', 'cache', 'memoize', 'cached')
            and not (isinstance(d, ast.Call) and any(k.arg == 'typed' and is_const(k.value, True) for k in d.keywords))]
    R.ob('C14.c', f, f.node, not memo, text='the guard converts the value it is given (no equality-keyed memo)', detail='' if not memo else
         f'_hval is memoised by `{memo[0]}`: the memo is keyed by equality and hash, and False == 0 == 0.0, True == 1 == 1.0, so after a float 1.0 was set '
         f'anywhere in the process a later bool True is emitted as "1.0" (and the reverse): the emitted value no longer decodes back to the text of the value offered',
         why='every emitted header value decodes back to the original text', key_extra='no-memo')
    # type test whose failing edge raises TypeError
    ok = False
    for n in g.nodes:
        if n.kind == 'test' and any(isinstance(x, ast.Call) and dotted(x.func) == 'isinstance' for x in ast.walk(n.ast)):
            # which way does the test go for a value that is not None and not of an admitted type?
            def atom(e):
                if isinstance(e, ast.Call) and dotted(e.func) == 'isinstance' and e.args and src(e.args[0]) == p:
                    return False
                cp_ = compare_parts(e)
                if cp_ and src(cp_[0]) == p and is_none(cp_[2]) and cp_[1] in (ast.Is, ast.IsNot):
                    return cp_[1] is ast.IsNot
                return None
            tv = T.truth(n.ast, atom)
            if tv is None:
                continue
            reach = g.reachable_from(T.succ_by_label(n, 'true' if tv else 'false'))
            if g.exit not in reach and any(m.kind == 'stmt' and isinstance(m.ast, ast.Raise) for m in reach):
                types = set()
                for x in ast.walk(n.ast):
                    if isinstance(x, ast.Call) and dotted(x.func) == 'isinstance' and len(x.args) == 2:
                        tv_ = T.module_value(f, x.args[1])
                        types |= {src(e) for e in (tv_.elts if isinstance(tv_, ast.Tuple) else [tv_])}
                ok = types <= {'str', 'int', 'float', 'bool'} and 'str' in types
                R.ob('C14.c', f, n.ast, ok, text=f'type guard {sorted(types)}', detail='' if ok else 'the type guard admits non-scalar types')
    if not ok:
        R.ob('C14.c', f, f.node, False, text='type guard', detail='no isinstance test that raises for other types')
    # conversion
    convs = [d for n in g.nodes for d in rd.gen.get(n, []) if d.value is not None and isinstance(d.value, ast.Call)
             and dotted(d.value.func) == 'str']
    R.ob('C14.c', f, convs[0].stmt if convs else f.node, bool(convs), text='value = str(value)', detail='' if convs else 'no conversion to str')
    # control characters: each of CR LF NUL must be rejected wherever it occurs
    rejected = set()
    how = {}
    env = {k: v[0] for k, v in f.module.assigns.items() if len(v) == 1}
    for n in g.nodes:
        if n.kind != 'test':
            continue
        reach_t = g.reachable_from(T.succ_by_label(n, 'true'))
        raises_t = g.exit not in reach_t and any(m.kind == 'stmt' and isinstance(m.ast, ast.Raise) for m in reach_t)
        if not raises_t:
            continue
        for x in bool_operands(n.ast, ast.Or):
            cp = compare_parts(x)
            if cp and cp[1] is ast.In and isinstance(cp[0], ast.Constant) and isinstance(cp[0].value, str) and isinstance(cp[2], ast.Name):
                rejected.add(cp[0].value)
            if cp and cp[1] is ast.IsNot and is_none(cp[2]) and isinstance(cp[0], ast.Call):
                x = cp[0]                  # `pattern.search(v) is not None`
            if isinstance(x, ast.Call) and isinstance(x.func, ast.Name) and x.func.id in env and isinstance(env[x.func.id], ast.Attribute) \
                    and env[x.func.id].attr in ('search', 'match', 'fullmatch', 'findall') and isinstance(env[x.func.id].value, ast.Call):
                # a module-level bound method: `_search = re.compile(..).search`
                x = ast.Call(func=ast.Attribute(value=env[x.func.id].value, attr=env[x.func.id].attr, ctx=ast.Load()), args=x.args, keywords=[])
            if isinstance(x, ast.Call) and call_attr(x) in ('search', 'match', 'fullmatch', 'findall'):
                recv = x.func.value
                pat = None
                if isinstance(recv, ast.Call) and dotted(recv.func) == 're.compile' and recv.args:
                    pat = recv.args[0]
                if pat is not None:
                    pass
                elif isinstance(recv, ast.Name) and recv.id in env:
                    pat = RX.compiled_pattern_arg(env[recv.id])
                elif dotted(recv) == 're' and x.args:
                    pat = x.args[0]
                lits = RX.pattern_literal(pat, env) if pat is not None else None
                if lits:
                    tree = RX.parse(lits[0])
                    items = RX._items(tree) if tree is not None else []
                    chars = None
                    if len(items) == 1 and str(items[0][0]) == 'IN':
                        chars = RX.class_chars(items[0][1])
                    elif len(items) == 1 and str(items[0][0]) == 'LITERAL':
                        chars = {items[0][1]}
                    if chars is not None:
                        if call_attr(x) == 'search':
                            rejected |= {chr(c) for c in chars}
                        else:
                            how['anchored'] = (f'`{short(x)}` matches only at position 0: a control character later in the value '
                                               f'passes the guard')
            if isinstance(x, ast.Call) and dotted(x.func) == 'any':
                # any(c in value for c in '\r\n\0')
                for gen in [y for y in ast.walk(x) if isinstance(y, ast.GeneratorExp)]:
                    it = gen.generators[0].iter
                    tg = gen.generators[0].target
                    cp_ = compare_parts(gen.elt)
                    if not (cp_ and cp_[1] is ast.In and isinstance(tg, ast.Name) and src(cp_[0]) == tg.id and isinstance(cp_[2], ast.Name)
                            and not gen.generators[0].ifs and len(gen.generators) == 1):
                        continue
                    try:
                        chars_ = T.ceval(f, it)
                    except T.CannotEval:
                        continue
                    if isinstance(chars_, (str, tuple, list, set, frozenset)) and all(isinstance(c_, str) for c_ in chars_):
                        rejected |= set(chars_)
    for ch in sorted(CTL):
        ok = ch in rejected
        R.ob('C14.c', f, f.node, ok, text=f'rejects {ch!r} anywhere in the value', detail='' if ok else
             how.get('anchored', f'no test rejects {ch!r}'), why='the character splits the response / truncates the header',
             key_extra=repr(ch))
    # returns the converted value
    def exact_scalar(e, at):
        # `p is None`, `type(p) is int` / `kind is float` / `kind in (int, float, bool)`: the exact builtin, whose str() is digits, signs, dots and letters
        cp_ = compare_parts(e)
        if not cp_:
            return False
        if src(cp_[0]) == p and is_none(cp_[2]) and cp_[1] is ast.Is:
            return True
        l_ = cp_[0]
        if isinstance(l_, ast.Name) and l_.id != p:
            ds = rd.at(at, l_.id)
            if len(ds) == 1 and ds[0].value is not None:
                l_ = ds[0].value
        if not (isinstance(l_, ast.Call) and dotted(l_.func) == 'type' and len(l_.args) == 1 and src(l_.args[0]) == p and all(d.kind == 'param' for d in rd.at(at, p))):
            return False
        if cp_[1] in (ast.Is, ast.Eq):
            return src(cp_[2]) in ('int', 'float', 'bool')
        if cp_[1] is ast.In and isinstance(cp_[2], (ast.Tuple, ast.List, ast.Set)):
            return all(src(x) in ('int', 'float', 'bool') for x in cp_[2].elts)
        return False
    for r in [n for n in walk_shallow(f.node) if isinstance(n, ast.Return)]:
        rn = g.node_of_stmt(r)[0]
        ok = isinstance(r.value, ast.Name) and all(d in convs for d in rd.at(rn, r.value.id)) and bool(rd.at(rn, r.value.id))
        if not ok and isinstance(r.value, ast.Call) and dotted(r.value.func) == 'str' and len(r.value.args) == 1 and src(r.value.args[0]) == p \
                and all(d.kind == 'param' for d in rd.at(rn, p)):
            # a short cut for values whose text cannot contain a control character
            exact = {(n, 'true') for n in g.nodes if n.kind == 'test' and all(exact_scalar(x, n) for x in bool_operands(n.ast, ast.Or))}
            ok = bool(exact) and not g.can_reach(g.entry, rn, avoid_edges=exact)
            R.ob('C14.c', f, r, ok, text=f'{short(r)} for None and the exact builtin numbers only', detail='' if ok else
                 'the converted text is returned without having been scanned for control characters', key_extra='shortcut')
            continue
        R.ob('C14.c', f, r, ok, detail='' if ok else 'the guard does not return the converted text')


def check_emission(P, R):
    f = P.func(f'{RS}:BaseResponse.headerlist')
    g, rd = f.cfg, f.rd
    # every (name, value) pair put into the returned list: value transcoded utf8 -> latin1; list-valued headers once per element
    def codec(e):
        v = const(e)
        return str(v).lower().replace('-', '').replace('_', '').replace('iso88591', 'latin1') if isinstance(v, str) else None

    def transcode_of(e):
        """e == <x>.encode('utf8').decode('latin1')  ->  x"""
        if isinstance(e, ast.Call) and call_attr(e) == 'decode' and len(e.args) == 1 and codec(e.args[0]) == 'latin1':
            inner_ = e.func.value
            if isinstance(inner_, ast.Call) and call_attr(inner_) == 'encode' and len(inner_.args) == 1 and codec(inner_.args[0]) == 'utf8':
                return inner_.func.value
        return None

    def is_list_test(t, name):
        t_, neg_ = strip_not(t)
        if isinstance(t_, ast.Call) and dotted(t_.func) == 'isinstance' and len(t_.args) == 2 and src(t_.args[0]) == name and src(t_.args[1]) == 'list':
            return (True, neg_)
        return (False, False)

    # shape-independent first: whatever (name, value) pair is put into the list, its value is text transcoded utf8 -> latin1 (or a constant of the package)
    pair_sites = []
    for c in walk_shallow(f.node):
        if isinstance(c, ast.Call) and call_attr(c) in ('append', 'extend', 'insert') and c.args:
            a = c.args[-1]
            if isinstance(a, ast.Tuple) and len(a.elts) == 2:
                pair_sites.append((c, a, None))
            elif isinstance(a, (ast.GeneratorExp, ast.ListComp)) and isinstance(a.elt, ast.Tuple) and len(a.elt.elts) == 2:
                pair_sites.append((c, a.elt, a))
        elif isinstance(c, ast.ListComp) and isinstance(c.elt, ast.Tuple) and len(c.elt.elts) == 2 and not isinstance(getattr(c, '_p', None), ast.Call):
            pair_sites.append((c, c.elt, c))
    for (site, pair, comp) in pair_sites:
        at_ = g.node_of_stmt(site)[0]
        v = pair.elts[1]
        vx = T.expand(f, v, at_) if comp is None else v
        if comp is not None and isinstance(vx, ast.Name):
            # a comprehension variable that iterates over values prepared (transcoded) before
            for gen_ in comp.generators:
                if isinstance(gen_.target, ast.Name) and gen_.target.id == vx.id:
                    it_ = T.expand(f, gen_.iter, at_)
                    if isinstance(it_, (ast.ListComp, ast.GeneratorExp)) and transcode_of(it_.elt) is not None:
                        vx = it_.elt
        okv = transcode_of(vx) is not None or (isinstance(vx, ast.Constant) and isinstance(vx.value, str)) or \
            (isinstance(vx, ast.Attribute) and vx.attr == 'default_content_type')
        R.ob('C14.d', f, site, okv, text=f'pair `({short(pair.elts[0], 20)}, {short(v, 40)})`: value transcoded utf8 -> latin1', detail='' if okv else
             f'the pair `({short(pair.elts[0], 20)}, {short(v, 40)})` enters the header list with the stored text as it is: a value with a character above U+00FF (and any '
             f'non-ASCII text meant to be read back as UTF-8) is not a Latin-1 native string - start_response gets an ill-formed header list',
             why='every emitted header value is a native string encodable as Latin-1 that decodes back to the original text as UTF-8', key_extra='pair-transcoded')
    emitted = []      # (node for the report, value expr, at cfg node, ok_multi, where)
    comps = [n for n in walk_shallow(f.node) if isinstance(n, ast.ListComp) and isinstance(n.elt, ast.Tuple) and len(n.elt.elts) == 2]
    for c in comps:
        if len(c.generators) != 2:
            continue
        inner = c.generators[1]
        outer_t = c.generators[0].target
        vals_n = outer_t.elts[1].id if isinstance(outer_t, ast.Tuple) and len(outer_t.elts) == 2 and isinstance(outer_t.elts[1], ast.Name) else None
        it = inner.iter
        okl = False
        if isinstance(it, ast.IfExp) and vals_n:
            is_l, neg_ = is_list_test(it.test, vals_n)
            scalar = it.body if neg_ else it.orelse
            listy = it.orelse if neg_ else it.body
            okl = is_l and isinstance(scalar, ast.List) and len(scalar.elts) == 1 and src(scalar.elts[0]) == vals_n and src(listy) == vals_n
        x = transcode_of(c.elt.elts[1])
        okt = x is not None and isinstance(inner.target, ast.Name) and src(x) == inner.target.id
        emitted.append((c, okt, okl))
    for ap in [c for c in walk_shallow(f.node) if isinstance(c, ast.Call) and call_attr(c) == 'append' and len(c.args) == 1
               and isinstance(c.args[0], ast.Tuple) and len(c.args[0].elts) == 2 and len(T.loops_of(c)) == 2]:
        inner_l, outer_l = T.loops_of(ap)[0], T.loops_of(ap)[1]
        if not (isinstance(inner_l, ast.For) and isinstance(outer_l, ast.For)):
            continue
        an = g.node_of_stmt(ap)[0]
        x = transcode_of(T.expand(f, ap.args[0].elts[1], an))
        okt = x is not None and isinstance(inner_l.target, ast.Name) and src(x) == inner_l.target.id
        # the inner loop runs over the stored value, wrapped into a one-item list when it is not a list
        okl = False
        if isinstance(inner_l.iter, ast.Name):
            hn_ = g.nodes_for(inner_l)[0]
            ds = rd.at(hn_, inner_l.iter.id)
            wraps = [d for d in ds if d.kind == 'assign' and isinstance(d.value, ast.List) and len(d.value.elts) == 1 and src(d.value.elts[0]) == inner_l.iter.id]
            raw = [d for d in ds if d not in wraps]
            guarded = False
            for d in wraps:
                for tn in g.nodes:
                    if tn.kind == 'test':
                        is_l, neg_ = is_list_test(tn.ast, inner_l.iter.id)
                        if is_l and g.edge_dominates(tn, 'true' if neg_ else 'false', d.node):
                            guarded = True
            okl = bool(wraps) and bool(raw) and guarded
        elif isinstance(inner_l.iter, ast.IfExp):
            # for v in (vals if isinstance(vals, list) else [vals])
            it_ = inner_l.iter
            okl = False
            for listy, scalar, want_neg in ((it_.body, it_.orelse, False), (it_.orelse, it_.body, True)):
                is_l, neg_ = is_list_test(it_.test, src(listy))
                if is_l and neg_ == want_neg and isinstance(scalar, ast.List) and len(scalar.elts) == 1 and src(scalar.elts[0]) == src(listy):
                    okl = True
        emitted.append((ap, okt, okl))
    if not emitted:
        R.undecided('C14.d', f, f.node, 'header list construction', 'neither a two-level list comprehension nor nested loops appending (name, value) pairs')
    for (node_, okt, okl) in emitted:
        ok = okt and okl
        det = '' if ok else ('values are not transcoded utf8->latin1' if not okt else 'list-valued headers are not emitted once per element')
        R.ob('C14.d', f, node_, ok, text='(name, v.encode(utf8).decode(latin1)) per value', detail=det,
             why='every emitted value must be a latin-1 native string, multi-valued headers once per value in order')
    # cookies transcoded
    cookie_appends = [c for c in walk_shallow(f.node) if isinstance(c, ast.Call) and call_attr(c) in ('append', 'extend') and 'Set-Cookie' in src(c)]
    R.ob('C14.d', f, f.node, bool(cookie_appends), text='cookies emitted', detail='' if cookie_appends else 'no Set-Cookie emission', nontrivial=False)
    for c in cookie_appends:
        ok = False
        pair = None
        if c.args and isinstance(c.args[0], ast.Tuple):
            pair = c.args[0]
        elif c.args and isinstance(c.args[0], (ast.GeneratorExp, ast.ListComp)) and isinstance(c.args[0].elt, ast.Tuple):
            pair = c.args[0].elt            # out.extend(('Set-Cookie', ...) for morsel in ...)
        if pair is not None and len(pair.elts) == 2:
            x = transcode_of(T.expand(f, pair.elts[1], g.node_of_stmt(c)[0]))
            if isinstance(x, ast.Name) and c.args and isinstance(c.args[0], (ast.GeneratorExp, ast.ListComp)):
                # the text comes from a list prepared just before: `lines = [m.OutputString() for m in ..]; out.extend((.., l.encode..) for l in lines)`
                for gen_ in c.args[0].generators:
                    if isinstance(gen_.target, ast.Name) and gen_.target.id == x.id and not gen_.ifs:
                        it_ = T.expand(f, gen_.iter, g.node_of_stmt(c)[0])
                        if isinstance(it_, (ast.ListComp, ast.GeneratorExp)) and len(it_.generators) == 1 and not it_.generators[0].ifs:
                            x = it_.elt
            ok = x is not None and isinstance(x, ast.Call) and call_attr(x) == 'OutputString'
        R.ob('C14.d', f, c, ok, text="out.append(('Set-Cookie', <morsel>.OutputString().encode('utf8').decode('latin1')))",
             detail='' if ok else 'cookie text is not transcoded utf8->latin1')
    # blacklist: the names withheld for this status come from bad_headers.get(status); stored headers with such a name are skipped and
    # the default Content-Type is not added when something is withheld
    bdefs = [d for n in g.nodes for d in rd.gen.get(n, []) if d.kind == 'assign' and d.value is not None and any(
        isinstance(x, ast.Call) and call_attr(x) == 'get' and (dotted(x.func.value) or '').endswith('.bad_headers') and x.args and '_status_code' in src(x.args[0])
        for x in ast.walk(d.value))]
    R.ob('C14.d', f, bdefs[0].stmt if bdefs else f.node, bool(bdefs), text='per-status blacklist looked up by status code', detail='' if bdefs else
         'no `bad_headers.get(status)` lookup')
    if bdefs:
        bname = bdefs[0].name
        bnode = bdefs[0].node
        filt = []
        # (a) a filtering generator / comprehension: `... if <name> not in <blacklist>`
        for x in ast.walk(f.node):
            if isinstance(x, ast.comprehension):
                for cond in x.ifs:
                    for y in bool_operands(cond, ast.And):
                        cp_ = compare_parts(y)
                        if cp_ and cp_[1] is ast.NotIn and src(cp_[2]) == bname:
                            filt.append(y)
                            # what is looked up in the blacklist of *names* is the name of the stored pair (element 0)
                            tg_ = x.target
                            lhs_ = cp_[0]
                            is_name = (isinstance(tg_, ast.Tuple) and tg_.elts and isinstance(tg_.elts[0], ast.Name) and isinstance(lhs_, ast.Name) and lhs_.id == tg_.elts[0].id) or \
                                (isinstance(tg_, ast.Name) and isinstance(lhs_, ast.Subscript) and isinstance(lhs_.value, ast.Name) and lhs_.value.id == tg_.id and is_const(lhs_.slice, 0))
                            R.ob('C14.d', f, y, is_name, text=f'`{short(y)}` tests the header name', detail='' if is_name else
                                 f'`{short(lhs_)}` is not the name of the stored (name, values) pair: the forbidden entity headers are no longer recognised by name and are '
                                 f'emitted for 204 / 304 (a header whose value happens to equal a forbidden name is dropped instead)',
                                 why='entity headers forbidden for 204 and 304 responses are withheld', key_extra='blacklist-by-name')
        # (b) loop form: inside the emitting loop `if <name> in <blacklist>: continue` before the pair is appended
        for (node_, _, _) in emitted:
            if not isinstance(node_, ast.Call):
                continue
            an = g.node_of_stmt(node_)[0]
            outer_l = T.loops_of(node_)[1]
            nm = outer_l.target.elts[0].id if isinstance(outer_l.target, ast.Tuple) and isinstance(outer_l.target.elts[0], ast.Name) else None
            head_ = g.nodes_for(outer_l)[0]
            for tn in g.nodes:
                if tn.kind != 'test' or not T._inside(tn.ast, outer_l.body):
                    continue
                cps_ = [compare_parts(x_) for x_ in bool_operands(tn.ast, ast.And)]
                if any(cp_ and cp_[1] is ast.In and src(cp_[0]) == nm and src(cp_[2]) == bname for cp_ in cps_):
                    if not g.can_reach(T.succ_by_label(tn, 'true')[0], an, avoid_nodes=[head_]):
                        filt.append(tn.ast)
        R.ob('C14.d', f, filt[0] if filt else bdefs[0].stmt, bool(filt), text='headers filtered by the blacklist', detail='' if filt else
             'stored headers are not filtered by the blacklist')
        # default content type: not reachable once the blacklist is non-empty (explored with the blacklist name known to be truthy)
        from ..paths import Explorer, TOBJ
        X = Explorer(f, P)
        dflt = [c for c in walk_shallow(f.node) if isinstance(c, ast.Call) and call_attr(c) == 'append' and 'default_content_type' in src(c)]
        for c in dflt:
            cn = g.node_of_stmt(c)[0]
            starts = [m for (m, lab) in bnode.succ if lab != 'exc']
            reach = X.can_reach(starts, cn, state={bname: (bnode, TOBJ)})
            plain = g.can_reach(bnode, cn)
            ok = plain and not reach
            det = '' if ok else ('for a status with a blacklist (204 / 304) the default Content-Type is still appended although '
                                 'Content-Type is a forbidden entity header there' if plain else 'the default Content-Type is never appended')
            R.ob('C14.d', f, c, ok, detail=det, why='entity headers forbidden for 204 and 304 responses are withheld')
    # table content
    br = P.cls(f'{RS}:BaseResponse')
    tab = br.attrs.get('bad_headers')
    try:
        val = T.ceval(br, tab) if tab is not None else None
    except T.CannotEval as e:
        raise AnalysisError(f'bad_headers cannot be evaluated: {e}')
    R.require(isinstance(val, dict), 'BaseResponse.bad_headers is not a dict literal')
    ok204 = {'content-type'} <= {x.lower() for x in val.get(204, ())}
    ok304 = ENTITY_304 <= {x.lower() for x in val.get(304, ())}
    R.ob('C14.d', br.module.name + ':BaseResponse', None, ok204, text=f'bad_headers[204] = {sorted(val.get(204, ()))}', detail='' if ok204 else '204 does not withhold Content-Type')
    R.ob('C14.d', br.module.name + ':BaseResponse', None, ok304, text=f'bad_headers[304] = {sorted(val.get(304, ()))}', detail='' if ok304 else
         f'304 does not withhold {sorted(ENTITY_304 - {x.lower() for x in val.get(304, ())})}')
    # the table is keyed by int codes: the code kept by the status setter is an int on every path (a status line's code goes through int())
    if isinstance(val, dict) and all(isinstance(k_, int) for k_ in val):
        st_f = P.func(f'{RS}:BaseResponse.status#2')
        sg, srd = st_f.cfg, st_f.rd
        spar = st_f.params[1]
        int_tests = [n for n in sg.nodes if n.kind == 'test' and n.ast is not None and any(
            isinstance(c, ast.Call) and dotted(c.func) == 'isinstance' and len(c.args) == 2 and src(c.args[0]) == spar and 'int' in src(c.args[1]) for c in ast.walk(n.ast))]

        def elem_values(node, name, seen=None):
            seen = seen if seen is not None else set()
            out = []
            for d in srd.at(node, name):
                if id(d) in seen:
                    continue
                seen.add(id(d))
                stx = getattr(d, 'stmt', None)
                v = d.value
                if isinstance(stx, ast.Assign) and isinstance(stx.targets[0], ast.Tuple) and isinstance(stx.value, ast.Tuple) and len(stx.targets[0].elts) == len(stx.value.elts):
                    for t_, v_ in zip(stx.targets[0].elts, stx.value.elts):
                        if isinstance(t_, ast.Name) and t_.id == name:
                            v = v_
                if isinstance(v, ast.Name) and v.id != name and srd.is_local(v.id) and v.id != spar:
                    out += elem_values(d.node, v.id, seen)
                else:
                    out.append((v, d))
            return out

        def is_int_value(v, d):
            if v is None:
                return d.kind == 'param' and False
            if isinstance(v, ast.Call) and dotted(v.func) == 'int':
                return True
            if isinstance(v, ast.Constant) and isinstance(v.value, int):
                return True
            if isinstance(v, ast.Name) and v.id == spar:
                return any(sg.edge_dominates(t_, 'true', d.node) for t_ in int_tests)
            return False
        for st_ in [x for x in walk_shallow(st_f.node) if isinstance(x, ast.Assign) and any(dotted(t_) == f'{st_f.params[0]}._status_code' for t_ in x.targets)]:
            sn = sg.node_of_stmt(st_)[0]
            vals_ = elem_values(sn, st_.value.id) if isinstance(st_.value, ast.Name) else [(st_.value, None)]
            bad_ = [v for (v, d) in vals_ if not (is_int_value(v, d) if d is not None else (isinstance(v, ast.Call) and dotted(v.func) == 'int'))]
            R.ob('C14.d', st_f, st_, bool(vals_) and not bad_, text=f'{short(st_)}: an int on every path', detail='' if vals_ and not bad_ else
                 f'the status code kept for a status given as text is `{short(bad_[0]) if bad_ and bad_[0] is not None else "?"}`, not an int: headerlist looks the code up in the '
                 f'int-keyed bad_headers table, finds nothing for "304" / "204" and emits the forbidden entity headers (and the default Content-Type)',
                 why='entity headers forbidden for 204 and 304 responses are withheld, however the status was given', key_extra='status-code-int')
    # the code that selects the blacklist and the status line that is sent are written together, wherever either is written
    n_pairs = 0
    for fx in P.all_funcs():
        if not fx.fq.startswith('ombott.') or isinstance(fx.node, ast.Lambda):
            continue
        writes = {}
        for st_ in walk_shallow(fx.node):
            if isinstance(st_, ast.Assign):
                for t_ in st_.targets:
                    for t2 in (t_.elts if isinstance(t_, ast.Tuple) else [t_]):
                        if isinstance(t2, ast.Attribute) and t2.attr in ('_status_line', '_status_code'):
                            writes.setdefault(src(t2.value), {}).setdefault(t2.attr, st_)
        for recv, w in writes.items():
            n_pairs += 1
            ok = set(w) == {'_status_line', '_status_code'}
            st_ = list(w.values())[0]
            R.ob('C14.d', fx, st_, ok, text=f'{recv}._status_line and {recv}._status_code are written together', detail='' if ok else
                 f'`{short(st_)}` sets {sorted(w)[0]} of `{recv}` without the other half: the status line that is sent and the code that selects the per-status blacklist '
                 f'disagree - a copy of a 304 announces 304 and still emits Content-Length, Last-Modified and the default Content-Type',
                 why='entity headers forbidden for 204 and 304 responses are withheld', key_extra='status-pair')
            # ... and nothing can fail between the two stores: a failed assignment must leave the old pair, not half of the new one
            if ok:
                g_ = fx.cfg
                na = [g_.node_of_stmt(x_)[0] for x_ in w.values()]
                first_, second_ = (na[0], na[1]) if g_.can_reach(na[0], na[1]) else (na[1], na[0])
                if first_ is not second_:
                    leaves = [m_ for m_ in g_.reachable_from(first_, avoid_nodes=[second_]) if m_.kind == 'stmt' and isinstance(m_.ast, ast.Raise)]
                    R.ob('C14.d', fx, leaves[0].ast if leaves else st_, not leaves, text=f'no exit between the two stores of the status pair of {recv}', detail='' if not leaves else
                         f'`{short(leaves[0].ast)}` can leave {fx.qual} after `{short(first_.ast)}` and before `{short(second_.ast)}`: a refused assignment leaves the new code with '
                         f'the old status line - a 304 response whose status was (unsuccessfully) set to "200 ..." is still sent as 304 but with the blacklist of 200: '
                         f'Content-Length, Content-Type and Last-Modified go out with it',
                         why='entity headers forbidden for 204 and 304 responses are withheld', key_extra='status-pair-atomic')
    R.require(n_pairs >= 2, f'{n_pairs} writers of the status pair found (3 on the pinned tree)')
    nst_ = check_no_stored_wire_form(P, R, 'C14.d')
    R.ob('C14.d', f, None, nst_ >= 1, text=f'{nst_} header store(s) outside headerlist examined for values already in wire form', nontrivial=False)
    # names in the table are spelled the way they are stored? (comparison is exact: report as note)
    # wsgi passes response.headerlist to start_response
    w = P.func('ombott.ombott:Ombott.wsgi')
    calls = [c for c in walk_shallow(w.node) if isinstance(c, ast.Call) and isinstance(c.func, ast.Name) and c.func.id == w.params[2]]
    okw = False
    for c in calls:
        if len(c.args) >= 2 and isinstance(c.args[1], ast.Attribute) and c.args[1].attr == 'headerlist':
            cl = w.rd.closure_nodes(c.args[1].value, w.cfg.node_of_stmt(c)[0])
            okw = okw or any(isinstance(x, ast.Attribute) and dotted(x) == 'self.response' for x in cl)
    R.ob('C14.d', w, calls[0] if calls else w.node, okw, text='start_response(status, response.headerlist)', detail='' if okw else
         'the header list handed to the server is not response.headerlist')


def check_setters_always_store(P, R, rid, why):
    """a header setter stores what it is given on every path that returns normally: 0, False and '' are values (Content-Length: 0), only the guard may refuse"""
    hd = P.cls(f'{CH}:HeaderDict')
    n = 0
    for name in ('__setitem__', 'append', 'setdefault'):
        m = hd.methods.get(name)
        if m is None:
            continue
        g = m.cfg
        stores = []
        for nd in g.nodes:
            if nd.ast is None or nd.kind not in ('stmt', 'test'):
                continue
            for x in walk_shallow(nd.ast):
                if isinstance(x, ast.Assign) and any(isinstance(t, ast.Subscript) for t in x.targets):
                    stores.append(nd)
                if isinstance(x, ast.Call) and call_attr(x) in ('setdefault', 'append', '__setitem__') and x is not None and not (isinstance(x.func.value, ast.Name) and x.func.value.id == 'self'):
                    stores.append(nd)
                if isinstance(x, ast.Call) and isinstance(x.func, ast.Name) and '.' in (T.resolved_callee(m, x) or '') and \
                        T.resolved_callee(m, x).split('.')[-1] in ('setdefault', 'append', '__setitem__'):
                    stores.append(nd)
        n += 1
        ok = bool(stores) and g.must_pass(g.entry, g.exit, stores)
        R.ob(rid, m, m.node, ok, text=f'HeaderDict.{name} stores the value on every path that returns', detail='' if ok else
             f'HeaderDict.{name} can return without storing anything (a test of the value\'s truth before the store?): the integer 0 is dropped, so the '
             f'`Content-Length: 0` computed for an empty file never reaches the response', why=why, key_extra=f'always-store:{name}')
    R.require(n >= 2, f'{n} single-value setters of HeaderDict found (3 on the pinned tree)')


def _is_transcode(e):
    def codec(x):
        v = const(x)
        return str(v).lower().replace('-', '').replace('_', '').replace('iso88591', 'latin1') if isinstance(v, str) else None
    if isinstance(e, ast.Call) and call_attr(e) == 'decode' and len(e.args) == 1 and codec(e.args[0]) == 'latin1':
        inner_ = e.func.value
        return isinstance(inner_, ast.Call) and call_attr(inner_) == 'encode' and len(inner_.args) == 1 and codec(inner_.args[0]) == 'utf8'
    return False


def check_no_stored_wire_form(P, R, rid):
    """the utf8 -> latin1 transcoding belongs to the emission (headerlist) alone: a value that is *stored* in a response (handed to a constructor, a setter) in
    that form is transcoded a second time when it is emitted, and no longer decodes back to the text that was set"""
    def transcoding_funcs():
        out = {}
        for fx in P.all_funcs():
            if fx.fq.startswith('ombott.') and not isinstance(fx.node, ast.Lambda) and fx.name != 'headerlist' and \
                    any(_is_transcode(x) for x in ast.walk(fx.node)) and any(isinstance(x, (ast.Return, ast.Yield)) for x in walk_shallow(fx.node)):
                out[fx.name] = fx
        return out
    tf = transcoding_funcs()
    n = 0
    for fx in P.all_funcs():
        if not fx.fq.startswith('ombott.') or isinstance(fx.node, ast.Lambda) or fx.module.name.endswith('server_adapters'):
            continue
        for c in walk_shallow(fx.node):
            vals = []
            if isinstance(c, ast.Call):
                callee = (dotted(c.func) or '').split('.')[-1]
                if callee in ('cls', 'BaseResponse', 'HTTPResponse', 'HTTPError', '__class__'):
                    vals += [k.value for k in c.keywords if k.arg in ('headers',) or k.arg is None]
                elif call_attr(c) in ('set_header', 'add_header') and len(c.args) >= 2:
                    vals.append(c.args[1])
                elif call_attr(c) == 'append' and len(c.args) == 2 and 'header' in src(c.func.value).lower():
                    vals.append(c.args[1])
            elif isinstance(c, ast.Assign) and any(isinstance(t, ast.Subscript) and 'header' in src(t.value).lower() for t in c.targets) and fx.name != 'headerlist':
                vals.append(c.value)
            if not vals:
                continue
            ns = fx.cfg.node_of_stmt(c)
            if not ns:
                continue
            for v in vals:
                n += 1
                cl = fx.rd.closure_nodes(v, ns[0])
                direct = [x for x in cl if _is_transcode(x)]
                via = [x for x in cl if isinstance(x, ast.Call) and (dotted(x.func) or '').split('.')[-1] in tf]
                bad = direct or via
                if bad:
                    R.ob(rid, fx, c, False, text=f'`{short(c)}`: header values are stored as text, not in wire form', detail=
                         f'the value stored here comes from `{short(bad[0])}`, which has already transcoded it utf8 -> latin1 for the wire: emission transcodes every stored value '
                         f'again, so `Zoë` set on a response and carried over by this store (copy(), redirect()) goes out as bytes that decode to `ZoÃ«`',
                         why='every emitted header value decodes back to the original text', key_extra='stored-wire-form')
    return n


def check_ctor_stores_every_header(P, R, rid, why):
    """BaseResponse.__init__ hands every header it is given to the header dictionary - whatever the value (an empty Allow, Content-Length 0)"""
    bi = P.func(f'{RS}:BaseResponse.__init__')
    g = bi.cfg
    fors = [n for n in walk_shallow(bi.node) if isinstance(n, ast.For)]
    n = 0
    for lp in fors:
        apps = [g.node_of_stmt(c)[0] for c in T.calls_to(bi, 'self.headers.append') if T._inside(c, lp.body)]
        stores = apps + [nd for nd in g.nodes if nd.kind == 'stmt' and isinstance(nd.ast, ast.Assign) and T._inside(nd.ast, lp.body) and any(
            isinstance(t, ast.Subscript) and (dotted(t.value) or '').startswith('self.headers') for t in nd.ast.targets)]
        if not stores:
            continue
        n += 1
        head = T.loop_head(g, lp)
        first = T.succ_by_label(head, 'iter')
        ok = all(s_ in stores or g.must_pass(s_, head, stores) for s_ in first)
        R.ob(rid, bi, lp, ok, text=f'for {short(lp.target)} in {short(lp.iter, 40)}: every header is stored', detail='' if ok else
             'a pass of the loop can skip the store (a test of the value before it?): a header given with a falsy value - `Allow=""` of a 405 for a route whose methods were '
             'all removed, `Content_Length=0` - is dropped instead of being sent', why=why, key_extra='ctor-always-store')
    R.require(n >= 1, 'BaseResponse.__init__: header loops not found')
