"""C12 - Malformed request bodies yield client errors, never server faults."""
import ast

from ..astutil import (walk_shallow, dotted, call_attr, short, src, stmt_of, names_loaded, is_const, enclosing,
                       compare_parts, strip_not, const, bool_operands)
from ..loader import AnalysisError
from .. import rules as T
from ..escape import Escapes, CATALOGUE_DOC
from . import c05, c13, c18

ID = 'C12'
TECHNIQUE = 'exception-escape analysis over the resolved call graph with a stated may-raise catalogue; loop-progress (ranking) rules; CFG exits'
DECIDED = ('(a) exception-escape analysis from the body accessors (body, _body, POST, forms, files, json, _get_body_string, '
           'params): every exception class that can leave them - explicit raises, the stated may-raise catalogue of stdlib '
           'operations, resolved callees - is either converted by BaseRequest._raise into the configured 4xx response or is '
           'reported per (site, class); (b) the readers raise only RequestErrors, every RequestError subclass maps to 4xx and '
           '_body converts reader and boundary errors through _raise; (c) a text field is read only from a data section the '
           'scanner emitted after the next delimiter was found, and iter_items refuses a header section without a data '
           'section; (d) the hand-written scanners make progress: the urlencoded scanner advances on every path round its '
           'loop (C18.a), the chunk-size scan is capped by the buffer size, the delimiter search advances its window start '
           'on every path round its loop; (e) urlencoded / JSON bodies above the in-memory threshold are refused, also when '
           'the length is unknown (chunked).')
DECIDED_MORE = ('Also: may-raise sources for a method call on an optional regex group and dict.update of an unchecked JSON value.')
DECIDED = DECIDED + ' ' + DECIDED_MORE
DECIDED_R6 = ('Round 6: item store on an object of a package class is a call of its __setitem__; _raise looks up (class of the error, except_class); header end as a linear identity.')
DECIDED = DECIDED + ' ' + DECIDED_R6
DECIDED_R7 = ('Round 7: decode(<computed codec>) raises LookupError; generator escapes occur at the consumption site; the upload window positions the shared source before every read.')
DECIDED = DECIDED + ' ' + DECIDED_R7
DECIDED_R8 = ('Round 8: an empty CONTENT_LENGTH does not reach int(); merged-configuration clause shared with C05.e.')
DECIDED = DECIDED + ' ' + DECIDED_R8
DECIDED_R9 = ('Round 9: the size-line cap may count through the length of a list that receives every byte read (d).')
DECIDED = DECIDED + ' ' + DECIDED_R9
NOT_DECIDED = ('regex matching time; completeness of the may-raise catalogue (a stated assumption: ' +
               '; '.join(f'{a} -> {b}' for a, b in CATALOGUE_DOC) + '); a non-numeric CONTENT_LENGTH (server-validated '
               'framing metadata, not body bytes).')
ASSUMPTIONS = ['the may-raise catalogue lists every stdlib operation on request data that can raise in these functions',
               'CONTENT_LENGTH is numeric when present (validated by the server)',
               'C05.e: every RequestError subclass maps to a 4xx response']

BM = 'ombott.request_pkg.body_mixin'
MP = 'ombott.request_pkg.multipart'
ENTRIES = ['body', '_body', 'POST', 'forms', 'files', 'json', '_get_body_string']


def check(P, R):
    R.rule('C12.a', 'only client errors escape the body accessors', floor=3)
    R.rule('C12.b', 'readers raise RequestErrors; _body converts them', floor=10)
    R.rule('C12.c', 'delivered text fields are whole parts', floor=6)
    R.rule('C12.d', 'hand-written scanners make progress', floor=4)
    R.rule('C12.e', 'oversized urlencoded / JSON text refused', floor=3)

    E = Escapes(P)

    def proven_total(f, node, cname):
        # int(x, 16) behind a gate proven to admit nothing but hex digits cannot raise ValueError
        if cname == 'ValueError' and isinstance(node, ast.Call) and dotted(node.func) == 'int' and f.fq == f'{BM}:_iter_chunked':
            gates = c05.hex_gates(P, f, node)
            return bool(gates) and all(ok or 'rejects legal hex digits' in det for (_, ok, det) in gates)
        return False
    E.suppress = proven_total
    cls_ = P.cls(f'{BM}:BodyMixin')
    entries = [cls_.methods[n] for n in ENTRIES if n in cls_.methods]
    R.require(len(entries) == len(ENTRIES), 'BodyMixin accessor missing')
    entries.append(P.func('ombott.request_pkg.props_mixin:PropsMixin.params'))
    by_origin = {}
    for f in entries:
        for (cname, origin) in E.escapes(f):
            by_origin.setdefault((cname, origin), []).append(f.name)
    R.require(by_origin, 'escape analysis found nothing at all: resolution broken')
    raise_fq = 'ombott.request_pkg.request:BaseRequest._raise'
    n_conv = 0
    ordinal = {}
    def _line(o):
        try:
            return int(o[1].split(':', 2)[1].split(' ', 1)[0])
        except Exception:
            return 0
    for (cname, origin), ents in sorted(by_origin.items(), key=lambda kv: (kv[0][1].rpartition(' @')[2], _line(kv[0]), kv[0][0])):
        where, _, ofq = origin.rpartition(' @')
        fn = P.funcs.get(ofq)
        text = where.split(' ', 1)[1] if ' ' in where else where
        if ofq == raise_fq:
            n_conv += 1
            R.ob('C12.a', fn or ofq, None, True, text=f'{text} [{cname}] -> converted by errors_map (4xx)', key_extra=cname)
            continue
        if cname == 'ValueError' and ofq.endswith(':BodyMixin.content_length'):
            R.ob('C12.a', fn or ofq, None, True, text=f'{text} [{cname}] exempt: server-validated framing metadata', nontrivial=False)
            continue
        http = False
        pc = [c for c in P.classes.values() if c.name == cname]
        if pc:
            http = any(k.name == 'HTTPResponse' for k in P.mro(pc[0]))
        k = (ofq, cname, text)
        ordinal[k] = ordinal.get(k, 0) + 1
        R.ob('C12.a', fn or ofq, None, http, text=f'{cname} from `{text}`' + (f' (#{ordinal[k]})' if ordinal[k] > 1 else ''), detail='' if http else
             f'{cname} can leave {", ".join(sorted(set(ents)))} unconverted: it is not an HTTP response and does not pass through '
             f'_raise, so the catch-all answers 500 with a traceback',
             why='reading the form, the files, the JSON or the raw body either succeeds or produces a 4xx', key_extra=cname)
    R.require(n_conv >= 1, 'no escape through BaseRequest._raise found: the conversion route vanished')
    # the exemption above covers what a server validates (a digit string); an *empty* CONTENT_LENGTH is legal (PEP 3333: "may be empty or missing") and is what
    # gateways pass for chunked requests: it must not reach int()
    cl = cls_.methods.get('content_length')
    R.require(cl is not None, 'BodyMixin.content_length missing')
    n_int = 0
    for c in walk_shallow(cl.node):
        if not (isinstance(c, ast.Call) and dotted(c.func) == 'int' and c.args):
            continue
        ns_ = cl.cfg.node_of_stmt(c)
        a = T.expand(cl, c.args[0], ns_[0]) if ns_ else c.args[0]
        if 'CONTENT_LENGTH' not in src(a):
            continue
        n_int += 1
        guarded_or = isinstance(a, ast.BoolOp) and isinstance(a.op, ast.Or) and ((isinstance(a.values[-1], ast.Constant) and bool(a.values[-1].value)) or (isinstance(a.values[-1], ast.UnaryOp) and isinstance(a.values[-1].operand, ast.Constant)))
        guarded_if = isinstance(a, ast.IfExp)
        tr = enclosing(c, ast.Try)
        guarded_try = tr is not None and any(h.type is None or 'ValueError' in src(h.type) or src(h.type) == 'Exception' for h in tr.handlers)
        guarded_stmt = enclosing(c, ast.If) is not None
        if ns_ and isinstance(c.args[0], ast.Name):
            # `if not raw: return -1` in front of the conversion
            guarded_stmt = guarded_stmt or any(holds_ and src(e_) in (c.args[0].id, src(a)) for (e_, holds_, _t) in T.guard_atoms(cl, ns_[0]))
        raw = isinstance(a, (ast.Subscript,)) or (isinstance(a, ast.Call) and call_attr(a) in ('get', 'pop', '__getitem__'))
        ok = guarded_or or guarded_if or guarded_try or guarded_stmt
        if not ok and not raw:
            R.undecided('C12.a', cl, c, 'content_length', f'how `{short(a)}` treats an empty CONTENT_LENGTH has no recogniser')
            continue
        R.ob('C12.a', cl, c, ok, text=f'`{short(c)}`: an empty CONTENT_LENGTH does not reach int()', detail='' if ok else
             f'`{short(c)}` converts the raw variable: an empty CONTENT_LENGTH (legal, and what CGI-style gateways pass for a chunked body) raises ValueError outside every '
             f'RequestError handler - request.body / forms / json answer 500',
             why='reading the form, the files, the JSON or the raw body either succeeds or produces a 4xx', key_extra='empty-content-length')
    R.require(n_int >= 1, 'content_length: the int() conversion of CONTENT_LENGTH was not found')
    R.unresolved = sorted(set(E.unresolved))[:200]

    # ---- b
    for fq in (f'{BM}:_iter_body', f'{BM}:_iter_chunked', f'{BM}:_body_read'):
        f = P.func(fq)
        req = P.cls('ombott.request_pkg.errors:RequestError')
        for (cname, origin) in sorted(E.escapes(f)):
            pc = [c for c in P.classes.values() if c.name == cname]
            ok = bool(pc) and P.is_subclass(pc[0], req)
            where = origin.rpartition(' @')[0]
            R.ob('C12.b', f, None, ok, text=f'{f.name} may raise {cname} ({where.split(" ", 1)[-1]})', detail='' if ok else
                 f'{cname} escaping the reader is not a RequestError: _body does not convert it', key_extra=where.split(' ', 1)[-1])
    c05.check_raise_and_body(P, R, 'C12.b')
    c05.check_errors_mapping(P, R, 'C12.b')
    # the markup constructor is inside the converting try
    fb = cls_.methods['_body']
    for c in [x for x in walk_shallow(fb.node) if isinstance(x, ast.Call) and dotted(x.func) == 'MultipartMarkup']:
        tr = enclosing(c, ast.Try)
        ok = tr is not None and any(c is x for st in tr.body for x in ast.walk(st)) and any(
            'RequestError' in src(h.type) for h in tr.handlers if h.type is not None)
        R.ob('C12.b', fb, c, ok, detail='' if ok else 'the scanner is constructed outside the try that converts request errors: a boundary it refuses -> 500')

    # ---- c
    im = P.func(f'{MP}:BodyMarkuper.iter_markup')
    g = im.cfg
    ys = T.yield_nodes(g)
    R.require(ys, 'iter_markup: no yield')
    # every yield is reached only after a scanner method returned a position (end_section is not None)
    tests = [n for n in g.nodes if n.kind == 'test' and compare_parts(n.ast) and is_const(compare_parts(n.ast)[2], None)
             and compare_parts(n.ast)[1] in (ast.Is, ast.IsNot)]
    for y in ys:
        ok = any(g.edge_dominates(n, 'false' if compare_parts(n.ast)[1] is ast.Is else 'true', y) for n in tests)
        R.ob('C12.c', im, y.ast, ok, text=f'{short(y.ast)} only after the section end was found', detail='' if ok else
             'a section can be emitted although its terminating delimiter has not been seen (truncated part delivered)',
             why='a delivered field always holds the complete data of a part that was terminated by a delimiter')
    ii = P.func(f'{MP}:FieldStorage.iter_items')
    gi = ii.cfg
    from .c07 import section_pairing
    pr_ = section_pairing(ii)
    R.require(pr_ is not None, 'iter_items: neither next(iter, None) pairs nor a loop over zip_longest(iter, iter) found')
    hname, dname = pr_[0], pr_[1]
    nd = [n for n in gi.nodes if n.kind == 'test' and isinstance(strip_not(n.ast)[0], ast.Name) and strip_not(n.ast)[1]
          and strip_not(n.ast)[0].id == dname]
    ok = False
    for n in nd:
        reach = gi.reachable_from(T.succ_by_label(n, 'true'))
        ok = ok or (gi.exit not in reach and not any(y in reach for y in T.yield_nodes(gi)))
    R.ob('C12.c', ii, nd[0].ast if nd else ii.node, ok, text='header section without data section -> error, no field', detail='' if ok else
         'a part whose data section is missing (truncated body) is delivered as a field')
    # field.read gets the data slice of the same pair
    calls = [c for c in walk_shallow(ii.node) if isinstance(c, ast.Call) and call_attr(c) == 'read' and len(c.args) >= 3]
    def _slice_of(var):
        for st in walk_shallow(ii.node):
            if isinstance(st, ast.Assign) and isinstance(st.targets[0], ast.Tuple) and len(st.targets[0].elts) == 2 and isinstance(st.value, ast.Name) and st.value.id == var:
                return src(st.targets[0].elts[1])
        return None
    ok = bool(calls) and src(calls[0].args[1]) == _slice_of(hname) and src(calls[0].args[2]) == _slice_of(dname)
    R.ob('C12.c', ii, calls[0] if calls else ii.node, ok, text='field.read(src, headers_slice, data_slice)', detail='' if ok else
         'a field is not read from its own header/data sections')

    # what is delivered as a file is a window of the shared body buffer: it reads its own part, at its own position, whatever else was read in between
    from . import c07 as _c07
    _c07.check_upload_window(P, R, 'C12.c')
    # a field must not take over bytes of the following part: the delimiter found resets the carried remainder
    from . import c06
    c06.check_eat_data_resets(P, _Sub(R, {}), 'C12.c')
    # the header / data border of a part does not move when CRLFCRLF is cut by a chunk end (else a delivered value lacks its first bytes)
    from ..report import Sub as _RSub
    c06.check_end_headers(P, _RSub(R, default='C12.c', why='a delivered field holds the complete data of its part, never a truncated one'), c06.module_bytes_consts(P))
    c06.check_sentinels(P, _Sub(R, {}), 'C12.c')

    # ---- d: progress
    pq = P.func('ombott.request_pkg.helpers:parse_qsl')
    sub = _Sub(R, {'C18.a': 'C12.d'})
    loop_progress_parse_qsl(P, sub)
    check_size_line_cap(P, R, 'C12.d')
    # the regular expressions applied to body bytes / part headers have no repetition whose alternatives overlap (no exponential backtracking)
    from .. import regexast as RX
    n_rx = 0
    for mname in ('ombott.request_pkg.multipart', 'ombott.request_pkg.body_mixin', 'ombott.request_pkg.helpers'):
        mod_ = P.module(mname)
        pats = []
        for st_ in ast.walk(mod_.tree):
            if isinstance(st_, ast.Call) and dotted(st_.func) in ('re.compile', 're.match', 're.search', 're.finditer', 're.fullmatch', 're.sub', 're.split') and st_.args:
                pats.append(st_)
        for c_ in pats:
            for lit_ in (RX.pattern_literal(c_.args[0], {k: v[0] for k, v in mod_.assigns.items() if len(v) == 1}) or []):
                tree_ = RX.parse(lit_.replace('\x00HOLE\x00', 'X') if isinstance(lit_, str) else lit_.replace(b'\x00HOLE\x00', b'X'))
                if tree_ is None:
                    continue
                n_rx += 1
                amb = RX.ambiguous_repeats(tree_)
                R.ob('C12.d', f'{mod_.relpath}:{c_.lineno}', None, not amb, text=f'pattern {lit_!r}: no overlapping alternatives under a repetition', detail='' if not amb else
                     f'{amb[0]}: a run of the shared character can be split in exponentially many ways, all of which are tried when the closing part of the pattern is '
                     f'missing (e.g. an unterminated quoted parameter with a run of backslashes) - reading the form spins in `re` instead of answering',
                     why='reading the form never hangs', key_extra=f'rx:{lit_!r}')
    R.require(n_rx >= 2, f'only {n_rx} literal patterns found in the body-parsing modules')
    # _eat_data: the window start advances on every path round the loop
    ed = P.func(f'{MP}:BodyMarkuper._eat_data')
    ge = ed.cfg
    loops = [n for n in walk_shallow(ed.node) if isinstance(n, ast.While)]
    def _range_of(n_):
        it_ = n_.iter
        if isinstance(it_, ast.Name):
            ds_ = ed.rd.at(ge.nodes_for(n_)[0], it_.id)
            if len(ds_) == 1 and ds_[0].value is not None:
                it_ = ds_[0].value
        return it_ if isinstance(it_, ast.Call) and dotted(it_.func) == 'range' else None
    floops = [n for n in walk_shallow(ed.node) if isinstance(n, ast.For) and _range_of(n) is not None
              and any(isinstance(x, ast.Call) and call_attr(x) == 'match_tail' for x in walk_shallow(n))]
    if not loops and floops:
        # `for start in range(a, b, step)`: finitely many windows, provided the step is the (positive) delimiter length
        from . import c06 as _c06
        er = _c06.eat_data_roles(P)
        rg = _range_of(floops[0])
        okf = len(rg.args) == 3 and src(rg.args[2]) == er['tlen']
        R.ob('C12.d', ed, floops[0], okf, text=f'delimiter search: for .. in {short(rg)} (finite)', detail='' if okf else
             'the step of the window range is not the delimiter length')
        loops = None
    else:
        R.require(loops, '_eat_data: scan loop not found')
    lp = loops[0] if loops else floops[0]
    head = (ge.nodes_for(lp.test)[0] if not isinstance(lp.test, ast.Constant) else None) if loops else T.loop_head(ge, lp)
    if head is None:
        # while True: the head is the first statement of the body
        first = T.entry_node_of(ge, lp.body[0])
        head = first
    from . import c06 as _c06
    er = _c06.eat_data_roles(P)
    adv = [ge.node_of_stmt(x)[0] for x in walk_shallow(lp) if isinstance(x, ast.AugAssign) and isinstance(x.target, ast.Name)
           and x.target.id == er['start'] and isinstance(x.op, ast.Add)]
    succs = [m for (m, lab) in head.succ if lab != 'exc']
    ok = bool(adv) and not any(ge.can_reach(s, head, avoid_nodes=adv) for s in succs if s is not head)
    if loops:
        R.ob('C12.d', ed, lp, ok, text='delimiter search: start += tlen on every path round the loop', detail='' if ok else
             'a path round the delimiter-search loop does not advance the window: the scanner spins on that chunk')
    # iter_markup: every iteration of its loop either leaves or consumed a section (start_next_sec re-assigned)
    lps = [n for n in walk_shallow(im.node) if isinstance(n, ast.While)]
    R.require(lps, 'iter_markup: loop not found')
    lp = lps[0]
    first = T.entry_node_of(g, lp.body[0])
    eat_calls = [c for c in walk_shallow(lp) if isinstance(c, ast.Call) and isinstance(c.func, ast.Name) and len(c.args) == 2 and src(c.args[0]) == im.params[1]]
    R.require(eat_calls and isinstance(eat_calls[0].args[1], ast.Name), 'iter_markup: section eater call not found')
    cursor = eat_calls[0].args[1].id
    adv = [g.node_of_stmt(x)[0] for x in walk_shallow(lp) if isinstance(x, ast.Assign) and any(
        isinstance(t, ast.Name) and t.id == cursor for t in x.targets)]
    ok = bool(adv) and not any(g.can_reach(s, first, avoid_nodes=adv) for (s, lab) in first.succ if lab != 'exc' and s is not first)
    R.ob('C12.d', im, lp, ok, text='section loop: start_next_sec re-assigned on every path round the loop', detail='' if ok else
         'a path round the section loop does not move the section cursor')

    # ---- e
    c13.check_get_body_string(P, _Sub(R, {}), 'C12.e')


def check_size_line_cap(P, R, rid):
    """the scan of a chunk size line counts every byte it reads and gives up once that count exceeds the buffer size (extension bytes included)"""
    # chunk-size scan capped (C05.d cap)
    fc = P.func(f'{BM}:_iter_chunked')
    gc = fc.cfg
    inc = [x for x in walk_shallow(fc.node) if isinstance(x, ast.AugAssign) and isinstance(x.target, ast.Name) and isinstance(x.op, ast.Add) and is_const(x.value, 1)]
    cnts = {x.target.id for x in inc}
    for lp_ in walk_shallow(fc.node):
        # `for read_len in count(1)` counts the iterations as well
        if isinstance(lp_, ast.For) and isinstance(lp_.target, ast.Name) and isinstance(lp_.iter, ast.Call) and \
                (dotted(lp_.iter.func) or '').split('.')[-1] in ('count', 'range'):
            cnts.add(lp_.target.id)
            inc = inc or [lp_]
    cap = [n for n in gc.nodes if n.kind == 'test' and 'buff_size' in names_loaded(T.expand(fc, n.ast, n, keep=tuple(cnts))) and cnts & names_loaded(n.ast)]
    if not cap:
        # the count may be the length of a list that receives every byte read (one append per read, in the scanning loop)
        reads_ = [c for c in walk_shallow(fc.node) if isinstance(c, ast.Call) and isinstance(c.func, ast.Name) and c.func.id == fc.params[0] and c.args and is_const(c.args[0], 1)]
        for n in gc.nodes:
            if n.kind != 'test' or n.ast is None or 'buff_size' not in names_loaded(n.ast):
                continue
            for x in ast.walk(n.ast):
                if isinstance(x, ast.Call) and dotted(x.func) == 'len' and x.args and isinstance(x.args[0], ast.Name):
                    lst = x.args[0].id
                    lp_ = [l for l in T.loops_of(n.ast)]
                    apps = [c for c in walk_shallow(fc.node) if isinstance(c, ast.Call) and call_attr(c) == 'append' and dotted(c.func.value) == lst and lp_ and T._inside(c, lp_[0].body)]
                    rd_in = [c for c in reads_ if lp_ and T._inside(c, lp_[0].body)]
                    if apps and rd_in:
                        # every byte read is appended: no way from a read back to a read that avoids the append
                        an_ = [gc.node_of_stmt(a_)[0] for a_ in apps]
                        rn_ = [gc.node_of_stmt(r_)[0] for r_ in rd_in]
                        every = all(not any(m_ in gc.reachable_from([s_], avoid_nodes=an_) for m_ in rn_)
                                    for r0_ in rn_ for (s_, lab_) in r0_.succ if lab_ != 'exc' and s_ not in an_)
                        if every:
                            cap.append(n)
                            inc = inc or apps
    ok = False
    for n in cap:
        reach = gc.reachable_from(T.succ_by_label(n, 'true'))
        ok = ok or gc.exit not in reach
    R.ob(rid, fc, cap[0].ast if cap else fc.node, ok and bool(inc), text='size-line scan: read_len += 1, read_len > buff_size -> error', detail='' if ok and inc else
         'the bytes read while scanning a chunk size line (digits, extension, CR) are not counted against the buffer size: a chunk extension of any length is '
         'read without being charged to any limit', why='at most the limit plus one buffer is read from the stream before the request is refused')


def loop_progress_parse_qsl(P, R):
    """the termination clause of C18 (cursor advance on every path), reported under this property"""
    from . import c18 as m
    f = P.func('ombott.request_pkg.helpers:parse_qsl')
    g, rd = f.cfg, f.rd
    whiles = [n for n in walk_shallow(f.node) if isinstance(n, ast.While) and enclosing(n, ast.While) is None]
    pieces = m.split_scanner(f)
    if not whiles and pieces is not None:
        inner = [n for st in pieces[0].body for n in walk_shallow(st) if isinstance(n, ast.While)]
        R.ob('C18.a', f, inner[0] if inner else pieces[0], not inner, text=f'urlencoded scanner: one pass over {short(pieces[1])} - finitely many pieces',
             detail='' if not inner else 'a while loop inside the per-pair pass: its termination has no recogniser here', why='reading the form never hangs')
        return
    R.require(len(whiles) == 1, 'parse_qsl: scan loop not found')
    loop = whiles[0]
    cp = compare_parts(loop.test)
    R.require(cp and isinstance(cp[0], ast.Name), 'parse_qsl: loop test')
    cur = cp[0].id
    head = T.loop_head(g, loop)
    adv = []
    for st in loop.body:
        for x in walk_shallow(st):
            if isinstance(x, ast.Assign) and any(isinstance(t, ast.Name) and t.id == cur for t in x.targets) and isinstance(x.value, ast.BinOp) \
                    and isinstance(x.value.op, ast.Add) and isinstance(x.value.right, ast.Constant) and x.value.right.value >= 1:
                adv.append(g.node_of_stmt(x)[0])
    firsts = T.succ_by_label(head, 'true')
    ok = bool(adv) and all(s in adv or g.must_pass(s, head, adv) for s in firsts)
    R.ob('C18.a', f, loop.test, ok, text='urlencoded scanner: every path round the loop advances the cursor', detail='' if ok else
         'a path back to the loop head skips the cursor advance: some urlencoded bodies ("a=1&&b=2", "&a", "=") make request.forms hang',
         why='reading the form never hangs')


class _Sub:
    def __init__(self, R, mapping):
        self._R, self._m = R, mapping

    def ob(self, rule, *a, **kw):
        return self._R.ob(self._m.get(rule, rule), *a, **kw)

    def __getattr__(self, k):
        return getattr(self._R, k)
