"""C08 - Concurrent requests on one application never see each other."""
import ast

from ..astutil import (walk_shallow, dotted, call_attr, short, src, stmt_of, names_loaded, is_const, enclosing,
                       compare_parts, strip_not, const, bool_operands)
from ..loader import AnalysisError
from .. import rules as T
from .. import effects as E
from . import c09

ID = 'C08'
TECHNIQUE = 'confinement / effect (write-set) analysis over class tables and a frozen shared-write table; dominators'
DECIDED = ('"every interleaving" is decided by confinement, not by exploring schedules: (a) every attribute the framework '
           'stores on the shared per-application Response / Request objects while serving a request is in the thread-local '
           'list given to the ts_props decorator (or is a property that stores only such names, or goes through the '
           'thread-local HeaderDict view, or is routed into the per-request environ by BaseRequest.__setattr__); the '
           'generated accessors and the wrapped __init__ keep each listed attribute in a threading.local reached through the '
           'instance; (b) HeaderDict keeps its dictionary in a threading.local allocated in __init__ and touches it only '
           'through that local; (c) per-thread (re)initialisation dominates every exit of _handle (C09.a); (d) no other '
           'location that outlives the request is written anywhere in the package except the frozen, reasoned table '
           '(error-template lines by one slice assignment; filter memo at registration) - in particular no module-level '
           'scratch buffers, no class attributes, no incrementally filled caches.')
DECIDED_MORE = ('Also: stores into the application object / router / routing tree / routes made on the request path (through alias chains from self.<attr>) are shared writes.')
DECIDED = DECIDED + ' ' + DECIDED_MORE
DECIDED_R6 = ('Round 6: emit iterates a snapshot; shared error objects are read-only on the rendering path; per-request __init__ stores only into per-thread slots.')
DECIDED = DECIDED + ' ' + DECIDED_R6
DECIDED_R7 = ('Round 7: request.copy() takes only the copied environ and the configuration from the original.')
DECIDED = DECIDED + ' ' + DECIDED_R7
DECIDED_R8 = ('Round 8: the error renderer reads no interpreter-written slot (__context__, __cause__, __traceback__); shared writes cover Route / RouteMethod objects built by the router.')
DECIDED = DECIDED + ' ' + DECIDED_R8
DECIDED_R9 = ('Round 9: stores into a mutable default argument and into `cls.x` / `self.__class__.x` are shared writes (d).')
DECIDED = DECIDED + ' ' + DECIDED_R9
NOT_DECIDED = ('user handler code; C-level atomicity of dict/list operations (assumed); equality of each response with the one '
               'served alone is implied by confinement only for framework state, not proved for arbitrary handlers.')
ASSUMPTIONS = ['builtin container operations are atomic under the GIL', 'threading.local gives each thread its own attributes',
               'handlers touch shared state only through app.request / app.response']

CH = 'ombott.common_helpers'
RS = 'ombott.response'
RQ = 'ombott.request_pkg.request'
CONFIG_TIME = {'__new__', 'setup', 'on', 'off'}


def ts_props_of(c):
    """(props tuple, store_name) from the @ts_props(...) decorator of class c"""
    for d in c.node.decorator_list:
        if isinstance(d, ast.Call) and dotted(d.func) == 'ts_props':
            props = [a.value for a in d.args if isinstance(a, ast.Constant)]
            store = None
            for k in d.keywords:
                if k.arg == 'store_name':
                    store = const(k.value)
            if len(props) != len(d.args):
                raise AnalysisError(f'{c.fq}: ts_props arguments are not all string literals')
            return props, store
    raise AnalysisError(f'{c.fq}: no @ts_props decorator')


def slots_of(P, c):
    out = []
    for k in P.mro(c):
        v = k.attrs.get('__slots__')
        if v is None:
            continue
        try:
            env = {n: vals[0] for n, vals in k.module.assigns.items() if len(vals) == 1}
            val = T.peval(v, env)
            out.extend(val if isinstance(val, (tuple, list)) else [val])
        except T.CannotEval:
            pass
    return out


def self_stores(P, c, skip_methods=()):
    """[(func, stmt, attr)] for stores `self.attr = ...` (and object.__setattr__(self, 'attr', ...)) in methods over the MRO"""
    out = []
    for k in P.mro(c):
        for name, f in k.methods.items():
            if name in skip_methods:
                continue
            for fn in [f] + [x for x in P.all_funcs() if x.parent is f]:
                selfname = f.params[0] if f.params else 'self'
                for st in walk_shallow(fn.node):
                    if isinstance(st, (ast.Assign, ast.AugAssign, ast.AnnAssign)):
                        ts = st.targets if isinstance(st, ast.Assign) else [st.target]
                        flat = []
                        for t in ts:
                            flat.extend(t.elts if isinstance(t, (ast.Tuple, ast.List)) else [t])
                        for t in flat:
                            if isinstance(t, ast.Attribute) and isinstance(t.value, ast.Name) and t.value.id == selfname:
                                out.append((fn, st, t.attr))
                    elif isinstance(st, ast.Call) and dotted(st.func) in ('object.__setattr__', 'setattr') and len(st.args) == 3 \
                            and isinstance(st.args[0], ast.Name) and st.args[0].id == selfname:
                        a = st.args[1]
                        out.append((fn, st, a.value if isinstance(a, ast.Constant) else ('*' + src(a))))
                    elif isinstance(st, ast.Delete):
                        for t in st.targets:
                            if isinstance(t, ast.Attribute) and isinstance(t.value, ast.Name) and t.value.id == selfname:
                                out.append((fn, st, t.attr))
    return out


def property_setter_targets(P, c, attr):
    """if `attr` is a property with a setter on c's MRO, the attribute names the setter stores on self"""
    for k in P.mro(c):
        for name, f in k.methods.items():
            pass
        for st in k.node.body:
            if isinstance(st, ast.FunctionDef) and st.name == attr and any(
                    isinstance(d, ast.Attribute) and d.attr == 'setter' for d in st.decorator_list):
                selfname = st.args.args[0].arg
                return {t.attr for n in ast.walk(st) if isinstance(n, ast.Assign) for t in n.targets
                        if isinstance(t, ast.Attribute) and isinstance(t.value, ast.Name) and t.value.id == selfname}
    return None


def check_ts_machinery(P, R, rid, per_instance=True):
    """the decorator itself: listed names become properties over a threading.local reached through the instance"""
    w = P.func(f'{CH}:ts_props.wrapper')
    iw = P.func(f'{CH}:ts_props.wrapper.init_wrapper')
    # the property factory, by role: the function of this module that returns property(<three of its own nested functions>, ...)
    mp, acc_names = None, None
    for cand in P.module(CH).functions.values():
        if isinstance(cand.node, ast.Lambda):
            continue
        for r_ in walk_shallow(cand.node):
            if isinstance(r_, ast.Return) and isinstance(r_.value, ast.Call) and dotted(r_.value.func) == 'property' and len(r_.value.args) >= 3 \
                    and all(isinstance(a_, ast.Name) for a_ in r_.value.args[:3]):
                nested = {x.name for x in P.all_funcs() if x.parent is cand}
                if all(a_.id in nested for a_ in r_.value.args[:3]):
                    mp, acc_names = cand, [a_.id for a_ in r_.value.args[:3]]
    R.require(mp is not None, 'ts_props: the function that builds property(fget, fset, fdel) from nested accessors was not found')
    # every listed prop is turned into a property
    made = [c for c in ast.walk(w.node) if isinstance(c, ast.Call) and dotted(c.func) == 'setattr' and len(c.args) == 3
            and isinstance(c.args[2], ast.Call) and dotted(c.args[2].func) == mp.name]
    ok = bool(made) and any(isinstance(x, (ast.ListComp, ast.For)) and 'props' in src(x) for x in ast.walk(w.node))
    R.ob(rid, w, made[0] if made else w.node, ok, text='setattr(cls, p, make_prop(p)) for p in props', detail='' if ok else
         'the decorator does not replace every listed attribute by a thread-local property')
    # accessors reach the store through the instance
    tsp = P.func(f'{CH}:ts_props')
    store_param = tsp.node.args.kwonlyargs[0].arg if tsp.node.args.kwonlyargs else 'store_name'
    key_param = mp.params[-1] if mp.params else 'k'
    if len(mp.params) == 2:
        store_param = mp.params[0]      # the store name handed to a module-level factory
    for name, an_ in zip(('fget', 'fset', 'fdel'), acc_names):
        a = next(x for x in P.all_funcs() if x.parent is mp and x.name == an_)
        sp = a.params[0]
        inner = [c for c in ast.walk(a.node) if isinstance(c, ast.Call) and dotted(c.func) == 'getattr' and len(c.args) >= 2
                 and isinstance(c.args[0], ast.Name) and c.args[0].id == sp and src(c.args[1]) == store_param]
        outer = [c for c in ast.walk(a.node) if isinstance(c, ast.Call) and dotted(c.func) in ('getattr', 'setattr', 'delattr')
                 and c.args and any(c.args[0] is i for i in inner)]
        ok = bool(inner) and bool(outer)
        # closure variables = names bound in an enclosing function (module globals and builtins are not per-class state)
        enclosing_locals = set()
        pf_ = a.parent
        while pf_ is not None:
            enclosing_locals |= set(pf_.params) | (set(pf_.rd.locals) if not isinstance(pf_.node, ast.Lambda) else set())
            enclosing_locals |= {x.name for x in ast.walk(pf_.node) if isinstance(x, (ast.FunctionDef, ast.ClassDef)) and x is not pf_.node}
            pf_ = pf_.parent
        free = ({n.id for n in ast.walk(a.node) if isinstance(n, ast.Name) and isinstance(n.ctx, ast.Load)} & enclosing_locals) - set(a.params) \
            - {key_param, store_param}
        R.ob(rid, a, a.node, ok and not free, text=f'{name}: getattr(getattr({sp}, store_name), k)', detail='' if ok and not free else
             (f'the accessor reads the closure variable(s) {sorted(free)} instead of the store of the instance it is called on'
              if free else 'the accessor does not go through the instance\'s own store'),
             why='a store selected by a per-class closure cell is shared by all instances (and rebound by each __init__)')
    # init_wrapper: store is a threading.local created here, per instance; every prop initialised on it; no nonlocal
    nl = [n for n in ast.walk(iw.node) if isinstance(n, ast.Nonlocal)]
    R.ob(rid, iw, nl[0] if nl else iw.node, not nl, text='init_wrapper rebinds no enclosing variable', detail='' if not nl else
         'init_wrapper rebinds a variable of the decorator scope (per-class) with per-instance state')
    g, rd = iw.cfg, iw.rd
    sets = [c for c in walk_shallow(iw.node) if isinstance(c, ast.Call) and dotted(c.func) == 'setattr' and len(c.args) == 3
            and src(c.args[0]) == iw.params[0] and src(c.args[1]) == 'store_name']
    ok, det = False, 'init_wrapper does not attach a store to the instance'
    for c in sets:
        x = c.args[2]
        cn = g.node_of_stmt(c)[0]
        if isinstance(x, ast.Name) and rd.is_local(x.id):
            defs = rd.at(cn, x.id)
            ok = bool(defs) and all(isinstance(d.value, ast.Call) and dotted(d.value.func) == 'threading.local' for d in defs)
            det = '' if ok else f'the store attached to the instance is not a threading.local() created for it ({defs})'
        elif isinstance(x, ast.Call) and dotted(x.func) == 'threading.local':
            ok, det = True, ''
        else:
            det = (f'the store attached to each instance is `{short(x)}`, a variable of the decorator scope: one threading.local per '
                   f'*class*, shared by all instances on a thread')
    if per_instance:
        R.ob(rid, iw, sets[0] if sets else iw.node, ok, text='setattr(self, store_name, threading.local())  [per instance]', detail=det,
             why='two instances on one thread (two applications, Request.copy()) would read and write the same per-thread values')
    else:
        # for one application only the *kind* of store matters: a threading.local, wherever it is allocated
        tl = bool(sets) and any(isinstance(x, ast.Call) and dotted(x.func) == 'threading.local' for x in ast.walk(w.node))
        R.ob(rid, iw, sets[0] if sets else iw.node, tl, text='the store attached to the instance is a threading.local', detail='' if tl else
             'the store behind the thread-local properties is not a threading.local')
    inits = [x for x in ast.walk(iw.node) if isinstance(x, ast.Call) and dotted(x.func) == 'setattr' and len(x.args) == 3
             and is_const(x.args[2], None) and 'props' in src(enclosing(x, (ast.ListComp, ast.For)) or x)]
    R.ob(rid, iw, inits[0] if inits else iw.node, bool(inits), text='every listed attribute initialised on this thread\'s store',
         detail='' if inits else 'listed attributes are not (re)initialised per thread', nontrivial=False)


def check(P, R):
    R.rule('C08.a', 'per-request fields of the shared objects are thread-local', floor=12)
    R.rule('C08.b', 'the header view is thread-local', floor=5)
    R.rule('C08.c', '(re)initialisation precedes every use', floor=6)
    R.rule('C08.d', 'no other shared location is written', floor=2)

    # ---- a
    check_ts_machinery(P, R, 'C08.a', per_instance=False)
    resp = P.cls(f'{RS}:Response')
    props, store = ts_props_of(resp)
    slots = set(slots_of(P, resp))
    for (fn, st, attr) in self_stores(P, resp, skip_methods=('__new__',)):
        if fn.owner_cls is not None and fn.owner_cls.name in ('HTTPResponse', 'HTTPError'):
            continue
        ok = attr in props
        why = ''
        if not ok:
            tg = property_setter_targets(P, resp, attr)
            if tg is not None:
                ok = tg <= set(props)
                why = f'property {attr} stores {sorted(tg)}'
        if not ok and attr in slots:
            why = (f'`{attr}` is a plain slot of the shared Response object, not in the thread-local list {props}: one value for all '
                   f'threads - a request initialised in between replaces it')
        R.ob('C08.a', fn, st, ok, text=f'Response: self.{attr} = ...', detail='' if ok else (why or f'{attr} is not thread-local'),
             why='each handler builds only its own response', key_extra=attr)
    # stores from outside on the shared response
    for f in c09.analysed_funcs(P):
        for st in walk_shallow(f.node):
            if isinstance(st, ast.Assign):
                for t in st.targets:
                    flat = t.elts if isinstance(t, (ast.Tuple, ast.List)) else [t]
                    for tt in flat:
                        if isinstance(tt, ast.Attribute) and dotted(tt.value) in ('response', 'self.response', 'app.response', 'Globals.response'):
                            ok = tt.attr in props or (property_setter_targets(P, resp, tt.attr) or {'?'}) <= set(props)
                            R.ob('C08.a', f, st, ok, text=f'{dotted(tt.value)}.{tt.attr} = ...', detail='' if ok else
                                 f'{tt.attr} of the shared response is not thread-local', key_extra=tt.attr)
    req = P.cls(f'{RQ}:Request')
    rprops, rstore = ts_props_of(req)
    rslots = set(slots_of(P, P.cls(f'{RQ}:BaseRequest')))
    for (fn, st, attr) in self_stores(P, req, skip_methods=CONFIG_TIME):
        ok = attr in rprops
        det = ''
        if not ok:
            if attr.startswith('*'):
                # object.__setattr__(self, name, value) inside __setattr__: name ranges over the slots
                ok = fn.name == '__setattr__'
                det = '' if ok else 'dynamic attribute store'
            elif attr not in rslots:
                ok = True   # routed into environ by BaseRequest.__setattr__
            else:
                det = f'`{attr}` is a plain slot of the shared Request object, not in the thread-local list {rprops}'
        R.ob('C08.a', fn, st, ok, text=f'Request: self.{attr} = ...', detail=det, key_extra=attr)
    # the slots that are not thread-local are written only at configuration/construction time: checked above by skip list
    # __setattr__ routes non-slot names into environ
    sa = P.func(f'{RQ}:BaseRequest.__setattr__')
    envstore = [st for st in walk_shallow(sa.node) if isinstance(st, ast.Assign) and any(
        isinstance(t, ast.Subscript) and dotted(t.value) == 'self.environ' for t in st.targets)]
    R.ob('C08.a', sa, envstore[0] if envstore else sa.node, bool(envstore), text='non-slot attributes stored in self.environ',
         detail='' if envstore else 'user attributes set on the shared request are not stored per request')

    # ---- b
    hd = P.cls(f'{CH}:HeaderDict')
    sl = hd.attrs.get('__slots__')
    ok = sl is not None and T.peval(sl) in (('_ts',), ['_ts'])
    R.ob('C08.b', hd.fq, None, ok, text=f'HeaderDict.__slots__ = {short(sl)}', detail='' if ok else 'HeaderDict has other instance storage than _ts')
    for (fn, st, attr) in self_stores(P, hd):
        if attr == '_ts':
            ok = fn.name == '__init__' and isinstance(st, ast.Assign) and isinstance(st.value, ast.Call) and dotted(st.value.func) == 'threading.local'
            R.ob('C08.b', fn, st, ok, detail='' if ok else '_ts is (re)bound outside __init__ or not to a threading.local()')
        elif attr == 'dict':
            R.ob('C08.b', fn, st, True, text=f'self.dict = ... (property over _ts)')
        else:
            R.ob('C08.b', fn, st, False, detail=f'HeaderDict stores `{attr}` on the shared object')
    # the dict property reads/writes _ts
    dp = hd.attrs.get('dict')
    accessors = []
    if isinstance(dp, ast.Call) and dotted(dp.func) == 'property':
        for a in dp.args + [k.value for k in dp.keywords if k.arg in ('fget', 'fset', 'fdel')]:
            if isinstance(a, ast.Name) and a.id in hd.methods:
                accessors.append(hd.methods[a.id].node)      # property(_get_dict, _set_dict) over methods of the class
            else:
                accessors.append(a)
    for st_ in hd.node.body:
        # @property def dict(self) / @dict.setter def dict(self, v)
        if isinstance(st_, ast.FunctionDef) and st_.name == 'dict' and any(dotted(d_) in ('property', 'dict.setter', 'dict.deleter') for d_ in st_.decorator_list):
            accessors.append(st_)
    ok = len(accessors) >= 2 and all('._ts' in src(a) for a in accessors)
    R.ob('C08.b', hd.fq, None, ok, text='dict = property over self._ts.dict', detail='' if ok else 'HeaderDict.dict is not a view of the thread-local')
    # other methods touch storage only through self._ts.dict / self.dict / self.items() etc.
    for name, f in hd.methods.items():
        bad = [x for x in ast.walk(f.node) if isinstance(x, ast.Attribute) and isinstance(x.value, ast.Name) and x.value.id == 'self'
               and x.attr.startswith('_') and x.attr not in ('_ts', '__class__')]
        R.ob('C08.b', f, bad[0] if bad else f.node, not bad, text=f'HeaderDict.{name} uses only the thread-local storage', detail='' if not bad else
             f'uses self.{bad[0].attr}', nontrivial=False)
    # BaseResponse.__new__ gives each response object its own HeaderDict
    nw = P.func(f'{RS}:BaseResponse.__new__')
    ok = any(isinstance(st, ast.Assign) and any(isinstance(t, ast.Attribute) and t.attr == 'headers' and isinstance(t.value, ast.Name) for t in st.targets)
             and isinstance(st.value, ast.Call) and dotted(st.value.func) == 'HeaderDict' for st in walk_shallow(nw.node))
    R.ob('C08.b', nw, nw.node, ok, text='self.headers = HeaderDict() per object', detail='' if ok else 'response objects share one HeaderDict')

    # ---- c
    c09.check_init_dominance(P, R, 'C08.c')

    # ---- d
    c09.check_shared_writes(P, R, 'C08.d', strict=True, same_for_all_threads_ok=True, skip_config_time=True, pure_memo_ok=True)
    check_shared_slots(P, R, 'C08.d')
    check_request_copy(P, R, 'C08.d', 'nothing of one in-flight request is observable by another')
    check_no_interpreter_slots_read(P, R, 'C08.d')
    # the error objects kept in errors_map are single instances for all threads: the request path only reads them
    from ..report import Sub as _Sub8
    c09.check_error_objects_read_only(P, _Sub8(R, why='an error object shared by all threads is not written while one of them renders it'), 'C08.d')
    # reads of application-wide lists that other requests may edit meanwhile go through a snapshot
    from . import c03 as _c03
    _c03.check_emit_snapshot(P, R, 'C08.d', 'what a request does (its hooks) does not depend on what another request does to the application at the same time')

    class _SubApply:
        def __init__(self, R_):
            self._R = R_

        def ob(self, rule, *a, **kw):
            kw['why'] = 'the errors_map responses are one object for all threads: what a request writes into headers it was handed shows up in another request'
            return self._R.ob('C08.d' if rule == 'C09.c' else rule, *a, **kw)

        def __getattr__(self, k):
            return getattr(self._R, k)
    c09.check_apply(P, _SubApply(R))


def check_no_interpreter_slots_read(P, R, rid):
    """`__context__`, `__cause__`, `__traceback__` of an exception object are written by the interpreter at every raise; the mapped error responses are single
    objects raised by every request, so what is read from these slots while rendering is whatever the last raise - possibly another thread's - left there"""
    for fq in ('ombott.error_render:render', 'ombott.ombott:Ombott.default_error_handler'):
        f = P.maybe_func(fq)
        if f is None:
            continue
        for x in walk_shallow(f.node):
            name = None
            if isinstance(x, ast.Attribute) and x.attr in ('__context__', '__cause__', '__traceback__') and isinstance(x.ctx, ast.Load):
                name = x.attr
            elif isinstance(x, ast.Call) and dotted(x.func) == 'getattr' and len(x.args) >= 2 and isinstance(x.args[1], ast.Constant) \
                    and x.args[1].value in ('__context__', '__cause__', '__traceback__'):
                name = x.args[1].value
            if name:
                R.ob(rid, f, x, False, text=f'`{short(x)}`: the renderer reads only what was stored on the error for this request', detail=
                     f'`{short(x)}` reads `{name}`, which the interpreter rewrites whenever the object is raised: the errors in config.errors_map are shared by all requests, so '
                     f'between the raise and the rendering of one request another thread\'s raise replaces it - the page shows the other request\'s failure',
                     why='nothing of one in-flight request is observable by another', key_extra=f'interpreter-slot:{name}')


def check_copy_keeps_config(P, R, rid, why):
    """request.copy() hands the configuration of the original to the copy: __new__ consumes the `config` keyword, and without it the copy falls back to
    RequestConfig's defaults (no body limit, the default in-memory threshold, an empty errors_map)"""
    f = P.maybe_func('ombott.request_pkg.request:BaseRequest.copy')
    if f is None:
        R.undecided(rid, 'ombott.request_pkg.request:BaseRequest.copy', None, 'copy()', 'BaseRequest.copy not found')
        return
    def _is_ctor(c_):
        if dotted(c_.func) in ('self.__class__', 'Request', 'BaseRequest', 'cls') or src(c_.func) == 'type(self)':
            return True
        ns_ = f.cfg.node_of_stmt(c_)
        return bool(ns_) and isinstance(c_.func, ast.Name) and T.xsrc(f, c_.func, ns_[0]) in ('self.__class__', 'type(self)')
    ctors = [c for c in walk_shallow(f.node) if isinstance(c, ast.Call) and _is_ctor(c)]
    if not ctors:
        R.undecided(rid, f, f.node, 'copy()', 'the constructor call of the copy was not found')
        return
    for c in ctors:
        cfg = next((k.value for k in c.keywords if k.arg == 'config'), c.args[1] if len(c.args) > 1 else None)
        ok = cfg is not None and T.xsrc(f, cfg, f.cfg.node_of_stmt(c)[0]) == 'self.config'
        later = [st for st in walk_shallow(f.node) if isinstance(st, ast.Assign) and any(isinstance(t, ast.Attribute) and t.attr == 'config' for t in st.targets) and src(st.value) == 'self.config'] + \
                [st for st in walk_shallow(f.node) if isinstance(st, ast.Call) and call_attr(st) == 'setup' and st.args and src(st.args[0]) == 'self.config']
        ok = ok or bool(later)
        R.ob(rid, f, c, ok, text=f'`{short(c)}`: the copy gets the configuration of the original', detail='' if ok else
             f'`{short(c)}` builds the copy without `config=self.config`: the copy is configured with RequestConfig\'s defaults - max_body_size None, the default in-memory '
             f'threshold, an empty errors_map - so a body read through request.copy() is not limited (and a refused one is answered 500)',
             why=why, key_extra='copy-config')


def check_request_copy(P, R, rid, why):
    """request.copy() builds its own request from a copy of the environ and the configuration: nothing else of the original travels - the other slots of
    the long-lived request object (its listener table) are shared by every thread that serves through it"""
    f = P.maybe_func('ombott.request_pkg.request:BaseRequest.copy')
    if f is None:
        return
    allowed = {'environ', 'config', '__class__'}
    reads = [x for x in walk_shallow(f.node) if isinstance(x, ast.Attribute) and isinstance(x.value, ast.Name) and x.value.id == 'self' and isinstance(x.ctx, ast.Load)]
    bad = [x for x in reads if x.attr not in allowed]
    for x in bad:
        R.ob(rid, f, stmt_of(x) or x, False, text=f'copy() takes only the environ (copied) and the configuration from the original', detail=
             f'copy() reads `self.{x.attr}` of the original into the copy (`{short(stmt_of(x) or x)}`): the containers in it are the very objects of the application-wide '
             f'request - whatever is registered on the private copy afterwards (a listener) is called for, and with the data of, every other request served at the same time',
             why=why, key_extra=f'copy-takes:{x.attr}')
    # ... and the original is left as it was: copy() only reads it
    MUT = {'pop', 'popitem', 'clear', 'update', 'setdefault', 'append', 'extend', 'remove', 'insert', '__setitem__', '__delitem__', 'add', 'discard'}
    for st in walk_shallow(f.node):
        hit = None
        if isinstance(st, ast.Call) and isinstance(st.func, ast.Attribute) and st.func.attr in MUT and (dotted(st.func.value) or '').startswith('self.'):
            hit = st
        elif isinstance(st, (ast.Assign, ast.AugAssign, ast.Delete)):
            tg = st.targets if isinstance(st, (ast.Assign, ast.Delete)) else [st.target]
            for t in tg:
                b = t
                while isinstance(b, (ast.Attribute, ast.Subscript)):
                    b = b.value
                if isinstance(t, (ast.Attribute, ast.Subscript)) and isinstance(b, ast.Name) and b.id == 'self':
                    hit = st
        if hit is not None:
            R.ob(rid, f, hit, False, text='copy() leaves the original request as it was', detail=
                 f'`{short(hit)}` changes the request that is being copied: the handler that asked for a copy (e.g. to call a nested application) finds its own parsed query / '
                 f'forms / cookies gone or rebuilt afterwards - edits it had made in place are lost',
                 why=why, key_extra='copy-mutates-original')
    # the environ itself must be copied, not shared
    env_reads = [x for x in reads if x.attr == 'environ']
    shared = [x for x in env_reads if (isinstance(getattr(x, '_p', None), ast.Call) and x in x._p.args and dotted(x._p.func) not in ('dict', 'copy.copy', 'copy'))
              or (isinstance(getattr(x, '_p', None), ast.keyword)) or (isinstance(getattr(x, '_p', None), ast.Assign) and x._p.value is x)]
    R.ob(rid, f, shared[0] if shared else f.node, not shared, text='copy(): the environ is copied, not shared',
         detail='' if not shared else f'copy() hands the original environ itself to the new request', why=why, key_extra='copy-environ', nontrivial=False)


def check_shared_slots(P, R, rid):
    """The request and response objects of an application are shared by all its threads; only the attributes named in their @ts_props decorator are per thread.
    A per-request method (the initialiser run for every request included) that stores into any *other* slot of the object - or into a container kept there - writes
    state every thread sees."""
    n = 0
    for c in P.classes.values():
        tsp = None
        for d in getattr(c.node, 'decorator_list', []):
            if isinstance(d, ast.Call) and dotted(d.func) == 'ts_props':
                tsp = {a.value for a in d.args if isinstance(a, ast.Constant)} | {k.value.value for k in d.keywords if isinstance(k.value, ast.Constant)}
        if tsp is None:
            continue
        # per-thread storage also includes what hangs off a per-thread attribute (self.environ[...], self.headers.dict via _ts)
        for k in P.mro(c):
            if not k.fq.startswith('ombott.'):
                continue
            for m in k.methods.values():
                if m.name in ('__new__',) or m.name in c09.CONFIG_TIME_FUNCS or m.name in ('off',):
                    continue
                for st in walk_shallow(m.node):
                    tgs = st.targets if isinstance(st, ast.Assign) else ([st.target] if isinstance(st, ast.AugAssign) else [])
                    for t in tgs:
                        base = t
                        depth = 0
                        while isinstance(base, (ast.Subscript, ast.Attribute)) and not (isinstance(base, ast.Attribute) and isinstance(base.value, ast.Name) and base.value.id == 'self'):
                            base = base.value
                            depth += 1
                        if not (isinstance(base, ast.Attribute) and isinstance(base.value, ast.Name) and base.value.id == 'self'):
                            continue
                        attr = base.attr
                        if attr in tsp or depth == 0:
                            continue            # a per-thread property, or a plain rebinding of a slot (the thread-safety of those is the ts_props clause)
                        if not isinstance(t, ast.Subscript) and not (isinstance(t, ast.Attribute) and depth >= 1):
                            continue
                        # containers reached through a per-thread attribute are per thread
                        root_ts = attr in tsp
                        if root_ts:
                            continue
                        # known per-thread views: HeaderDict keeps its dictionary in a threading.local of its own
                        if attr == 'headers' and isinstance(t, ast.Attribute) and t.attr == 'dict':
                            continue
                        n += 1
                        ok = attr.startswith('_') and attr.strip('_') in {x.strip('_') for x in tsp}
                        R.ob(rid, m, st, ok, text=f'{k.name}.{m.name}: `{short(st)}`', detail='' if ok else
                             f'`{short(st)}` writes into `self.{attr}`, which is not one of the per-thread attributes {sorted(tsp)} of {c.name}: the object is shared by all threads of '
                             f'the application, so the value written for this request (bound to this thread\'s environ) is what every other thread finds there',
                             why='a request never observes the state of another request', key_extra=f'shared-slot:{k.name}.{m.name}.{attr}')
    R.ob(rid, 'ombott.common_helpers:ts_props', None, True, text=f'stores into non-thread-local slots of the shared request / response objects: {n} found', nontrivial=False)
