"""C06 - Multipart parsing is independent of how the body is split into reads."""
import ast
import re as _re

from ..astutil import (walk_shallow, dotted, call_attr, short, src, stmt_of, names_loaded, is_const, enclosing,
                       compare_parts, strip_not, const, bool_operands)
from ..loader import AnalysisError
from .. import rules as T
from .. import regexast as RX
from ..escape import Escapes

ID = 'C06'
TECHNIQUE = ('width agreement of look-ahead slices vs. constants, exception-escape analysis of the stop signal, paired write-back '
             'of scanner state on every resumable exit, sentinel-identity rule, path rules on the partial-delimiter remainder, '
             'evaluation of the literal header-terminator pattern on the proper prefixes of CRLFCRLF')
DECIDED = ('the specific ways a streaming scanner becomes split-dependent, each a necessary condition: (a) a look-ahead slice '
           'of static width w compared with a constant of length l has w == l (or is guarded by a length test): otherwise the '
           'outcome depends on where the chunk ended; (b) the scanner\'s control-flow signal (StopMarkupException) cannot reach '
           'the error sink of MultipartMarkup.parse; (c) scanner state copied into locals (current eater, section start, '
           'partial-delimiter remainder) is written back on every resumable exit, abspos advances by len(chunk) exactly '
           'once there, and every exit that found a delimiter resets the remainder; (d) "need more data" (None) and '
           'positions (which may be 0 or negative) are told apart by identity tests only; (e) when a carried remainder is '
           'refuted by the data, the same window / tail is still searched for the start of a new delimiter before the '
           'scanner moves on; (f) chunks are fed to the scanner in arrival order as they are buffered; (g) the pattern that '
           'recognises a header terminator cut by the chunk end accepts every proper prefix of CRLFCRLF and the expected '
           'continuation is the exact rest; (h) in iter_markup a chunk-relative position is ordered against a number or '
           'overwritten only through the absolute offset (self.abspos + position): its own sign depends on where the chunk '
           'started.')
DECIDED_MORE = ('Also: a proper head of the pending CRLFCRLF continuation is cut off before waiting on; a find-based MatchTail tries every candidate and resumes at pos+1; the scanner is fed on every non-raising pass of the part loop.')
DECIDED = DECIDED + ' ' + DECIDED_MORE
DECIDED_R6 = ('Round 6: offset-or-minus-one tested with >= 0; dispatch-table entries called with the arguments they take; header end of a completed cut terminator as a linear identity; the saved section method belongs to an object bound in __init__ only.')
DECIDED = DECIDED + ' ' + DECIDED_R6
DECIDED_R7 = ('Round 7: fixed-width windows reject only after a length test; bytes never compared with an element of bytes; every header-end exit has reset the eater; method values compared with ==.')
DECIDED = DECIDED + ' ' + DECIDED_R7
DECIDED_R8 = ('Round 8: the short-window rule knows startswith(<K >= 2 bytes>); premise C05.f; resets and write-back of the delimiter state may be one assignment per field.')
DECIDED = DECIDED + ' ' + DECIDED_R8
DECIDED_R9 = ('Round 9: every window that fits is scanned: `range(.., len(chunk) - tlen + 1, tlen)` / `end > len(chunk)` strict, decided on linear forms (c); the delimiter state may be written path by path (c).')
DECIDED = DECIDED + ' ' + DECIDED_R9
NOT_DECIDED = ('that these are the *only* sources of split dependence: equality of the markup over all divisions of all bodies is '
               'an equivalence of runtime values (e.g. absolute-offset arithmetic of the first section when the opening '
               'delimiter itself is cut is not decided).')
ASSUMPTIONS = ['bytes slicing / startswith behave as in CPython']

MP = 'ombott.request_pkg.multipart'
BM = 'ombott.request_pkg.body_mixin'


def module_bytes_consts(P):
    m = P.module(MP)
    env = T.module_consts(m)
    return {k: v for k, v in env.items() if isinstance(v, (bytes, int))}


def eat_data_roles(P):
    """local names of BodyMarkuper._eat_data by role: copies of self.trest / self.trest_len / self.tlen, the window start, the chunk tail"""
    f = P.func(f'{MP}:BodyMarkuper._eat_data')
    roles = {}
    for st in walk_shallow(f.node):
        if isinstance(st, ast.Assign):
            t, v = st.targets[0], st.value
            pairs = []
            if isinstance(t, ast.Tuple) and isinstance(v, ast.Tuple) and len(t.elts) == len(v.elts):
                pairs = list(zip(t.elts, v.elts))
            elif isinstance(t, ast.Name):
                pairs = [(t, v)]
            for (tt, vv) in pairs:
                if isinstance(tt, ast.Name) and isinstance(vv, ast.Attribute) and dotted(vv) in ('self.trest', 'self.trest_len', 'self.tlen', 'self.token'):
                    roles.setdefault(vv.attr, tt.id)
                if isinstance(tt, ast.Name) and isinstance(vv, ast.Name) and vv.id == f.params[2] and not T.loops_of(st):
                    roles.setdefault('start', tt.id)
                if isinstance(tt, ast.Name) and isinstance(vv, ast.Subscript) and isinstance(vv.slice, ast.Slice) and vv.slice.upper is None \
                        and isinstance(vv.value, ast.Name) and vv.value.id == f.params[1] and T.loops_of(st):
                    roles.setdefault('part', tt.id)
    if 'part' not in roles:
        # the tail may be cut off behind the scanning loop (`for start in range(..)` leaves nothing to break out of): `part = chunk[start:]`
        for st in walk_shallow(f.node):
            if isinstance(st, ast.Assign) and isinstance(st.targets[0], ast.Name) and isinstance(st.value, ast.Subscript) and isinstance(st.value.slice, ast.Slice) \
                    and st.value.slice.upper is None and isinstance(st.value.slice.lower, ast.Name) and isinstance(st.value.value, ast.Name) and st.value.value.id == f.params[1]:
                roles['part'] = st.targets[0].id
                roles['start'] = st.value.slice.lower.id
    # the recorded length of the remainder is optional (a representation may use len(remainder) instead): the role maps to None then
    if 'trest_len' not in roles and not any(isinstance(n, ast.Attribute) and n.attr == 'trest_len' for n in ast.walk(f.owner_cls.node if f.owner_cls is not None else f.node)):
        roles['trest_len'] = None
    for need in ('trest', 'trest_len', 'tlen', 'start', 'part'):
        if need not in roles:
            raise AnalysisError(f'_eat_data: cannot identify `{need}` by role')
    return roles


def check_window_bound(P, R, rid):
    """the full-window scan of _eat_data covers every window that fits: a start s is scanned iff s + tlen <= len(chunk) - a window that fits exactly is a window,
    not a tail (a complete delimiter in the tail is only reported when the next chunk arrives, or never)"""
    from .c19 import Lin, lin_eval
    f = P.func(f'{MP}:BodyMarkuper._eat_data')
    g, rd = f.cfg, f.rd
    er = eat_data_roles(P)
    tl = er['tlen']
    chunk = f.params[1]
    lens = {d.name for n in g.nodes for d in rd.gen.get(n, []) if d.value is not None and isinstance(d.value, ast.Call) and dotted(d.value.func) == 'len'
            and d.value.args and isinstance(d.value.args[0], ast.Name) and d.value.args[0].id == chunk}
    env = {tl: Lin.sym('T')}
    for nm in lens:
        env[nm] = Lin.sym('L')

    def lin(e, at):
        if isinstance(e, ast.Call) and dotted(e.func) == 'len' and e.args and isinstance(e.args[0], ast.Name) and e.args[0].id == chunk:
            return Lin.sym('L')
        if isinstance(e, ast.Name) and e.id not in env:
            ds = rd.at(at, e.id)
            vals = {id(d): d.value for d in ds if d.value is not None}
            if len(ds) == 1 and vals:
                d0 = ds[0]
                # `end = start + tlen`: keep `start` symbolic
                env2 = dict(env)
                for x in ast.walk(d0.value):
                    if isinstance(x, ast.Name) and x.id not in env2:
                        env2[x.id] = Lin.sym('S')
                return lin_eval(d0.value, env2)
            return None
        env2 = dict(env)
        for x in ast.walk(e):
            if isinstance(x, ast.Name) and x.id not in env2:
                env2[x.id] = Lin.sym('S')
        return lin_eval(e, env2)
    seen = 0
    def _range_of(n_):
        it_ = n_.iter
        if isinstance(it_, ast.Name):
            ds_ = rd.at(g.nodes_for(n_)[0], it_.id)
            if len(ds_) == 1 and ds_[0].value is not None:
                it_ = ds_[0].value
        return it_ if isinstance(it_, ast.Call) and dotted(it_.func) == 'range' and len(it_.args) == 3 else None
    for lp in [x for x in walk_shallow(f.node) if isinstance(x, ast.For) and _range_of(x) is not None]:
        rg_ = _range_of(lp)
        if src(rg_.args[2]) != tl:
            continue
        seen += 1
        at = g.nodes_for(lp)[0]
        st = lin(rg_.args[1], at)
        want = Lin.sym('L') - Lin.sym('T') + Lin(1)
        if st is None:
            R.undecided(rid, f, lp, '_eat_data', f'the stop `{short(rg_.args[1])}` of the window loop is not linear in len(chunk) and the token length')
            continue
        ok = st == want
        R.ob(rid, f, lp, ok, text=f'`{short(rg_)}`: every window that fits is scanned (stop = len(chunk) - tlen + 1)', detail='' if ok else
             f'the window loop stops at `{short(rg_.args[1])}` = {st}, not at {want}: a last window that fits exactly is treated as a tail - a complete delimiter there '
             f'becomes a zero-length pending continuation and is reported only with the next chunk, so the markup of a body depends on where the reads cut it',
             why='every division of a well-formed body gives the same result as parsing it in one piece', key_extra='window-bound')
    for n in g.nodes:
        if n.kind != 'test' or n.ast is None:
            continue
        cp = compare_parts(n.ast)
        if not cp or cp[1] not in (ast.Gt, ast.GtE, ast.Lt, ast.LtE):
            continue
        l_, r_ = lin(cp[0], n), lin(cp[2], n)
        if l_ is None or r_ is None:
            continue
        d_ = l_ - r_
        # (S + T) - L  compared with 0
        if d_ == Lin.sym('S') + Lin.sym('T') - Lin.sym('L'):
            seen += 1
            ok = cp[1] is ast.Gt or cp[1] is ast.LtE
        elif d_ == Lin.sym('L') - Lin.sym('S') - Lin.sym('T'):
            seen += 1
            ok = cp[1] is ast.Lt or cp[1] is ast.GtE
        else:
            continue
        R.ob(rid, f, n.ast, ok, text=f'`{short(n.ast)}`: a window that fits exactly is scanned as a window', detail='' if ok else
             f'`{short(n.ast)}` sends a window that ends exactly at the end of the chunk to the tail handling: a complete delimiter there is not reported with this chunk',
             why='every division of a well-formed body gives the same result as parsing it in one piece', key_extra='window-bound')
    if not seen:
        R.undecided(rid, f, f.node, '_eat_data', 'the bound of the full-window scan (window end against len(chunk)) was not found')


def check_eat_data_resets(P, R, rid):
    """every exit of _eat_data that found a delimiter resets the carried remainder; the normal end writes it back"""
    f = P.func(f'{MP}:BodyMarkuper._eat_data')
    g = f.cfg
    rets = [n for n in g.nodes if n.kind == 'stmt' and isinstance(n.ast, ast.Return) and n.ast.value is not None
            and not is_const(n.ast.value, None)]
    R.require(len(rets) >= 3, f'_eat_data: {len(rets)} position returns found (3 on the pinned tree)')

    has_len = any(isinstance(n, ast.Attribute) and n.attr == 'trest_len' for n in ast.walk(f.owner_cls.node if f.owner_cls is not None else f.node))
    state_fields = {'self.trest', 'self.trest_len'} if has_len else {'self.trest'}

    def is_reset(n):
        a = n.ast
        if n.kind != 'stmt' or not isinstance(a, ast.Assign) or not is_const(a.value, None):
            return False
        names = {dotted(t) for t in a.targets}
        return state_fields <= names

    resets = [n for n in g.nodes if is_reset(n)]
    for i, r in enumerate(rets):
        # on every path into this return the last thing done to the carried state is the reset: predecessor chain (one statement for all fields, or one each)
        ok = False
        cur = r
        seen_reset = set()
        for _ in range(4):
            preds = [p for (p, lab) in cur.pred if lab == 'next']
            if len(preds) != 1:
                break
            cur = preds[0]
            if cur in resets:
                ok = True
                break
            a_ = cur.ast
            if cur.kind == 'stmt' and isinstance(a_, ast.Assign):
                tn_ = {dotted(t) for t in a_.targets}
                if tn_ & state_fields:
                    if is_const(a_.value, None) and not (tn_ & seen_reset):
                        seen_reset |= tn_ & state_fields
                        if state_fields <= seen_reset:
                            ok = True
                            break
                    else:
                        break
        R.ob(rid, f, r.ast, ok, text=f'return #{i + 1} `{short(r.ast)}` preceded by self.trest_len = self.trest = None', detail='' if ok else
             'a delimiter was found but the partial-delimiter remainder carried from the previous chunk is not reset: it is applied to '
             'the next part\'s data (a part swallows the following delimiter, or is delivered empty)',
             why='the markup must not depend on leftovers of an earlier chunk', key_extra=f'ret{i}')
    # normal end: write-back of the locals
    wb = [n for n in g.nodes if n.kind == 'stmt' and isinstance(n.ast, ast.Assign) and isinstance(n.ast.targets[0], ast.Tuple)
          and {dotted(e) for e in n.ast.targets[0].elts} == state_fields]
    if not has_len:
        wb = [n for n in g.nodes if n.kind == 'stmt' and isinstance(n.ast, ast.Assign) and len(n.ast.targets) == 1 and dotted(n.ast.targets[0]) == 'self.trest'
              and isinstance(n.ast.value, ast.Name)]
    ok = False
    if not wb and has_len:
        # the same write-back as one assignment per field, the last statements before the function ends
        fall_ = [p for (p, lab) in g.exit.pred if not (p.kind == 'stmt' and isinstance(p.ast, ast.Return) and p.ast.value is not None and not is_const(p.ast.value, None))]
        okc = bool(fall_)
        first_node = None
        for p in fall_:
            cur, got = p, {}
            if cur.kind == 'stmt' and isinstance(cur.ast, ast.Return):
                pr = [q for (q, lab) in cur.pred if lab == 'next']
                cur = pr[0] if len(pr) == 1 else None
            for _ in range(len(state_fields)):
                if cur is None or cur.kind != 'stmt' or not isinstance(cur.ast, ast.Assign) or len(cur.ast.targets) != 1 or dotted(cur.ast.targets[0]) not in state_fields:
                    break
                got[dotted(cur.ast.targets[0])] = src(cur.ast.value)
                first_node = cur
                pr = [q for (q, lab) in cur.pred if lab == 'next']
                cur = pr[0] if len(pr) == 1 else None
            er_ = eat_data_roles(P)
            if set(got) != state_fields or any(got[k] != er_[k.split('.')[1]] for k in got):
                okc = False
        if okc and first_node is not None:
            wb = [first_node]
            ok = True
    if ok:
        pass
    elif wb:
        v = wb[0].ast.value
        order = [dotted(e) for e in wb[0].ast.targets[0].elts] if isinstance(wb[0].ast.targets[0], ast.Tuple) else [dotted(wb[0].ast.targets[0])]
        vals = [src(e) for e in v.elts] if isinstance(v, ast.Tuple) else [src(v)]
        er_ = eat_data_roles(P)
        ok = vals == [er_[o.split('.')[1]] for o in order]
        fall = [p for (p, lab) in g.exit.pred if not (p.kind == 'stmt' and isinstance(p.ast, ast.Return))]
        ok = ok and all(p in wb for p in fall) and bool(fall)
    if not ok:
        # the state may be written where it is decided, path by path: every way out that reports no position has stored every field of the carried state
        def _stores(field):
            out_ = []
            for n_ in g.nodes:
                if n_.kind == 'stmt' and isinstance(n_.ast, ast.Assign):
                    for t_ in n_.ast.targets:
                        for e_ in (t_.elts if isinstance(t_, ast.Tuple) else [t_]):
                            if dotted(e_) == field:
                                out_.append(n_)
            return out_
        none_exits = [n_ for n_ in g.nodes if n_.kind == 'stmt' and isinstance(n_.ast, ast.Return) and (n_.ast.value is None or is_const(n_.ast.value, None)) and n_ in g.reachable()]
        none_exits += [p_ for (p_, lab_) in g.exit.pred if lab_ != 'exc' and not (p_.kind == 'stmt' and isinstance(p_.ast, (ast.Return, ast.Raise))) and p_ in g.reachable()]
        if none_exits and all(_stores(fl_) and all(e_ in _stores(fl_) or g.must_pass(g.entry, e_, _stores(fl_), labels_skip=('exc',)) for e_ in none_exits) for fl_ in state_fields):
            ok = True
            if not wb:
                wb = _stores(sorted(state_fields)[0])
    R.ob(rid, f, wb[0].ast if wb else f.node, ok, text='normal end stores (trest_len, trest) back on the scanner', detail='' if ok else
         'the chunk can end without the partial-delimiter remainder being stored for the next chunk', key_extra='writeback')
    # "need more data" (return None) is only answered through that write-back: an early `return` leaves a pending remainder neither checked nor advanced
    for n_ in g.nodes:
        if n_.kind == 'stmt' and isinstance(n_.ast, ast.Return) and (n_.ast.value is None or is_const(n_.ast.value, None)) and n_ in g.reachable():
            okn = bool(wb) and g.must_pass(g.entry, n_, wb)
            R.ob(rid, f, n_.ast, okn, text=f'`{short(n_.ast)}` (no delimiter in this chunk) only after the remainder was stored', detail='' if okn else
                 'the scanner gives up on the chunk without looking at the remainder carried from the previous chunk: a delimiter that began there and '
                 'continues in this chunk (e.g. a chunk without CR) is missed, sections merge or the last one is never reported',
                 why='the markup must not depend on where the chunk boundaries fall', key_extra='early-none')
    return f


def check_sentinels(P, R, rid):
    he = P.cls(f'{MP}:HeadersEaeter')
    bmk = P.cls(f'{MP}:BodyMarkuper')
    # ---- d: sentinel identity
    sentinel_funcs = []
    for c in (he, bmk, P.cls(f'{MP}:MatchTail')):
        for m in c.methods.values():
            rets = [n for n in walk_shallow(m.node) if isinstance(n, ast.Return)]
            bare = [r for r in rets if r.value is None or is_const(r.value, None)]
            valued = [r for r in rets if r.value is not None and not is_const(r.value, None)]
            falls = bool([p for (p, lab) in m.cfg.exit.pred if not (p.kind == 'stmt' and isinstance(p.ast, ast.Return))])
            if valued and (bare or falls):
                sentinel_funcs.append(m.name)
    R.require(len(sentinel_funcs) >= 6, f'only {len(sentinel_funcs)} Optional-position functions inferred: {sentinel_funcs}')
    n_tests = 0
    for c in (he, bmk):
        for m in c.methods.values():
            g2, rd2 = m.cfg, m.rd
            for n in g2.nodes:
                if n.kind != 'test':
                    continue
                t, neg = strip_not(n.ast)
                names = []
                if isinstance(t, ast.Name):
                    names = [(t.id, 'truthiness')]
                else:
                    cp = compare_parts(t)
                    if cp and isinstance(cp[0], ast.Name) and is_const(cp[2], None):
                        names = [(cp[0].id, 'identity' if cp[1] in (ast.Is, ast.IsNot) else 'equality')]
                for (nm, how) in names:
                    defs = rd2.at(n, nm)
                    from_sentinel = False
                    for d in defs:
                        v = d.value
                        if isinstance(v, ast.Call):
                            callee = call_attr(v)
                            target = (T.resolved_callee(m, v) or '').split('.')[-1]
                            if callee in sentinel_funcs or target in sentinel_funcs or target in ('cur_meth', 'eat_meth') or callee in ('eat_meth',):
                                from_sentinel = True
                            elif isinstance(v.func, ast.Name) and rd2.is_local(v.func.id):
                                for n3 in g2.nodes:
                                    for d3 in rd2.gen.get(n3, []):
                                        if d3.name == v.func.id and d3.value is not None and isinstance(d3.value, ast.Attribute) \
                                                and (d3.value.attr in sentinel_funcs or d3.value.attr in ('cur_meth', 'eat_meth', '_eat_headers')):
                                            from_sentinel = True
                    if from_sentinel:
                        n_tests += 1
                        ok = how == 'identity'
                        R.ob(rid, m, n.ast, ok, text=f'{short(n.ast)}  [{nm} is a position or None]', detail='' if ok else
                             f'the result of a position-returning eater is tested by {how}: position 0 (or a negative offset at the very '
                             f'start of a chunk) is taken for "need more data"',
                             why='whether a delimiter starts exactly at a chunk boundary must not matter')
    R.require(n_tests >= 4, f'{n_tests} sentinel tests found (5 on the pinned tree)')



def check_short_window_decisions(P, R, rid):
    """A scanner method that compares a K-byte window of the current chunk (`chunk[a:a + K]`, K >= 2) with a K-byte constant may only reject on a mismatch once
    it knows the window is complete: a chunk that ends inside those K bytes shows a shorter window, which matches nothing.  Every way from the mismatch edge to a
    `raise` passes a test of the window's length (before or after the comparison)."""
    n = 0
    for m in P.all_funcs():
        if m.module.name != MP or isinstance(m.node, ast.Lambda) or len(m.params) < 2:
            continue
        g, rd = m.cfg, m.rd
        chunk_p = m.params[1] if m.params[0] in ('self', 'cls') else m.params[0]
        if chunk_p not in ('chunk', 'data', 'buf', 'buffer') and 'chunk' not in chunk_p:
            continue
        raises = [x for x in g.nodes if x.kind == 'stmt' and isinstance(x.ast, ast.Raise) and x in g.reachable()]
        if not raises:
            continue
        for tn in g.nodes:
            if tn.kind != 'test' or tn.ast is None:
                continue
            # `chunk.startswith(<K-byte constant>, pos)` is such a window, too
            t_, neg_ = strip_not(tn.ast)
            if isinstance(t_, ast.Call) and call_attr(t_) == 'startswith' and isinstance(t_.func.value, ast.Name) and t_.func.value.id == chunk_p and t_.args:
                try:
                    cv = T.ceval(m, t_.args[0])
                except T.CannotEval:
                    cv = None
                if isinstance(cv, (bytes, str)) and len(cv) >= 2:
                    n += 1
                    len_tests = [t for t in g.nodes if t.kind == 'test' and t.ast is not None and any(
                        isinstance(y, ast.Call) and dotted(y.func) == 'len' and y.args and src(y.args[0]) == chunk_p for y in ast.walk(t.ast))]
                    succ = T.succ_by_label(tn, 'true' if neg_ else 'false')
                    before = any(g.dominates(t, tn) for t in len_tests)
                    bad = [] if before else [r for r in raises if any(s_ not in len_tests and (s_ is r or g.can_reach(s_, r, avoid_nodes=len_tests)) for s_ in succ)]
                    R.ob(rid, m, t_, not bad, text=f'`{short(t_)}`: a {len(cv)}-byte window of the chunk; no rejection before its length is known', detail='' if not bad else
                         f'`{short(t_)}` needs {len(cv)} bytes of the current chunk and `{short(bad[0].ast)}` is reached when it does not match, without any test of how many bytes '
                         f'the chunk holds: when the chunk ends inside those {len(cv)} bytes (the first read delivers only the CR) a well-formed body is refused only because of '
                         f'where the buffer boundary fell',
                         why='every division of a well-formed body gives the same result as parsing it in one piece', key_extra='short-window')
            for x in ast.walk(tn.ast):
                cp = compare_parts(x) if isinstance(x, ast.Compare) else None
                if not (cp and cp[1] in (ast.Eq, ast.NotEq)):
                    continue
                for (w_, c_) in ((cp[0], cp[2]), (cp[2], cp[0])):
                    wx = w_
                    if isinstance(w_, ast.Name):
                        ds_ = rd.at(tn, w_.id)
                        if len(ds_) == 1 and ds_[0].kind == 'assign' and ds_[0].value is not None:
                            wx = ds_[0].value
                    if not (isinstance(wx, ast.Subscript) and isinstance(wx.slice, ast.Slice) and isinstance(wx.value, ast.Name) and wx.value.id == chunk_p
                            and wx.slice.upper is not None and wx.slice.step is None):
                        continue
                    try:
                        cv = T.ceval(m, c_)
                    except T.CannotEval:
                        continue
                    if not isinstance(cv, (bytes, str)) or len(cv) < 2:
                        continue
                    lo = wx.slice.lower if wx.slice.lower is not None else ast.Constant(value=0)
                    width = _lin_const_diff(m, wx.slice.upper, lo)
                    if width != len(cv):
                        continue
                    n += 1
                    wname = w_.id if isinstance(w_, ast.Name) else None
                    len_tests = [t for t in g.nodes if t.kind == 'test' and t.ast is not None and any(
                        isinstance(y, ast.Call) and dotted(y.func) == 'len' and y.args and (src(y.args[0]) == src(w_) or (wname and src(y.args[0]) == wname))
                        for y in ast.walk(t.ast))]
                    neg = strip_not(tn.ast)[1] if strip_not(tn.ast)[0] is x else False
                    mismatch = ('true' if cp[1] is ast.NotEq else 'false')
                    if neg:
                        mismatch = 'false' if mismatch == 'true' else 'true'
                    before = any(g.dominates(t, tn) for t in len_tests)
                    succ = T.succ_by_label(tn, mismatch)
                    bad = [] if before else [r for r in raises if any(s_ not in len_tests and (s_ is r or g.can_reach(s_, r, avoid_nodes=len_tests)) for s_ in succ)]
                    R.ob(rid, m, x, not bad, text=f'`{short(x)}`: a {len(cv)}-byte window of the chunk; no rejection before its length is known', detail='' if not bad else
                         f'`{short(x)}` looks at {len(cv)} bytes of the current chunk and `{short(bad[0].ast)}` is reached on a mismatch without any test of the window\'s length: when '
                         f'the chunk ends inside those {len(cv)} bytes the window is shorter, cannot match, and a well-formed body is refused only because of where the buffer '
                         f'boundary fell',
                         why='every division of a well-formed body gives the same result as parsing it in one piece', key_extra='short-window')
    return n


def check_eater_reset(P, R, rid):
    """whenever the header eater reports the end of a header block (a position, not None), it is back in its initial state - the method that looks at what
    follows the next delimiter (CRLF or the closing hyphens) - before that delimiter is met: the reset stands in eat() behind the call, or in front of every
    position-returning exit of the header method itself"""
    cls = P.cls(f'{MP}:HeadersEaeter')
    init, eat = cls.methods.get('__init__'), cls.methods.get('eat')
    if init is None or eat is None:
        return
    first = [st.value for st in walk_shallow(init.node) if isinstance(st, ast.Assign) and any(dotted(t) == 'self.eat_meth' for t in st.targets)]
    if len(first) != 1 or not dotted(first[0]):
        return
    start_meth = dotted(first[0])

    def resets(fn):
        return [n for n in fn.cfg.nodes if n.kind == 'stmt' and isinstance(n.ast, ast.Assign) and any(dotted(t) == 'self.eat_meth' for t in n.ast.targets)
                and dotted(n.ast.value) == start_meth]

    def none_ret(r):
        return r.value is None or is_const(r.value, None)
    hdr = cls.methods.get('_eat_headers')
    g = eat.cfg
    s_eat = resets(eat)
    for r in [n for n in walk_shallow(eat.node) if isinstance(n, ast.Return) and not none_ret(n)]:
        if isinstance(r.value, ast.Call) and dotted(r.value.func) == 'self.eat':
            continue
        if isinstance(r.value, ast.Name) and not eat.rd.is_local(r.value.id):
            mv_ = eat.module.assigns.get(r.value.id, [])
            if len(mv_) == 1 and isinstance(mv_[0], ast.Call) and dotted(mv_[0].func) == 'object' and not mv_[0].args:
                continue          # a module-level marker object, not a position
        rn = g.node_of_stmt(r)[0]
        if s_eat and g.must_pass(g.entry, rn, s_eat):
            R.ob(rid, eat, r, True, text=f'{short(r)}: the eater is reset before a header end is reported')
            continue
        via_hdr = hdr is not None and any(isinstance(x, ast.Call) and dotted(x.func) == 'self._eat_headers' for x in eat.rd.closure_nodes(r.value, rn))
        bad = None
        if via_hdr:
            hg = hdr.cfg
            s_h = resets(hdr)
            for hr in [n for n in walk_shallow(hdr.node) if isinstance(n, ast.Return) and not none_ret(n)]:
                hn = hg.node_of_stmt(hr)[0]
                if not (s_h and hg.must_pass(hg.entry, hn, s_h)):
                    bad = (hdr, hr)
                    break
        else:
            bad = (eat, r)
        R.ob(rid, bad[0] if bad else eat, bad[1] if bad else r, bad is None, text=f'{short(r)}: the eater is reset before a header end is reported', detail='' if bad is None else
             f'`{short(bad[1])}` reports the end of a header block while `self.eat_meth` keeps the header method: after the next delimiter the bytes that follow it are not '
             f'looked at as "CRLF or closing hyphens", so a closing delimiter goes unrecognised - and that only for the divisions that take this exit (a header terminator '
             f'cut by a buffer boundary)',
             why='every division of a well-formed body gives the same result as parsing it in one piece', key_extra='eater-reset')


def check_method_identity(P, R, rid):
    """`obj.method` builds a new bound-method object at every access: two of them for the same method are equal but not identical, so a method value kept from
    an earlier call (`self.cur_meth`) must be compared with `==`, never with `is`"""
    meth_names = {mn for c in P.classes.values() if c.module.name == MP for mn in c.methods}
    n = 0
    for m in P.all_funcs():
        if m.module.name != MP or isinstance(m.node, ast.Lambda):
            continue
        rd = m.rd

        def is_method_value(e, at, depth=0):
            if isinstance(e, ast.Attribute) and e.attr in meth_names and (dotted(e) or '').startswith('self'):
                return True
            if isinstance(e, ast.Name) and rd.is_local(e.id) and depth < 3:
                ds = rd.at(at, e.id)
                return any(d.value is not None and is_method_value(d.value, d.node, depth + 1) for d in ds)
            return False
        for tn in m.cfg.nodes:
            if tn.ast is None or tn.kind not in ('test', 'stmt'):
                continue
            for x in ast.walk(tn.ast):
                cp = compare_parts(x) if isinstance(x, ast.Compare) else None
                if not (cp and cp[1] in (ast.Is, ast.IsNot)) or is_const(cp[0], None) or is_const(cp[2], None):
                    continue
                if is_method_value(cp[0], tn) or is_method_value(cp[2], tn):
                    n += 1
                    R.ob(rid, m, x, False, text=f'`{short(x)}` compares method values by equality', detail=
                         f'`{short(x)}` compares bound-method objects by identity: every `self.<method>` access creates a new object, so the value saved at the end of the '
                         f'previous chunk is never identical to the one taken now - the state is not recognised and the scanner takes the wrong branch whenever a part spans '
                         f'two chunks',
                         why='every division of a well-formed body gives the same result as parsing it in one piece', key_extra='method-identity')
    return n


def check_bytes_vs_int(P, R, rid):
    """in the byte scanner: a bytes value (a window `chunk[a:b]`, a byte constant) is never compared with `b[k]`, an element of a bytes object - that is an int,
    and the two are never equal"""
    n = 0
    for m in P.all_funcs():
        if m.module.name != MP or isinstance(m.node, ast.Lambda):
            continue
        byt = set()
        for a in m.node.args.args + m.node.args.kwonlyargs:
            if a.annotation is not None and src(a.annotation) in ('bytes', 'bytearray', 'memoryview'):
                byt.add(a.arg)
        if not byt:
            continue
        for _ in range(3):
            for st in walk_shallow(m.node):
                if isinstance(st, ast.Assign) and len(st.targets) == 1 and isinstance(st.targets[0], ast.Name):
                    v = st.value
                    if isinstance(v, ast.Subscript) and isinstance(v.slice, ast.Slice) and isinstance(v.value, ast.Name) and v.value.id in byt:
                        byt.add(st.targets[0].id)
                    else:
                        try:
                            if isinstance(T.ceval(m, v), bytes):
                                byt.add(st.targets[0].id)
                        except T.CannotEval:
                            pass
                if isinstance(st, ast.Call) and call_attr(st) in ('startswith', 'endswith', 'find', 'rfind', 'index', 'split', 'partition', 'count') \
                        and isinstance(st.func.value, ast.Name) and st.func.value.id in byt:
                    for a in st.args[:1]:
                        if isinstance(a, ast.Name):
                            byt.add(a.id)

        def is_bytes(e):
            if isinstance(e, ast.Name):
                if e.id in byt:
                    return True
                try:
                    return isinstance(T.ceval(m, e), bytes)
                except T.CannotEval:
                    return False
            if isinstance(e, ast.Constant):
                return isinstance(e.value, bytes)
            if isinstance(e, ast.Subscript) and isinstance(e.slice, ast.Slice):
                return is_bytes(e.value)
            return False
        for x in walk_shallow(m.node):
            cp = compare_parts(x) if isinstance(x, ast.Compare) else None
            if not (cp and cp[1] in (ast.Eq, ast.NotEq)):
                continue
            for (a, b) in ((cp[0], cp[2]), (cp[2], cp[0])):
                if is_bytes(a) and isinstance(b, ast.Subscript) and not isinstance(b.slice, ast.Slice) and is_bytes(b.value):
                    n += 1
                    R.ob(rid, m, x, False, text=f'`{short(x)}` compares bytes with bytes', detail=
                         f'`{short(b)}` is one element of a bytes object, an int, and `{short(a)}` is a bytes value: the two are never equal, so `{short(x)}` is '
                         f'{"always true" if cp[1] is ast.NotEq else "never true"} whatever the input - a decision that is only reached for some divisions of the body '
                         f'(here: when the first chunk is shorter than the opening delimiter) then always goes one way',
                         why='every division of a well-formed body gives the same result as parsing it in one piece', key_extra='bytes-vs-int')
    return n


def _lin_const_diff(m, hi, lo):
    """hi - lo as an integer when it is a constant (module constants resolved), else None"""
    from .c19 import Lin

    def lin(e):
        if isinstance(e, ast.Constant) and type(e.value) is int:
            return Lin(e.value)
        if isinstance(e, ast.Name):
            try:
                v = T.ceval(m, e)
                if type(v) is int:
                    return Lin(v)
            except T.CannotEval:
                pass
            return Lin.sym(e.id)
        if isinstance(e, ast.BinOp) and isinstance(e.op, (ast.Add, ast.Sub)):
            a, b = lin(e.left), lin(e.right)
            if a is None or b is None:
                return None
            return a + b if isinstance(e.op, ast.Add) else a - b
        if isinstance(e, ast.Call) and dotted(e.func) == 'len' and len(e.args) == 1:
            try:
                v = T.ceval(m, e.args[0])
                return Lin(len(v))
            except (T.CannotEval, TypeError):
                return Lin.sym(src(e))
        return None
    a, b = lin(hi), lin(lo)
    if a is None or b is None:
        return None
    d = a - b
    return d.c if not d.t else None


def check_minus_one_sentinels(P, R, rid):
    """offsets that use -1 for "not there" (`match.start(group)`, `str.find`): the test for "found" admits offset 0"""
    n = 0
    for m in P.all_funcs():
        if m.module.name != MP or isinstance(m.node, ast.Lambda):
            continue
        g, rd = m.cfg, m.rd
        for tn in g.nodes:
            if tn.kind != 'test' or tn.ast is None:
                continue
            for x in ast.walk(tn.ast):
                cp = compare_parts(x) if isinstance(x, ast.Compare) else None
                if not (cp and isinstance(cp[0], ast.Name) and isinstance(cp[2], (ast.Constant, ast.UnaryOp))):
                    continue
                defs = rd.at(tn, cp[0].id)
                if not (defs and all(d.value is not None and isinstance(d.value, ast.Call) and call_attr(d.value) in ('start', 'end', 'find', 'rfind') for d in defs)):
                    continue
                if any(call_attr(d.value) in ('start', 'end') and not d.value.args for d in defs):
                    continue      # whole-match offsets are never -1
                c2 = cp[2]
                val = c2.value if isinstance(c2, ast.Constant) else (-c2.operand.value if isinstance(c2.op, ast.USub) and isinstance(c2.operand, ast.Constant) else None)
                if not isinstance(val, int) or isinstance(val, bool):
                    continue
                n += 1
                ok = (cp[1] is ast.GtE and val == 0) or (cp[1] is ast.Lt and val == 0) or (cp[1] in (ast.Eq, ast.NotEq) and val == -1) or (cp[1] is ast.Gt and val == -1) \
                    or (cp[1] is ast.LtE and val == -1)
                R.ob(rid, m, x, ok, text=f'`{short(x)}`  [{cp[0].id} is an offset or -1]', detail='' if ok else
                     f'`{short(x)}` decides "found" for an offset that is -1 when absent: offset 0 - the terminator standing at the very start of a chunk - is taken for '
                     f'"not found", so a cut exactly in front of CRLFCRLF leaves the header block open',
                     why='where a chunk boundary falls must not matter', key_extra='minus-one-sentinel')
    return n


def check_method_tables(P, R, rid):
    """a dispatch table whose entries are later called through an instance attribute (`self.eat_meth = self._meth_map.get(c)` ... `self.eat_meth(chunk, base)`)
    holds callables that take exactly the arguments of that call: bound methods, not the plain functions of the class body"""
    n = 0
    for c in P.classes.values():
        if c.module.name != MP:
            continue
        for aname, aval in c.attrs.items():
            if not isinstance(aval, ast.Dict):
                continue
            fvals = [v for v in aval.values if isinstance(v, ast.Name) and v.id in c.methods]
            if not fvals:
                continue
            # where is the table consulted, and how is the result called?
            for m in c.methods.values():
                for st in walk_shallow(m.node):
                    if isinstance(st, ast.Assign) and isinstance(st.value, (ast.Call, ast.Subscript)) and f'self.{aname}' in src(st.value):
                        for t in st.targets:
                            holder = dotted(t)
                            if not holder:
                                continue
                            for m2 in c.methods.values():
                                for call in [x for x in walk_shallow(m2.node) if isinstance(x, ast.Call) and dotted(x.func) == holder]:
                                    for v in fvals:
                                        fn = c.methods[v.id]
                                        n += 1
                                        ok = len(fn.params) == len(call.args) + len(call.keywords)
                                        R.ob(rid, m2, call, ok, text=f'`{short(call)}` calls `{v.id}` (from {c.name}.{aname}) with the arguments it takes', detail='' if ok else
                                             f'`{c.name}.{aname}` is built in the class body, so it holds the plain function `{v.id}({", ".join(fn.params)})`, not a bound method: '
                                             f'`{short(call)}` passes {len(call.args)} argument(s) for {len(fn.params)} parameters and raises TypeError - when only one byte of the '
                                             f'suffix after a delimiter is in the buffer the parse fails',
                                             why='a read boundary right after a delimiter must not change the result', key_extra=f'table-arity:{v.id}')
    return n


def check_eater_identity(P, R, rid):
    """iter_markup keeps the method of the section in progress in self.cur_meth across chunks and recognises it by comparing with `eat_headers` / `eat_data`.
    If `eat_headers` is read from `self.headers_eater` on every call, that object must stay the same between chunks: nothing outside __init__ replaces it."""
    bm = P.cls(f'{MP}:BodyMarkuper')
    im = bm.methods.get('iter_markup')
    if im is None:
        return
    fresh_reads = []
    for st in walk_shallow(im.node):
        if isinstance(st, ast.Assign):
            pairs = list(zip(st.targets[0].elts, st.value.elts)) if isinstance(st.targets[0], ast.Tuple) and isinstance(st.value, ast.Tuple) and \
                len(st.targets[0].elts) == len(st.value.elts) else [(st.targets[0], st.value)]
            for (t_, v_) in pairs:
                d0 = dotted(v_) or ''
                if d0.startswith('self.') and d0.count('.') == 2:        # self.<object>.<method>
                    fresh_reads.append((st, d0.split('.')[1]))
    for (st, attr) in fresh_reads:
        rebinds = []
        for m in bm.methods.values():
            if m.name == '__init__':
                continue
            for s2 in walk_shallow(m.node):
                if isinstance(s2, ast.Assign) and any(dotted(t_) == f'self.{attr}' for t_ in s2.targets):
                    rebinds.append((m, s2))
        for (m, s2) in rebinds:
            R.ob(rid, m, s2, False, text=f'`{short(s2)}` while iter_markup takes its section method from self.{attr} on every call', detail=
                 f'`{short(s2)}` replaces the object whose method iter_markup saved in self.cur_meth at the end of a chunk; on the next chunk the saved method belongs to the '
                 f'old object and `{short(st)}` reads the new one, the comparison fails and the section is mistaken for the opening delimiter (assertion -> parse error)',
                 why='a read boundary inside a header block must not change the result', key_extra=f'eater-identity:{attr}')
        R.ob(rid, im, st, not rebinds, text=f'self.{attr} (source of a section method) is bound in __init__ only', nontrivial=False, key_extra=f'eater-stable:{attr}')


def check_extra_state(P, R, rid_e, rid_c):
    bmk = P.cls(f'{MP}:BodyMarkuper')
    ed = P.func(f'{MP}:BodyMarkuper._eat_data')
    er = eat_data_roles(P)
    # MatchTail: match_tail gives up at the first candidate head longer than the slice, so candidates must be stored shortest first
    mt_init = P.func(f'{MP}:MatchTail.__init__')
    mt_match = P.func(f'{MP}:MatchTail.match_tail')
    early = [n for n in mt_match.cfg.nodes if n.kind == 'test' and compare_parts(n.ast) and compare_parts(n.ast)[1] is ast.Lt
             and is_const(compare_parts(n.ast)[2], 0) and any(s.kind == 'stmt' and isinstance(s.ast, ast.Return) for s in T.succ_by_label(n, 'true'))
             and T.loops_of(n.ast)]
    fl = [n for n in walk_shallow(mt_init.node) if isinstance(n, ast.For)]
    if not fl:
        # no table of heads: the candidate starts are searched for in the window instead.  Every occurrence of the first delimiter symbol in the
        # window is a candidate; a single forward find() tries only the first one.
        finds = [c for c in walk_shallow(mt_match.node) if isinstance(c, ast.Call) and call_attr(c) in ('find', 'index') and c.args]
        again = [c for c in finds if T.loops_of(c)]
        if finds and not again:
            c = finds[0]
            R.ob(rid_e, mt_match, c, False, text=f'every candidate start found by `{short(c)}` is tried', detail=
                 f'`{short(c)}` yields the first occurrence of the delimiter\'s leading symbol in the window and only that candidate is compared: when part data '
                 f'has a CR shortly before the delimiter, the delimiter head that starts at the later CR is never tried and a delimiter cut by the read '
                 f'boundary is missed - for some cuts and not for others',
                 why='a read boundary inside the delimiter must not change the result', key_extra='matchtail-single-candidate')
        for c in again:
            # the search resumes right behind the rejected candidate
            a1 = c.args[1] if len(c.args) > 1 else None
            tgt = T.assigned_name_of_call(c)
            step = None
            if isinstance(a1, ast.BinOp) and isinstance(a1.op, ast.Add) and isinstance(a1.left, ast.Name) and isinstance(a1.right, ast.Constant):
                step = (a1.left.id, a1.right.value)
            if step is None or tgt is None:
                R.undecided(rid_e, mt_match, c, 'match_tail', f'the resume position `{short(a1) if a1 is not None else "?"}` of the repeated search has no recogniser')
                continue
            ok = step[0] == tgt and step[1] == 1
            R.ob(rid_e, mt_match, c, ok, text=f'the search for the next candidate resumes at `{short(a1)}`', detail='' if ok else
                 f'after a rejected candidate the search resumes at `{short(a1)}`: the symbol directly behind a rejected CR is never examined, so in `..CR CR LF --boundary` '
                 f'the real delimiter start is skipped and the part swallows the delimiter and what follows',
                 why='part content ending in CR (or CR CR LF look-alikes) must be delimited like any other', key_extra='matchtail-resume')
    R.require(fl, 'MatchTail.__init__: index-building loop not found')
    it = fl[0].iter
    asc = (isinstance(it, ast.Call) and dotted(it.func) == 'enumerate') or \
        (isinstance(it, ast.Call) and dotted(it.func) == 'range' and not (len(it.args) == 3 and isinstance(it.args[2], ast.UnaryOp)))
    rev = any(isinstance(x, ast.Call) and (dotted(x.func) in ('reversed', 'sorted') or call_attr(x) in ('reverse', 'sort', 'insert')) for x in ast.walk(mt_init.node))
    ok = (not early) or (asc and not rev)
    R.ob(rid_e, mt_init, fl[0], ok, text='delimiter heads are indexed shortest first (match_tail stops at the first head that is too long)', detail='' if ok else
         'the candidate heads of a symbol are stored longest first, but match_tail returns at the first candidate longer than the slice: shorter '
         'matching heads are never tried for a short chunk tail, so a delimiter cut inside its leading dashes is not carried over',
         why='a read boundary inside the delimiter must not change the result', key_extra='matchtail-order')
    # the partial-delimiter remainder and its recorded length agree wherever both are set
    for fn in (bmk.methods['_eat_start_boundary'], ed):
        for st in walk_shallow(fn.node):
            pairs = {}
            if isinstance(st, ast.Assign):
                t, v = st.targets[0], st.value
                if isinstance(t, ast.Tuple) and isinstance(v, ast.Tuple) and len(t.elts) == len(v.elts):
                    for tt, vv in zip(t.elts, v.elts):
                        pairs[dotted(tt) or ''] = vv
        # collect per basic block: consecutive assignments to X.trest / X.trest_len
        stmts = [s for s in walk_shallow(fn.node) if isinstance(s, ast.Assign)]
        def _last(name):
            return name.split('.')[-1]
        vals = {}
        for s in stmts:
            t, v = s.targets[0], s.value
            items = list(zip(t.elts, v.elts)) if isinstance(t, ast.Tuple) and isinstance(v, ast.Tuple) and len(t.elts) == len(v.elts) else [(x, v) for x in s.targets]
            names = {_last(dotted(a) or ''): b for a, b in items}
            role_t = 'trest' if fn is not ed else er['trest']
            role_l = 'trest_len' if fn is not ed else er['trest_len']
            if fn is not ed:
                # self.trest = X ... self.trest_len = Y in the same block
                if 'trest' in names and not is_const(names['trest'], None):
                    vals['t'] = (s, names['trest'])
                if 'trest_len' in names and not is_const(names['trest_len'], None):
                    vals['l'] = (s, names['trest_len'])
                if 't' in vals and 'l' in vals:
                    X, Y = vals['t'][1], vals['l'][1]
                    ok = isinstance(Y, ast.Call) and dotted(Y.func) == 'len' and src(Y.args[0]) == src(X)
                    R.ob(rid_c, fn, vals['l'][0], ok, text=f'remainder {short(X)} recorded with length {short(Y)}', detail='' if ok else
                         f'the remainder `{short(X)}` is recorded with the length `{short(Y)}`, which is not len() of it: the continuation of a delimiter cut by the '
                         f'read boundary is compared over the wrong width and never matches',
                         why='an opening delimiter split across two reads must parse like one read', key_extra='len-agree')
                    vals = {}
            else:
                if role_t in names and role_l in names and isinstance(names[role_t], ast.Subscript) \
                        and not (isinstance(names[role_t].value, ast.Name) and names[role_t].value.id == role_t):
                    X, Y = names[role_t], names[role_l]
                    # (tlen - k, token[k:])
                    ok = isinstance(X, ast.Subscript) and isinstance(X.slice, ast.Slice) and X.slice.lower is not None and isinstance(Y, ast.BinOp) \
                        and isinstance(Y.op, ast.Sub) and src(Y.right) == src(X.slice.lower)
                    R.ob(rid_c, fn, s, ok, text=f'remainder {short(X)} recorded with length {short(Y)}', detail='' if ok else
                         f'remainder `{short(X)}` and recorded length `{short(Y)}` do not agree', key_extra='len-agree:' + short(X))



def check(P, R):
    R.rule('C06.a', 'look-ahead width equals the compared constant', floor=5)
    R.rule('C06.b', 'stop signal never reaches the error sink', floor=2)
    R.rule('C06.c', 'scanner state written back / reset on every resumable exit', floor=8)
    R.rule('C06.d', 'need-more-data vs position decided by identity', floor=4)
    R.rule('C06.e', 'refuted remainder: window still searched', floor=2)
    R.rule('C06.f', 'chunks fed in arrival order while buffering', floor=1)
    R.rule('C06.g', 'cut header terminator: every proper prefix recognised', floor=3)
    R.rule('C06.h', 'chunk-relative positions ordered / clamped only via the absolute position', floor=2)
    consts = module_bytes_consts(P)
    for need in ('HYPHEN', 'HYPHENx2', 'CR', 'LF', 'CRLF', 'CRLFx2'):
        R.require(need in consts, f'multipart constant {need} not evaluable')

    # ---- a
    he = P.cls(f'{MP}:HeadersEaeter')
    bmk = P.cls(f'{MP}:BodyMarkuper')
    funcs = [m for m in he.methods.values() if m.name.startswith('_eat') and m.name != '_eat_headers'] + [bmk.methods['_eat_start_boundary']]
    n_cmp = 0
    for f in funcs:
        g, rd = f.cfg, f.rd
        widths = {}
        for n in g.nodes:
            for d in rd.gen.get(n, []):
                v = d.value
                if d.kind == 'assign' and isinstance(v, ast.Subscript) and isinstance(v.slice, ast.Slice) and v.slice.lower is not None \
                        and isinstance(v.slice.upper, ast.BinOp) and isinstance(v.slice.upper.op, ast.Add) \
                        and src(v.slice.upper.left) == src(v.slice.lower) and isinstance(v.slice.upper.right, ast.Constant):
                    widths[d.name] = (v.slice.upper.right.value, d)
        for n in g.nodes:
            if n.kind != 'test' and not (n.kind == 'stmt'):
                continue
            for x in walk_shallow(n.ast):
                cp = compare_parts(x)
                if cp and cp[1] in (ast.Eq, ast.NotEq) and isinstance(cp[0], ast.Name) and cp[0].id in widths:
                    other = cp[2]
                    val = None
                    if isinstance(other, ast.Name) and other.id in consts:
                        val = consts[other.id]
                    elif isinstance(other, ast.Constant) and isinstance(other.value, bytes):
                        val = other.value
                    elif isinstance(other, ast.Subscript):
                        continue   # compared with a slice of a run-time value (boundary[:1])
                    if not isinstance(val, bytes):
                        continue
                    w = widths[cp[0].id][0]
                    n_cmp += 1
                    ok = len(val) == w
                    if not ok and len(val) < w:
                        # guarded by len(x) == l ?
                        for t in g.nodes:
                            if t.kind == 'test':
                                c2 = compare_parts(t.ast)
                                if c2 and c2[1] is ast.Eq and src(c2[0]) == f'len({cp[0].id})' and is_const(c2[2], len(val)) \
                                        and g.edge_dominates(t, 'true', n):
                                    ok = True
                    R.ob('C06.a', f, x, ok, text=f'{short(x)}  [slice width {w}, constant length {len(val)}]', detail='' if ok else
                         f'a {w}-byte look-ahead is compared with a {len(val)}-byte constant: the comparison can only succeed when the chunk '
                         f'happens to end within {len(val)} byte(s) of the cursor, so the result depends on where the read boundary fell',
                         why='every division of a body gives the same result')
            # map lookups keyed by the slice
            for x in walk_shallow(n.ast) if n.ast is not None else []:
                if isinstance(x, ast.Call) and call_attr(x) == 'get' and x.args and isinstance(x.args[0], ast.Name) and x.args[0].id in widths \
                        and dotted(x.func.value) == 'self._meth_map':
                    w = widths[x.args[0].id][0]
                    guarded = False
                    for t in g.nodes:
                        if t.kind == 'test':
                            c2 = compare_parts(t.ast)
                            if c2 and c2[1] is ast.Eq and src(c2[0]) == f'len({x.args[0].id})' and is_const(c2[2], 1) and g.edge_dominates(t, 'true', n):
                                guarded = True
                    n_cmp += 1
                    R.ob('C06.a', f, x, guarded or w == 1, text=f'{short(x)} [1-byte keys, slice width {w}]', detail='' if guarded or w == 1 else
                         'a multi-byte slice is used as key of the one-byte eater table without a length guard')
    R.require(n_cmp >= 5, f'{n_cmp} width comparisons found (6 on the pinned tree)')

    # ---- b
    E = Escapes(P)
    for fq in (f'{MP}:BodyMarkuper.iter_markup', f'{MP}:MultipartMarkup._parse'):
        f = P.func(fq)
        es = E.escapes(f)
        stops = [(c, o) for (c, o) in es if c == 'StopMarkupException']
        ok = not stops
        R.ob('C06.b', f, f.node, ok, text=f'StopMarkupException does not escape {f.name}', detail='' if ok else
             f'the stop signal raised at {stops[0][1].rpartition(" @")[0]} escapes {f.name}: MultipartMarkup.parse stores it as the parsing '
             f'error, so a body whose epilogue arrives in a later chunk fails while the same body in one chunk parses',
             why='the error reported must not depend on the division into chunks')
    # there is a raise site and a handler for it (the rule is not vacuous)
    raises = [f for f in P.all_funcs() if f.module.name == MP and any(
        isinstance(n, ast.Raise) and n.exc is not None and 'StopMarkupException' in src(n.exc) for n in walk_shallow(f.node))]
    R.require(raises, 'no raise StopMarkupException site found: anchor changed')

    # ---- c
    im = P.func(f'{MP}:BodyMarkuper.iter_markup')
    g, rd = im.cfg, im.rd
    state = {}   # local name -> attribute
    for n in g.nodes:
        for d in rd.gen.get(n, []):
            if d.kind == 'assign' and isinstance(d.value, ast.Attribute) and isinstance(d.value.value, ast.Name) and d.value.value.id == 'self' \
                    and d.value.attr in ('cur_meth', 'abs_start_section') and not T.loops_of(d.stmt):
                state[d.name] = d.value.attr
    R.require({'cur_meth', 'abs_start_section'} <= set(state.values()), f'iter_markup: state locals not found ({state})')
    # resumable exit = normal fall-through end (not the return after the stop signal, not raises)
    fall = [p for (p, lab) in g.exit.pred if not (p.kind == 'stmt' and isinstance(p.ast, ast.Return))]
    R.require(fall, 'iter_markup: no normal end')
    for name, attr in sorted(state.items()):
        stores = [n for n in g.nodes if n.kind == 'stmt' and isinstance(n.ast, ast.Assign) and any(dotted(t) == f'self.{attr}' for t in n.ast.targets)
                  and src(n.ast.value) == name]
        modified = any(d.name == name and T.loops_of(d.stmt) for n in g.nodes for d in rd.gen.get(n, []))
        if not modified:
            continue
        ok = bool(stores) and all(not g.can_reach(g.entry, p, avoid_nodes=stores) or p in stores for p in fall)
        # and the value stored is the latest: no assignment to the local after the store
        R.ob('C06.c', im, stores[0].ast if stores else im.node, ok, text=f'self.{attr} = {name} on the normal end of the chunk', detail='' if ok else
             f'the local copy `{name}` is changed while scanning but not stored back to self.{attr} when the chunk ends: the next chunk '
             f'resumes from stale state', key_extra=attr)
    adv = [n for n in g.nodes if n.kind == 'stmt' and isinstance(n.ast, ast.AugAssign) and dotted(n.ast.target) == 'self.abspos'
           and isinstance(n.ast.op, ast.Add)]
    ok = len(adv) == 1 and src(adv[0].ast.value) == f'len({im.params[1]})' and not T.loops_of(adv[0].ast) and all(
        not g.can_reach(g.entry, p, avoid_nodes=adv) or p in adv for p in fall)
    R.ob('C06.c', im, adv[0].ast if adv else im.node, ok, text='self.abspos += len(chunk) exactly once on the normal end', detail='' if ok else
         'the absolute position is not advanced by the chunk length exactly once per chunk')
    # offsets yielded are absolute: abspos + chunk-relative
    for y in T.yield_nodes(g):
        yv = [x for x in walk_shallow(y.ast) if isinstance(x, ast.Yield)][0].value
        ok = isinstance(yv, ast.Tuple) and len(yv.elts) == 2 and isinstance(yv.elts[1], ast.Tuple) and len(yv.elts[1].elts) == 2 \
            and state.get(src(yv.elts[1].elts[0])) == 'abs_start_section' and 'self.abspos' in src(yv.elts[1].elts[1])
        R.ob('C06.c', im, y.ast, ok, text='yield name, (abs_start_section, self.abspos + end_section)', detail='' if ok else
             'section offsets are not absolute offsets into the buffered body')
    check_eat_data_resets(P, R, 'C06.c')
    check_window_bound(P, R, 'C06.c')
    # stopped flag set when the stop signal is caught
    hs = [h for h in ast.walk(im.node) if isinstance(h, ast.ExceptHandler) and h.type is not None and 'StopMarkupException' in src(h.type)]
    ok = bool(hs) and any(isinstance(st, ast.Assign) and any(dotted(t) == 'self.stopped' for t in st.targets) and is_const(st.value, True)
                          for st in hs[0].body)
    R.ob('C06.c', im, hs[0] if hs else im.node, ok, text='closing delimiter: self.stopped = True', detail='' if ok else
         'seeing the closing delimiter is not remembered for later chunks')

    check_sentinels(P, R, 'C06.d')
    check_minus_one_sentinels(P, R, 'C06.d')
    # under chunked framing the scanner is fed by the chunk decoder: the decoder's own tolerance of short reads (the two bytes behind a chunk) is a premise
    from ..report import run_premise
    from . import c05 as _c05
    run_premise(R, _c05, P, {'C05.f'}, 'C06.f', 'an upload never fails because of where a read boundary happened to fall - also between the CR and LF behind a chunk')
    nw_ = check_short_window_decisions(P, R, 'C06.d')
    check_bytes_vs_int(P, R, 'C06.d')
    check_eater_reset(P, R, 'C06.e')
    check_method_identity(P, R, 'C06.e')
    R.ob('C06.d', f'{MP}', None, nw_ >= 1, text=f'{nw_} fixed-width window comparison(s) of the scanner examined', detail='' if nw_ else 'no fixed-width window comparison found (one on the pinned tree)', nontrivial=False)
    check_method_tables(P, R, 'C06.d')
    check_eater_identity(P, R, 'C06.e')

    # ---- e
    ed = P.func(f'{MP}:BodyMarkuper._eat_data')
    g, rd = ed.cfg, ed.rd
    er = eat_data_roles(P)
    mts = [n for n in g.nodes if n.kind == 'stmt' and any(isinstance(x, ast.Call) and call_attr(x) == 'match_tail' for x in walk_shallow(n.ast))]
    R.require(len(mts) == 2, f'_eat_data: {len(mts)} match_tail calls (2 on the pinned tree)')
    loops = [n for n in walk_shallow(ed.node) if isinstance(n, (ast.While, ast.For)) and any(T._inside(n_.ast, n.body) for n_ in mts)]
    R.require(loops, '_eat_data: the window scanning loop was not found')
    lp = loops[0]
    in_loop = [n for n in mts if T._inside(n.ast, lp.body)]
    tail = [n for n in mts if n not in in_loop]
    # refutation sites: local `trest_len = trest = None`
    refs = [n for n in g.nodes if n.kind == 'stmt' and isinstance(n.ast, ast.Assign) and is_const(n.ast.value, None)
            and {dotted(t) for t in n.ast.targets} == ({er['trest_len'], er['trest']} - {None})]
    R.require(len(refs) >= 2, f'_eat_data: {len(refs)} refutation sites (3 on the pinned tree; at least one in the window loop and one in the tail block)')
    adv = [g.node_of_stmt(x)[0] for x in walk_shallow(lp) if isinstance(x, ast.AugAssign) and dotted(x.target) == er['start']]
    if isinstance(lp, ast.For):
        adv = [T.loop_head(g, lp)]          # `for start in range(..)`: the window moves when control returns to the loop header
    for i, rf in enumerate(refs):
        if T._inside(rf.ast, lp.body):
            ok = bool(in_loop) and all(g.must_pass(rf, a, in_loop) for a in adv)
            R.ob('C06.e', ed, rf.ast, ok, text=f'window scan: after a refuted remainder the window is still matched against the delimiter', detail='' if ok else
                 'when the data refutes the carried remainder the window start advances without the window having been searched for the '
                 'real delimiter: a delimiter that follows a look-alike (CR, CRLF, CRLF--x) is missed and two parts merge',
                 why='data rich in partial boundary look-alikes must parse the same whatever the division', key_extra=f'loop{i}')
        else:
            # tail block: after refutation the tail must still be submitted to match_tail: no `part = None` on the way and the call reached
            nulls = [n for n in g.nodes if n.kind == 'stmt' and isinstance(n.ast, ast.Assign) and is_const(n.ast.value, None)
                     and any(dotted(t) == er['part'] for t in n.ast.targets)]
            on_path = [n for n in nulls if g.can_reach(rf, n) and tail and g.can_reach(n, tail[0])]
            reach_tail = bool(tail) and g.can_reach(rf, tail[0])
            # refutation of a remainder *longer or equal* than the tail leaves nothing to scan only if the tail was compared whole
            ok = reach_tail and not on_path
            R.ob('C06.e', ed, rf.ast, ok, text='chunk tail: after a refuted remainder the tail is still matched against the delimiter head', detail='' if ok else
                 'on the path where the short chunk tail refutes the carried remainder the tail is discarded (`part = None`) before '
                 'match_tail: a delimiter starting in that tail is not carried over to the next chunk',
                 key_extra=f'tail{i}')
    # the tail result becomes the new remainder
    ok = False
    for n in tail:
        res = [d.name for d in rd.gen.get(n, [])]
        if res:
            nm = res[0]
            ok = any(isinstance(m.ast, ast.Assign) and (isinstance(m.ast.value, ast.Tuple) or er['trest_len'] is None) and nm in names_loaded(m.ast.value)
                     and {dotted(e) for t in m.ast.targets for e in (t.elts if isinstance(t, ast.Tuple) else [t])} == ({er['trest_len'], er['trest']} - {None})
                     for m in g.nodes if m.kind == 'stmt' and m.ast is not None)
    R.ob('C06.e', ed, tail[0].ast if tail else ed.node, ok, text='a matching tail becomes the remainder expected in the next chunk', detail='' if ok else
         'the part of the delimiter seen at the end of the chunk is not remembered')

    # ---- h: chunk-relative positions are ordered / clamped only together with the absolute position
    imf = P.func(f'{MP}:BodyMarkuper.iter_markup')
    gi, rdi = imf.cfg, imf.rd
    rel = set()
    for n in gi.nodes:
        for d in rdi.gen.get(n, []):
            if d.kind == 'assign' and isinstance(d.value, ast.Call) and isinstance(d.value.func, ast.Name) and state.get(d.value.func.id) == 'cur_meth':
                rel.add(d.name)
    R.require(rel, 'iter_markup: result of the section eater not found')
    n_h = 0
    for n in gi.nodes:
        if n.kind == 'test':
            for x in ast.walk(n.ast):
                cp = compare_parts(x)
                if cp and cp[1] in (ast.Lt, ast.LtE, ast.Gt, ast.GtE, ast.Eq, ast.NotEq) and isinstance(cp[2], ast.Constant) and isinstance(cp[2].value, int) \
                        and not isinstance(cp[2].value, bool):
                    names = names_loaded(cp[0])
                    if names & rel and 'abspos' not in src(cp[0]):
                        n_h += 1
                        R.ob('C06.h', imf, x, False, detail=
                             f'the chunk-relative position `{short(cp[0])}` is compared with {cp[2].value} on its own: whether it is negative / zero '
                             f'depends on where the chunk started, not on the body; the test must be on the absolute offset (self.abspos + ...)',
                             why='section offsets must not depend on the division into chunks')
                    elif names & rel or any(any(isinstance(dd.value, ast.BinOp) and names_loaded(dd.value) & rel and 'abspos' in src(dd.value)
                                                for dd in rdi.at(n, nm)) for nm in names):
                        n_h += 1
                        R.ob('C06.h', imf, x, True, text=f'{short(x)} [absolute offset]')
    for n in gi.nodes:
        for d in rdi.gen.get(n, []):
            if d.name in rel and d.kind == 'assign' and not (isinstance(d.value, ast.Call)):
                ok = 'abspos' in src(d.value)
                n_h += 1
                R.ob('C06.h', imf, d.stmt, ok, detail='' if ok else
                     f'the chunk-relative position `{d.name}` is overwritten with `{short(d.value)}`, which ignores the absolute position: the '
                     f'correction is right only for the first chunk',
                     why='section offsets must not depend on the division into chunks')
    R.require(n_h >= 2, f'C06.h: {n_h} instances (2 on the pinned tree)')

    check_extra_state(P, R, 'C06.e', 'C06.c')

    # ---- f
    check_scanner_fed(P, R, 'C06.f')

    # ---- g: header terminator cut by the chunk end
    check_end_headers(P, R, consts)
    from . import c04
    c04.check_reader_premise(P, R, 'C06.f', 'the scanner is fed the whole body however the stream fragments its reads: a short read must not end the body early')


def check_end_headers(P, R, consts):
    m = P.module(MP)
    f = P.func(f'{MP}:HeadersEaeter._eat_headers')
    pat_node = None
    pname = None
    for c in walk_shallow(f.node):
        if isinstance(c, ast.Call) and call_attr(c) == 'search' and isinstance(c.func.value, ast.Name) and c.func.value.id in m.assigns:
            pname = c.func.value.id
            pat_node = RX.compiled_pattern_arg(m.assigns[pname][0])
    R.require(pat_node is not None, '_eat_headers: compiled terminator pattern not found')
    lits = RX.pattern_literal(pat_node)
    R.require(lits and isinstance(lits[0], bytes), 'terminator pattern is not a bytes literal')
    pat = lits[0]
    crlf2 = consts['CRLFx2']
    # constant evaluation of the literal pattern on the four fixed strings (stdlib re on a literal; no package code runs)
    rx = _re.compile(pat)
    full = rx.search(b'xx' + crlf2)
    ok = full is not None and full.group(1) == crlf2
    R.ob('C06.g', f, pat_node, ok, text=f'{pname} finds a complete CRLFCRLF (group 1)', detail='' if ok else 'the pattern does not find a complete header terminator')
    for k in range(1, len(crlf2)):
        head = crlf2[:k]
        mo = rx.search(b'Header: v' + head)
        ok = mo is not None and mo.group(1) is None and mo.group(2) == head
        R.ob('C06.g', f, pat_node, ok, text=f'chunk ending in {head!r}: recognised as cut terminator (group 2)', detail='' if ok else
             f'a chunk that ends with {head!r} (the first {k} byte(s) of CRLFCRLF) is not recognised as a header terminator cut by the read '
             f'boundary (group 2 = {mo.group(2) if mo else None!r}): the end of that part\'s headers is lost when the boundary falls there',
             why='a read boundary inside CRLFCRLF must not change the result', key_extra=repr(head))
    # expected continuation = CRLFx2[len(head):]
    stores = [st for st in walk_shallow(f.node) if isinstance(st, ast.Assign) and any(dotted(t) == 'self.headers_end_expected' for t in st.targets)
              and not is_const(st.value, None)]
    ok = False
    det = 'the continuation expected in the next chunk is not computed from the part already seen'
    for st in stores:
        v = st.value
        if isinstance(v, ast.Subscript) and src(v.value) == 'CRLFx2' and isinstance(v.slice, ast.Slice) and v.slice.lower is not None \
                and src(v.slice.lower).startswith('len('):
            ok, det = True, ''
        elif (isinstance(v, ast.Call) and call_attr(v) == 'get' and isinstance(v.func.value, ast.Name) and v.func.value.id in m.assigns) or \
                (isinstance(v, ast.Subscript) and isinstance(v.value, ast.Name) and v.value.id in m.assigns and not isinstance(v.slice, ast.Slice)):
            tname_ = v.func.value.id if isinstance(v, ast.Call) else v.value.id
            try:
                tbl = T.peval(m.assigns[tname_][0], {k: ast.Constant(value=val) for k, val in consts.items()})
            except T.CannotEval:
                tbl = None
            if isinstance(tbl, dict):
                missing = [crlf2[:k] for k in range(1, len(crlf2)) if tbl.get(crlf2[:k]) != crlf2[k:]]
                ok = not missing
                det = '' if ok else f'the continuation table has no (or a wrong) entry for the cut terminator head(s) {missing}'
        elif isinstance(v, ast.Subscript) and isinstance(v.slice, ast.Slice) and 'expected' in src(v.value):
            continue
    R.ob('C06.g', f, stores[0] if stores else f.node, ok, text='headers_end_expected = CRLFx2[len(head seen):]', detail=det)
    # a pending continuation that was found (the header end is reported) must be cleared before the position is returned
    gh, rdh = f.cfg, f.rd
    pend = [n for n in gh.nodes if n.kind == 'test' and compare_parts(n.ast) and is_const(compare_parts(n.ast)[2], None)
            and compare_parts(n.ast)[1] in (ast.Is, ast.IsNot) and isinstance(compare_parts(n.ast)[0], ast.Name)
            and any(d.value is not None and dotted(d.value) == 'self.headers_end_expected' for d in rdh.at(n, compare_parts(n.ast)[0].id))]
    clears = [n for n in gh.nodes if n.kind == 'stmt' and isinstance(n.ast, ast.Assign) and any(dotted(t) == 'self.headers_end_expected' for t in n.ast.targets)
              and is_const(n.ast.value, None)]
    pos_rets = [n for n in gh.nodes if n.kind == 'stmt' and isinstance(n.ast, ast.Return) and n.ast.value is not None and not is_const(n.ast.value, None)]
    if pend:
        for pt in pend:
            lab = 'true' if compare_parts(pt.ast)[1] is ast.IsNot else 'false'      # something is pending
            for r in pos_rets:
                reach_uncleared = any(gh.can_reach(s_, r, avoid_nodes=clears) for s_ in T.succ_by_label(pt, lab))
                if not any(gh.can_reach(s_, r) for s_ in T.succ_by_label(pt, lab)):
                    continue
                R.ob('C06.g', f, r.ast, not reach_uncleared, text=f'`{short(r.ast)}`: the pending header-end continuation is cleared before the end is reported',
                     detail='' if not reach_uncleared else
                     'the header end completed across a chunk boundary is reported while the carried continuation stays set: the next part\'s header scan starts '
                     'with a stale continuation and that part (and what follows) is lost or refused',
                     why='a read boundary inside CRLFCRLF must not change the result', key_extra='clear-on-found')

    # where the header block ends once the pending continuation has arrived: the terminator began len(CRLFCRLF) - len(continuation) bytes before this chunk,
    # i.e. at  base + len(continuation) - len(CRLFCRLF)  (a linear identity, checked symbolically)
    from .c19 import Lin
    crlf2_len = len(consts['CRLFx2'])

    def lin(e, at, keep=()):
        e = T.expand(f, e, at, keep=tuple(f.params) + tuple(keep))
        return _lin(e)

    def _lin(e):
        if isinstance(e, ast.Constant) and isinstance(e.value, int):
            return Lin(e.value)
        if isinstance(e, ast.Name):
            try:
                v_ = T.ceval(f, e)
                if isinstance(v_, int):
                    return Lin(v_)
            except T.CannotEval:
                pass
            return Lin.sym(e.id)
        if isinstance(e, ast.Call) and dotted(e.func) == 'len' and len(e.args) == 1:
            try:
                v_ = T.ceval(f, e.args[0])
                if isinstance(v_, (bytes, str)):
                    return Lin(len(v_))
            except T.CannotEval:
                pass
            return Lin.sym('len(' + src(e.args[0]) + ')')
        if isinstance(e, ast.BinOp) and isinstance(e.op, (ast.Add, ast.Sub)):
            l_, r_ = _lin(e.left), _lin(e.right)
            if l_ is None or r_ is None:
                return None
            return l_ + r_ if isinstance(e.op, ast.Add) else l_ - r_
        if isinstance(e, ast.UnaryOp) and isinstance(e.op, ast.USub):
            v_ = _lin(e.operand)
            return None if v_ is None else Lin(0) - v_
        return None
    for pt in pend:
        pname = compare_parts(pt.ast)[0].id
        for r in pos_rets:
            # the return under `chunk_start == <pending>`
            eqs = [t for t in gh.nodes if t.kind == 'test' and compare_parts(t.ast) and compare_parts(t.ast)[1] is ast.Eq and
                   pname in (src(compare_parts(t.ast)[0]), src(compare_parts(t.ast)[2])) and gh.edge_dominates(t, 'true', r)]
            if not eqs:
                continue
            got = lin(r.ast.value, r, keep=(pname,))
            want = Lin.sym(f.params[2]) + Lin.sym(f'len({pname})') - Lin(crlf2_len)
            if got is None:
                R.undecided('C06.g', f, r.ast, 'header end position', f'`{short(r.ast.value)}` is not a linear expression of the chunk offset and the continuation length')
                continue
            okp = got == want
            R.ob('C06.g', f, r.ast, okp, text=f'`{short(r.ast)}` = {f.params[2]} + len({pname}) - {crlf2_len}', detail='' if okp else
                 f'the header end reported when the cut terminator is completed is `{got}`, not `{want}`: right only for the symmetric cut CRLF|CRLF; a cut after the 1st or 3rd '
                 f'byte moves the header / data border by two bytes (a field name loses its last characters, or the value its first ones)',
                 why='a read boundary inside CRLFCRLF must not change the result', key_extra='header-end-position')
    # a chunk that holds only a proper head of the pending continuation consumes that head: the continuation is shortened before waiting on
    pend_names = {compare_parts(pt.ast)[0].id for pt in pend}
    for n in gh.nodes:
        if n.kind != 'test' or n.ast is None:
            continue
        calls = [c for c in ast.walk(n.ast) if isinstance(c, ast.Call) and call_attr(c) == 'startswith' and isinstance(c.func.value, ast.Name)
                 and c.func.value.id in pend_names and c.args]
        if not calls:
            continue
        c = calls[0]
        neg = isinstance(n.ast, ast.UnaryOp) and isinstance(n.ast.op, ast.Not)
        side = T.succ_by_label(n, 'false' if neg else 'true')
        adv = [m_ for m_ in gh.nodes if m_.kind == 'stmt' and isinstance(m_.ast, ast.Assign) and any(dotted(t) == 'self.headers_end_expected' for t in m_.ast.targets)
               and isinstance(m_.ast.value, ast.Subscript) and isinstance(m_.ast.value.slice, ast.Slice) and m_.ast.value.slice.lower is not None
               and isinstance(m_.ast.value.value, ast.Name) and m_.ast.value.value.id == c.func.value.id]
        starts = [s_ for s_ in side if s_ not in adv]
        leak = bool(starts) and gh.exit in gh.reachable_from(starts, avoid_nodes=adv)
        R.ob('C06.g', f, n.ast, not leak, text=f'`{short(c)}`: the head consumed from the pending continuation is cut off before waiting for the next chunk',
             detail='' if not leak else
             f'a chunk that is a proper head of the pending continuation `{c.func.value.id}` is consumed without shortening the continuation: when CRLFCRLF is spread over '
             f'three chunks (one lying completely inside it) the next chunk is compared with bytes already seen and the header end goes unnoticed',
             why='a read boundary inside CRLFCRLF must not change the result (any number of cuts)', key_extra='advance-pending')


def check_scanner_fed(P, R, rid, why=None):
    """_body_read hands every part to the multipart scanner exactly once, in arrival order, whenever there is a scanner - on every path through
    the part loop (also the one that moves the buffer to a temporary file)"""
    br = P.func(f'{BM}:_body_read')
    g = br.cfg
    fors = [n for n in walk_shallow(br.node) if isinstance(n, ast.For)]
    R.require(fors, '_body_read: loop missing')
    lp = fors[0]
    part = lp.target.id
    head = T.loop_head(g, lp)
    parses = [c for st in lp.body for c in walk_shallow(st) if isinstance(c, ast.Call) and call_attr(c) == 'parse' and c.args and src(c.args[0]) == part]
    R.require(parses, f'_body_read: no <scanner>.parse({part}) in the part loop')
    recv = parses[0].func.value
    pnodes = [g.node_of_stmt(c)[0] for c in parses]
    none_edges = set()
    if isinstance(recv, ast.Name):
        for tn in g.nodes:
            if tn.kind != 'test' or tn.ast is None:
                continue
            e = T.expand(br, tn.ast, tn)
            neg = False
            while isinstance(e, ast.UnaryOp) and isinstance(e.op, ast.Not):
                e, neg = e.operand, not neg
            cp = compare_parts(e)
            if cp and isinstance(cp[0], ast.Name) and cp[0].id == recv.id and isinstance(cp[2], ast.Constant) and cp[2].value is None and cp[1] in (ast.Is, ast.IsNot):
                is_none_on_true = (cp[1] is ast.Is) != neg
                none_edges.add((tn, 'true' if is_none_on_true else 'false'))
    first = T.succ_by_label(head, 'iter')
    skipping = [s_ for s_ in first if s_ not in pnodes and head in g.reachable_from([s_], avoid_nodes=pnodes, avoid_edges=none_edges)]
    # the exceptional exits do not count: a pass that raises presents no body at all
    skipping = [s_ for s_ in skipping if head in g.reachable_from([s_], avoid_nodes=pnodes, avoid_edges=none_edges, labels_skip=('exc',))]
    twice = [(a_, b_) for a_ in pnodes for b_ in pnodes if any(m_ is b_ or g.can_reach(m_, b_, avoid_nodes=[head]) for (m_, lab_) in a_.succ if lab_ != 'exc' and m_ is not head)]
    # no other condition than the presence of a scanner
    other = []
    for pn in pnodes:
        for (e, holds, tn) in T.guard_atoms(br, pn, within=lp):
            cp = compare_parts(e)
            if not (cp and isinstance(cp[0], ast.Name) and isinstance(recv, ast.Name) and cp[0].id == recv.id and isinstance(cp[2], ast.Constant) and cp[2].value is None):
                if len(parses) == 1:
                    other.append(e)
    ok = not skipping and not twice and not other
    det = ''
    if skipping:
        det = (f'a pass of the part loop can reach the next part without `{short(parses[0])}` although a scanner is present (e.g. the pass that moves the buffer to a '
               f'temporary file): the scanner never sees that part, every delimiter inside it is lost and all later section offsets are short by its length')
    elif twice:
        det = 'a pass of the part loop can feed the same part to the scanner twice'
    elif other:
        det = f'feeding the scanner also depends on `{short(other[0])}`'
    kw = dict(why=why) if why else {}
    R.ob(rid, br, parses[0], ok, text=f'markup.parse({part}) once per part, in the iteration that buffers it', detail=det or ('' if ok else
         'the scanner is not fed every part exactly once in arrival order'), **kw)
