"""C11 - The router after any edit history equals a freshly built router."""
import ast

from ..astutil import (walk_shallow, dotted, call_attr, short, src, stmt_of, names_loaded, is_const, enclosing,
                       compare_parts, strip_not, const, bool_operands)
from ..loader import AnalysisError
from .. import rules as T
from . import c01

ID = 'C11'
TECHNIQUE = 'sibling-consistency cross-check, must-pass under a path condition, no-raise-after-mutation CFG query, paired index updates'
DECIDED = ('(a) the three places that decide whether a tree node still carries something (the prune test of '
           'RadiDict.remove, the guard of _try_merge, the yield test of _routes_iter) consult the same payload slots '
           '{DATA, HOOKS}; (b) on every path of RadiDict.remove with hooks_only true and a matched node the hook slot is '
           'cleared before the function ends; (c) in RadiRouter._add no explicit raise is reachable after a mutation of '
           'router state (tree insertion, indexes, method table): a rejected registration leaves no residue; (d) every tree '
           'operation of RadiRouter is paired on every normal path with the update of the corresponding index (routes, '
           'named routes incl. all names of a removed route, hooks); (e) child list and index string of a node change '
           'together, including _split and _try_merge; (f) hooks are collected in descent order with their path position, '
           'invoked in that order with the matched prefix, and the look-back restores copies.')
DECIDED_MORE = ("Also: no rejection after the first store into a route's method table; the PARAMS slot is written only when a route is stored; a memo kept by resolve() is dropped by every tree-editing method.")
DECIDED = DECIDED + ' ' + DECIDED_MORE
DECIDED_R6 = ('Round 6: a node is folded into its child only for exactly one child; every (name, route) is examined on removal; the hook set installed and the one the tree delivers are one object.')
DECIDED = DECIDED + ' ' + DECIDED_R6
DECIDED_R7 = ("Round 7: remove(hooks_only=True) leaves a route alone; route name bound after the last rejecting call; no slot cleared after a merge; registered Route fresh or the tree's.")
DECIDED = DECIDED + ' ' + DECIDED_R7
DECIDED_R8 = ('Round 8: the hook prefix is cut from the routed string; the routes index is filtered by the prefix the tree was cut at; the named route is the route _add returns.')
DECIDED = DECIDED + ' ' + DECIDED_R8
DECIDED_R9 = ('Round 9: whatever leaves the routes index has left the tree on every path; a DATA store in `_set` is followed by the PARAMS store on every path (d); the named route is the object the handlers were registered on (c).')
DECIDED = DECIDED + ' ' + DECIDED_R9
NOT_DECIDED = ('equality with a freshly built router over all edit histories (correctness of node splitting / merging beyond '
               'the pairing rules); prefix-wildcard removal of hooks (specified for routes only).')
ASSUMPTIONS = ['list/dict operations behave as in CPython']

RD = 'ombott.router.radidict'
RR = 'ombott.router.radirouter'
OM = 'ombott.ombott'


def payload_slots(expr):
    """slot names among DATA/HOOKS/IDX read as node[SLOT] in expr"""
    out = set()
    for x in ast.walk(expr):
        s = c01.slot_name(x)
        if s in ('DATA', 'HOOKS', 'IDX'):
            out.add(s)
    return out


def check(P, R):
    R.rule('C11.a', 'one notion of live node', floor=3)
    R.rule('C11.b', 'remove(hooks_only=True) always clears the hook', floor=1)
    R.rule('C11.c', 'validate before mutate', floor=1)
    R.rule('C11.d', 'tree operation and indexes change together', floor=7)
    R.rule('C11.e', 'index string / children pairing', floor=5)
    R.rule('C11.f', 'hook delivery', floor=5)
    c01.slot_consts(P)

    rm = P.func(f'{RD}:RadiDict.remove')
    g, rd = rm.cfg, rm.rd
    # ---- a
    prune = []
    for n in g.nodes:
        if n.kind == 'test' and enclosing(n.owner, ast.For) is not None and payload_slots(n.ast) and 'DATA' in payload_slots(n.ast):
            # the test that decides to delete the node from its parent: its pass edge assigns the key to delete
            for lab in ('true', 'false'):
                for s in T.succ_by_label(n, lab):
                    if s.kind == 'stmt' and isinstance(s.ast, ast.Assign) and '[KEY]' in src(s.ast.value):
                        prune.append(n)
    R.require(prune, 'RadiDict.remove: prune test not found')
    tm = P.func(f'{RD}:RadiDict._try_merge')
    guards = [n for n in tm.cfg.nodes if n.kind == 'test']
    R.require(guards, '_try_merge: guard not found')
    ri = P.func(f'{RD}:RadiDict._routes_iter')
    ytests = [n for n in ri.cfg.nodes if n.kind == 'test' and 'DATA' in payload_slots(n.ast) and any(
        y in ri.cfg.reachable_from(T.succ_by_label(n, 'true')) for y in T.yield_nodes(ri.cfg))]
    R.require(ytests, '_routes_iter: yield test not found')
    # a prefix node is folded into its child only when that child is its only one: on the path to the fold, `len(<node>[IDX]) == 1` holds
    fold = [n for n in tm.cfg.nodes if n.kind == 'stmt' and isinstance(n.ast, ast.Assign) and any(
        isinstance(t, ast.Subscript) and isinstance(t.slice, ast.Slice) and t.slice.lower is None and t.slice.upper is None and src(t.value) == tm.params[1] for t in n.ast.targets)]
    for fn_ in fold:
        single = False
        others = []
        for (e_, holds_, _t) in T.guard_atoms(tm, fn_):
            cp_ = compare_parts(e_)
            if cp_ and isinstance(cp_[0], ast.Call) and dotted(cp_[0].func) == 'len' and 'IDX' in src(cp_[0]) and isinstance(cp_[2], ast.Constant):
                k_ = cp_[2].value
                est = (cp_[1] is ast.Eq and holds_ and k_ == 1) or (cp_[1] is ast.NotEq and not holds_ and k_ == 1) or \
                    (cp_[1] is ast.Gt and not holds_ and k_ == 1) or (cp_[1] is ast.GtE and not holds_ and k_ == 2) or (cp_[1] is ast.Lt and holds_ and k_ == 2) or \
                    (cp_[1] is ast.LtE and holds_ and k_ == 1)
                single = single or est
                if not est:
                    others.append((e_, holds_))
        R.ob('C11.d', tm, fn_.ast, single, text=f'`{short(fn_.ast)}` only for a node with exactly one child', detail='' if single else
             f'the node is folded into its first child although the guard only establishes {[("not " if not h_ else "") + short(e_) for e_, h_ in others] or "nothing about the number of children"}: '
             f'with two children left after a removal the second subtree vanishes from the tree while routes / named_routes still list it (its path answers 404)',
             why='survivors are intact after any removal', key_extra='fold-single-child')
    # what the guard of _try_merge establishes is read off the facts that hold where the fold happens (a negative guard with an early return and a positive
    # condition kept in flags give the same facts)
    class _Facts:
        ast = None
    merge_facts = _Facts()
    facts_expr = []
    for fn_ in fold:
        for (e_, holds_, _t) in T.guard_atoms(tm, fn_):
            if not holds_ and not (compare_parts(e_)):
                facts_expr.append(e_)            # a slot read that is falsy here: the node carries nothing in it
            elif holds_ and isinstance(e_, ast.UnaryOp):
                facts_expr.append(e_.operand)
    merge_facts.ast = ast.Tuple(elts=facts_expr, ctx=ast.Load()) if facts_expr else guards[0].ast
    sites = [('prune test of remove', rm, prune[0]), ('guard of _try_merge', tm, merge_facts if fold else guards[0]), ('yield test of _routes_iter', ri, ytests[0])]
    for (role, fn, n) in sites:
        have = payload_slots(n.ast) & {'DATA', 'HOOKS'}
        ok = have == {'DATA', 'HOOKS'}
        R.ob('C11.a', fn, n.ast if getattr(n.ast, 'lineno', None) else (fold[0].ast if fold else fn.node), ok, text=f'{role}: payload slots {sorted(have)}', detail='' if ok else
             f'{role} ignores {sorted({"DATA", "HOOKS"} - have)}: a node that only carries a route hook is treated as empty '
             f'(pruned / merged into its child) although the hook index still lists it',
             why='hooks survive the removal of routes around them; a fresh router built from the survivors fires them',
             key_extra=role)

    # a node created by a split is a bare prefix: it must not keep the route data or the hook of the node it was split from
    sp = P.func(f'{RD}:RadiDict._split')
    fresh = [c for c in T.calls_to(sp, 'self._make_node', '_make_node', 'RadiDict._make_node') if not any(k.arg in ('data', 'hooks') for k in c.keywords)]
    whole = [st for st in walk_shallow(sp.node) if isinstance(st, ast.Assign) and isinstance(st.targets[0], ast.Subscript) and isinstance(st.targets[0].slice, ast.Slice)
             and st.targets[0].slice.lower is None and any(st.value is c for c in fresh)]
    if whole:
        R.ob('C11.a', sp, whole[0], True, text='_split: prefix node rebuilt by _make_node (no data, no hooks)')
    else:
        for slot in ('DATA', 'HOOKS'):
            resets = [st for st in walk_shallow(sp.node) if isinstance(st, ast.Assign) and c01.slot_name(st.targets[0]) == slot and is_const(st.value, None)]
            R.ob('C11.a', sp, resets[0] if resets else sp.node, bool(resets), text=f'_split: prefix node [{slot}] reset', detail='' if resets else
                 f'the node is split in place without clearing its [{slot}] slot: the new prefix node keeps the payload of the node it was split from (a hook then '
                 f'fires for sibling routes that do not extend its rule, and twice for those that do)',
                 why='a route hook fires for exactly those matched routes whose rule extends the hook\'s rule', key_extra='split-' + slot)

    # ---- b: must-pass under hooks_only == True
    hp = 'hooks_only'
    R.require(hp in rm.params, 'RadiDict.remove: hooks_only parameter missing')
    avoid = set()
    for n in g.nodes:
        if n.kind == 'test':
            t, neg = strip_not(n.ast)
            if isinstance(t, ast.Name) and t.id == hp:
                avoid.add((n, 'true' if neg else 'false'))
            elif isinstance(t, ast.BoolOp) and isinstance(t.op, ast.And) and any(isinstance(v, ast.Name) and v.id == hp for v in t.values) and not neg:
                pass  # `hooks_only and X` false edge is still feasible (X false)
    clears = [n for n in g.nodes if n.kind == 'stmt' and isinstance(n.ast, ast.Assign) and any(
        c01.slot_name(t) == 'HOOKS' for t in n.ast.targets) and is_const(n.ast.value, None)]
    # exits that mean "no node matched" are exempt: returns under the mismatch test
    exempt = [n for n in g.nodes if n.kind == 'stmt' and isinstance(n.ast, ast.Return) and enclosing(n.ast, ast.If) is not None
              and 'mismatch' in src(enclosing(n.ast, ast.If).test) and 'hooks_only' not in src(enclosing(n.ast, ast.If).test)]
    ok = bool(clears) and not g.can_reach(g.entry, g.exit, avoid_nodes=clears + exempt, avoid_edges=avoid)
    R.ob('C11.b', rm, clears[0].ast if clears else rm.node, ok, text='hooks_only=True: every path with a matched node executes node[HOOKS] = None', detail='' if ok else
         'with hooks_only=True there is a path to the end of remove() on which the matched node keeps its hook (e.g. a node that '
         'holds a hook but no route): the hook index forgets it, the tree keeps firing it',
         why='removed hooks are gone')

    # nothing in the tree is touched unless the pattern led to a node: with a mismatch (and no prefix removal) remove() changes nothing; a prefix
    # removal on a PARTIAL mismatch happens only when the node's key continues the pattern
    # by role: the element of the _match() result that is compared with MismatchType.<X>; the flag set to True where the trailing `*` is cut off
    from_match = {d.name for n in g.nodes for d in rd.gen.get(n, []) if d.kind in ('unpack', 'assign') and d.value is not None
                  and any(isinstance(x, ast.Call) and dotted(x.func) == 'self._match' for x in ast.walk(d.value))}
    mm_names = {cp_[0].id for n in g.nodes if n.kind == 'test' for e_ in ast.walk(n.ast) for cp_ in [compare_parts(e_)]
                if cp_ and isinstance(cp_[0], ast.Name) and cp_[0].id in from_match and 'MismatchType' in src(cp_[2])}
    wild_names = {d.name for n in g.nodes for d in rd.gen.get(n, []) if d.kind == 'assign' and d.value is not None
                  and (any(isinstance(x, ast.Call) and call_attr(x) == 'endswith' for x in ast.walk(d.value)) or is_const(d.value, True))
                  and any(is_const(d2.value, False) for n2 in g.nodes for d2 in rd.gen.get(n2, []) if d2.name == d.name)}
    muts_rm = [n for n in g.nodes if n.kind == 'stmt' and ((isinstance(n.ast, ast.Assign) and any(c01.slot_name(t) in ('HOOKS', 'DATA', 'IDX') for t in n.ast.targets))
                                                          or (isinstance(n.ast, ast.Delete) and 'OFFSET' in src(n.ast)))]
    if mm_names and muts_rm:
        mmn = sorted(mm_names)[0]

        def atom_nomatch(e):
            # assumption: the pattern did not lead to a node, and this is not a prefix (wildcard) removal
            if isinstance(e, ast.Name) and e.id == mmn:
                return True
            if isinstance(e, ast.Name) and e.id in wild_names:
                return False
            return None

        def atom_partial_elsewhere(e):
            # assumption: prefix removal, the pattern ends inside a node's key, and that key does NOT continue the pattern
            if isinstance(e, ast.Name) and e.id == mmn:
                return True
            if isinstance(e, ast.Name) and e.id in wild_names:
                return True
            cp_ = compare_parts(e)
            if cp_ and isinstance(cp_[0], ast.Name) and cp_[0].id == mmn and 'PARTIAL' in src(cp_[2]):
                return cp_[1] is ast.Eq
            if isinstance(e, ast.Call) and call_attr(e) == 'startswith':
                return False
            return None
        for n_ in muts_rm:
            r1 = T.reachable_assuming(rm, n_, atom_nomatch)
            R.ob('C11.b', rm, n_.ast, not r1, text=f'`{short(n_.ast)}` only when the pattern led to a node', detail='' if not r1 else
                 f'`{short(n_.ast)}` is executed although the pattern matched no node (mismatch) : the node where matching stopped - an ancestor or a sibling - '
                 f'loses its hook / route (removing a hook twice wipes the hook of the parent prefix)',
                 why='survivors stay intact', key_extra='no-match:' + short(n_.ast, 40))
            if isinstance(n_.ast, ast.Delete) or any(c01.slot_name(t) == 'IDX' for t in getattr(n_.ast, 'targets', [])):
                r2 = T.reachable_assuming(rm, n_, atom_partial_elsewhere)
                R.ob('C11.b', rm, n_.ast, not r2, text=f'`{short(n_.ast)}` (prefix removal) not when the node key does not continue the pattern', detail='' if not r2 else
                     f'the whole subtree is deleted on a PARTIAL mismatch without checking that the node\'s key starts with the rest of the prefix: '
                     f'remove(\'/api/usage*\') wipes /api/users, /api/user-groups, /api/user/:id',
                     why='survivors stay intact', key_extra='partial:' + short(n_.ast, 40))
    # _match: a rule's filter list is compared with the node's filter at every wildcard position
    mt_ = P.func(f'{RD}:RadiDict._match')
    for tn in mt_.cfg.nodes:
        if tn.kind != 'test':
            continue
        ops_ = bool_operands(tn.ast, ast.And)
        cmp_ = [x for x in ops_ if compare_parts(x) and compare_parts(x)[1] is ast.NotEq and c01.slot_name(compare_parts(x)[0]) == 'FILTER']
        if not cmp_:
            continue
        extra_ = [x for x in ops_ if x not in cmp_ and not isinstance(x, ast.Name)]
        R.ob('C11.e', mt_, tn.ast, not extra_, text='filter mismatch decided by `node[FILTER] != rule filter` whenever filters are given', detail='' if not extra_ else
             f'the comparison is additionally conditioned on `{short(extra_[0])}`: a rule without a filter at that position is accepted on a node that has one '
             f'and silently shares its filter - after the filtered route is removed the survivor still matches only what the old filter accepted',
             why='the edited router equals a freshly built one', key_extra='filter-compare')

    # ---- c: no raise after mutation in _add
    ad = P.func(f'{RR}:RadiRouter._add')
    ag = ad.cfg
    muts = []
    for n in ag.nodes:
        if n.ast is None or n.kind != 'stmt':
            continue
        a = n.ast
        for x in walk_shallow(a):
            if isinstance(x, ast.Call) and dotted(x.func) in ('self.radidict.add', 'self.radidict.add_hooks'):
                muts.append(n)
            if isinstance(x, ast.Call) and isinstance(x.func, ast.Attribute) and x.func.attr in ('set_method', 'add_method') \
                    and isinstance(x.func.value, ast.Name):
                muts.append(n)
            if isinstance(x, ast.Call) and isinstance(x.func, ast.Name) and ad.rd.is_local(x.func.id) and any(
                    isinstance(y, ast.Attribute) and y.attr in ('set_method', 'add_method') for y in ad.rd.closure_nodes(x.func, n, follow_mut=False)):
                muts.append(n)      # the bound method picked into a local first
        if isinstance(a, ast.Assign) and any(isinstance(t, ast.Subscript) and dotted(t.value) in ('self.routes', 'self.named_routes', 'self.hooks') for t in a.targets):
            muts.append(n)
    R.require(len(muts) >= 4, f'_add: {len(muts)} mutation sites found (5 on the pinned tree)')
    raises = [n for n in ag.nodes if n.kind == 'stmt' and isinstance(n.ast, ast.Raise)]
    if not raises:
        R.ob('C11.c', ad, ad.node, True, text='no explicit raise in _add', nontrivial=False)
    for r in raises:
        before = [m for m in muts if ag.can_reach(m, r)]
        ok = not before
        R.ob('C11.c', ad, r.ast, ok, detail='' if ok else
             f'this rejection is reachable after `{short(before[0].ast, 60)}` already changed the router: the caller sees the add '
             f'rejected, yet the rule resolves / is listed',
             why='a rejected registration must leave the router as it was')
    # the same discipline one level down: the method table of a Route is checked as a whole before any of it is stored
    rt = P.cls(f'{RR}:Route')
    raisers = {m_.name for m_ in rt.methods.values() if any(isinstance(x, ast.Raise) for x in walk_shallow(m_.node))}
    storers = {m_.name for m_ in rt.methods.values() if any(isinstance(st, ast.Assign) and any(
        isinstance(t, ast.Subscript) and dotted(t.value) == 'self._methods' for t in st.targets) for st in walk_shallow(m_.node))}
    n_reg = 0
    for m_ in rt.methods.values():
        if m_.name in ('remove_method', '__getitem__', '__init__') or m_.name.startswith('remove'):
            continue
        mg = m_.cfg
        mut_n, raise_n = [], []
        for n in mg.nodes:
            if n.ast is None or n.kind not in ('stmt', 'test'):
                continue
            for x in walk_shallow(n.ast):
                if isinstance(x, ast.Call) and isinstance(x.func, ast.Attribute) and isinstance(x.func.value, ast.Name) and x.func.value.id == 'self':
                    if x.func.attr in storers and x.func.attr != m_.name:
                        mut_n.append(n)
                    if x.func.attr in raisers and x.func.attr not in storers:
                        raise_n.append(n)
            if isinstance(n.ast, ast.Assign) and any(isinstance(t, ast.Subscript) and dotted(t.value) == 'self._methods' for t in n.ast.targets):
                mut_n.append(n)
            if isinstance(n.ast, ast.Raise):
                raise_n.append(n)
        if not mut_n:
            continue
        n_reg += 1
        bad = [(a_, b_) for a_ in mut_n for b_ in raise_n if a_ is not b_ and mg.can_reach(a_, b_)]
        R.ob('C11.c', m_, bad[0][1].ast if bad else m_.node, not bad, text=f'Route.{m_.name}: every rejection precedes the first store into the method table',
             detail='' if not bad else
             f'`{short(bad[0][1].ast, 60)}` can reject the registration after `{short(bad[0][0].ast, 60)}` has already stored an entry: add(rule, [free, taken], h) raises, '
             f'yet the free method stays registered with h on the existing route',
             why='a rejected registration must leave the router as it was', key_extra=f'route-atomic:{m_.name}')
    R.require(n_reg >= 2, f'{n_reg} registration methods of Route found (3 on the pinned tree)')
    # installing hooks on a node that already carries a route leaves the route's parameter names alone
    st_ = P.func(f'{RD}:RadiDict._set')
    sg = st_.cfg
    pstores = [n for n in sg.nodes if n.kind == 'stmt' and isinstance(n.ast, ast.Assign) and any(
        isinstance(t, ast.Subscript) and c01.slot_name(t) == 'PARAMS' for t in n.ast.targets)]
    dpar = 'data' if 'data' in st_.params else None
    if dpar is None:
        R.undecided('C11.d', st_, st_.node, 'RadiDict._set', 'no `data` parameter: the route / hook distinction of the call has no recogniser')
    for n in pstores:
        guards = [t for t in sg.nodes if t.kind == 'test' and t.ast is not None and any(
            isinstance(x, ast.Compare) and isinstance(x.left, ast.Name) and x.left.id == dpar and isinstance(x.ops[0], (ast.IsNot, ast.Is)) and is_const(x.comparators[0], None)
            for x in ast.walk(t.ast))]
        ok = any(sg.edge_dominates(t, 'true' if any(isinstance(x, ast.Compare) and isinstance(x.ops[0], ast.IsNot) for x in ast.walk(t.ast)) else 'false', n) for t in guards)
        R.ob('C11.d', st_, n.ast, ok, text=f'`{short(n.ast)}` only when a route (data) is being stored', detail='' if ok else
             f'`{short(n.ast)}` also runs when only hooks are installed on an existing node: the parameter names of the route registered there are replaced by the hook '
             f'rule\'s names (/user/:id + hook on /user/:uid -> handler gets uid), and removing the hook does not restore them',
             why='survivors are intact: the edited router answers like one freshly built from the surviving routes and hooks', key_extra='params-only-with-data')
    check_data_with_params(P, R, 'C11.d', 'a route mounted on a node is mounted with its wildcard names: the edited router answers like a freshly built one')
    # a lookup answers from the tree; if it keeps answers (a memo on the router), every operation that edits the tree drops them
    rcls = P.cls(f'{RR}:RadiRouter')
    rs_ = rcls.methods.get('resolve')
    memo_attrs = set()
    if rs_ is not None:
        for n in walk_shallow(rs_.node):
            if isinstance(n, ast.Assign):
                for t in n.targets:
                    if isinstance(t, ast.Subscript) and (dotted(t.value) or '').startswith('self.') and (dotted(t.value) or '').count('.') == 1:
                        memo_attrs.add(dotted(t.value).split('.')[1])
            elif isinstance(n, ast.Call) and call_attr(n) in ('setdefault', 'update', 'append', 'add') and (dotted(n.func.value) or '').startswith('self.') \
                    and (dotted(n.func.value) or '').count('.') == 1:
                memo_attrs.add(dotted(n.func.value).split('.')[1])
    editors = [m_ for m_ in rcls.methods.values() if m_ is not rs_ and any(
        isinstance(c, ast.Call) and (dotted(c.func) or '').startswith('self.radidict.') and call_attr(c) not in ('get', '_match', 'match', 'items', 'keys', 'values')
        for c in walk_shallow(m_.node))]
    for attr in sorted(memo_attrs):
        for m_ in editors:
            drops = [c for c in walk_shallow(m_.node) if isinstance(c, ast.Call) and call_attr(c) == 'clear' and dotted(c.func.value) == f'self.{attr}'] + \
                [st for st in walk_shallow(m_.node) if isinstance(st, ast.Assign) and any(dotted(t) == f'self.{attr}' for t in st.targets)]
            ok = bool(drops)
            R.ob('C11.d', m_, drops[0] if drops else m_.node, ok, text=f'RadiRouter.{m_.name} drops the answers kept in self.{attr}', detail='' if ok else
                 f'resolve() keeps answers in self.{attr}, and RadiRouter.{m_.name} edits the tree without dropping them: a path resolved before the edit keeps being answered '
                 f'with the old route / hook set (a hook installed afterwards does not fire, a removed one still does)',
                 why='after any edit the router answers every path like a freshly built one', key_extra=f'memo-invalidate:{attr}:{m_.name}')
    R.ob('C11.d', rs_ if rs_ is not None else rcls.fq, None, True, text=f'resolve() keeps {len(memo_attrs)} answer memo(s); {len(editors)} tree-editing methods', nontrivial=False)
    # the hook set installed on a rule is one object, seen by the tree (which delivers it) and by the registry (which lists it): whoever updates it in place must have
    # taken it from the tree, unless tree and registry are known to hold the very same object
    ah_ = P.func(f'{RR}:RadiRouter.add_hook')
    ahs = P.func(f'{RD}:RadiDict.add_hooks')
    hp_ = ahs.params[2] if len(ahs.params) > 2 else 'hooks'
    copies = []
    for c_ in walk_shallow(ahs.node):
        if isinstance(c_, ast.Call):
            for k_ in c_.keywords:
                if k_.arg == 'hooks':
                    v_ = T.expand(ahs, k_.value, ahs.cfg.node_of_stmt(c_)[0], keep=(hp_,))
                    if (isinstance(v_, ast.Call) and (dotted(v_.func) in ('list', 'tuple', 'copy.copy', 'copy.deepcopy') or call_attr(v_) == 'copy')) or \
                            (isinstance(v_, ast.Subscript) and isinstance(v_.slice, ast.Slice)):
                        copies.append(k_.value)
    inst = [c_ for c_ in walk_shallow(ah_.node) if isinstance(c_, ast.Call) and (dotted(c_.func) or '').endswith('hook_installer') and c_.args]
    for c_ in inst:
        cn_ = ah_.cfg.node_of_stmt(c_)[0]
        cl_ = ah_.rd.closure_nodes(c_.args[0], cn_, follow_mut=False)
        from_tree = any(isinstance(x, ast.Call) and (dotted(x.func) or '').endswith('_match') and any(k.arg == 'get_hooks' for k in x.keywords) for x in cl_)
        from_registry = any((isinstance(x, ast.Call) and call_attr(x) == 'get' and dotted(x.func.value) == 'self.hooks') or
                            (isinstance(x, ast.Subscript) and dotted(x.value) == 'self.hooks') for x in cl_)
        ok = from_tree or (from_registry and not copies)
        if not from_tree and not from_registry:
            R.undecided('C11.f', ah_, c_, 'add_hook', 'where the already installed hooks are taken from has no recogniser')
            continue
        R.ob('C11.f', ah_, c_, ok, text=f'`{short(c_, 60)}` updates the hook set the tree delivers', detail='' if ok else
             f'the installed hooks are taken from the registry (`self.hooks`) while RadiDict.add_hooks stores a copy (`{short(copies[0])}`) in the tree: re-installing a hook on a '
             f'rule that already has one updates the registry\'s list only - the tree keeps firing the old hook set',
             why='a route hook that was installed fires; the router answers like one freshly built from the surviving hooks', key_extra='hook-set-one-object')
    # ---- d: pairing in RadiRouter
    check_pairing(P, R)
    check_fresh_route(P, R, 'C11.d', 'after any edit history the router answers like a freshly built one')
    check_no_clear_after_merge(P, R, 'C11.d')
    check_hooks_only_keeps_route(P, R, 'C11.b')
    check_name_after_registration(P, R, 'C11.c')
    check_named_is_mounted(P, R, 'C11.c')
    # ---- e
    c01.check_idx_pairing(P, R, 'C11.e')
    # ---- f
    c01.check_lookback(P, R, 'C11.f', what=('hooks',))
    gt = P.func(f'{RD}:RadiDict.get')
    roles = c01.get_roles(P)
    apps = [c for c in walk_shallow(gt.node) if isinstance(c, ast.Call) and call_attr(c) == 'append' and dotted(c.func.value) == roles['hooks']]
    ok = len(apps) >= 2 and all(isinstance(c.args[0], ast.List) and len(c.args[0].elts) == 2 and src(c.args[0].elts[0]) == roles['cursor'] for c in apps)
    R.ob('C11.f', gt, apps[0] if apps else gt.node, ok, text=f'{len(apps)} sites append [position, hooks] in descent order', detail='' if ok else
         'hooks are not collected as [path position, hooks] after each consumed key')
    # the position recorded with a hook is the cursor *after* the key / value of that node was consumed
    gg = gt.cfg
    cur_assigns = [n for n in gg.nodes if n.kind == 'stmt' and isinstance(n.ast, ast.Assign) and any(isinstance(t, ast.Name) and t.id == roles['cursor'] for t in n.ast.targets)]
    inner_loops = [w for w in walk_shallow(gt.node) if isinstance(w, ast.While) and compare_parts(w.test) and compare_parts(w.test)[1] is ast.Lt]
    for c in apps:
        if not (T.loops_of(c) and inner_loops and T._inside(c, inner_loops[0].body)):
            continue
        an = gg.node_of_stmt(c)[0]
        head = gg.nodes_for(inner_loops[0].test)[0]
        ok = all(s is an or not gg.can_reach(s, an, avoid_nodes=cur_assigns + [head]) for s in T.succ_by_label(head, 'true'))
        R.ob('C11.f', gt, c, ok, text=f'{short(c)} after the cursor moved past this node', detail='' if ok else
             'the hook position is recorded before the cursor was advanced past the node\'s key / wildcard value: the hook receives the path prefix without '
             'the segment its rule ends with (/user/ instead of /user/42)',
             why='a hook fires with the matched path prefix', key_extra='pos-after-consume')
    for c in apps:
        t = enclosing(c, ast.If)
        okh = t is not None and isinstance(t.test, ast.Name) and any(
            isinstance(d.value, ast.Subscript) and c01.slot_name(d.value) == 'HOOKS' for d in gt.rd.at(gt.cfg.nodes_for(t.test)[0], t.test.id))
        R.ob('C11.f', gt, c, okh, text='appended only when the node has hooks', detail='' if okh else 'hook collection not guarded by node[HOOKS]')
    hd = P.func(f'{OM}:Ombott.handler')
    fors = [n for n in walk_shallow(hd.node) if isinstance(n, ast.For) and src(n.iter) == hd.params[3]]
    ok = bool(fors)
    if ok:
        lp = fors[0]
        calls = [c for st in lp.body for c in walk_shallow(st) if isinstance(c, ast.Call) and isinstance(c.func, ast.Name)]
        pos = lp.target.elts[0].id if isinstance(lp.target, ast.Tuple) and isinstance(lp.target.elts[0], ast.Name) else '?'
        ok = any(c.args and isinstance(c.args[0], ast.Subscript) and isinstance(c.args[0].slice, ast.Slice) and c.args[0].slice.lower is None
                 and T.xsrc(hd, c.args[0].slice.upper, hd.cfg.node_of_stmt(c)[0]).replace(' ', '') in (f'1+{pos}', f'{pos}+1') for c in calls) \
            and 'HookTypes.SIMPLE' in src(lp)
    R.ob('C11.f', hd, fors[0] if fors else hd.node, ok, text='handler fires hooks in list order with path[:1 + pos]', detail='' if ok else
         'route hooks are not invoked outermost-first with the matched prefix')
    # the positions collected by the router count characters of the string that was routed: the prefix is cut from that very string
    hn = P.func(f'{OM}:Ombott._handle')
    routed = None
    for c in walk_shallow(hn.node):
        if isinstance(c, ast.Call) and call_attr(c) == 'to_route' and c.args:
            routed = T.xsrc(hn, c.args[0], hn.cfg.node_of_stmt(c)[0])
    R.require(routed is not None, '_handle: the to_route(...) call was not found')

    def _canon(t, f):
        first = f.params[0] if f.params else 'self'
        for pre in (first + '.', 'self.', 'app.'):
            if t.startswith(pre):
                return t[len(pre):]
        return t
    for c in walk_shallow(hd.node):
        if isinstance(c, ast.Subscript) and isinstance(c.slice, ast.Slice) and c.slice.lower is None and c.slice.upper is not None and isinstance(c.ctx, ast.Load):
            ns = hd.cfg.node_of_stmt(c)
            if not ns:
                continue
            up = T.xsrc(hd, c.slice.upper, ns[0]).replace(' ', '')
            if not (up.startswith('1+') or up.endswith('+1')):
                continue
            cut = T.xsrc(hd, c.value, ns[0])
            okc = _canon(cut, hd) == _canon(routed, hn)
            R.ob('C11.f', hd, c, okc, text=f'`{short(c)}`: the prefix is cut from the routed string `{_canon(routed, hn)}`', detail='' if okc else
                 f'`{short(c)}` cuts `{cut}` at a position that counts characters of `{routed}` (what _handle gave to the router): where the two strings differ '
                 f'(leading slashes are normalised by request.path) the hook receives a shifted prefix',
                 why='a route hook fires with the matched path prefix', key_extra='prefix-of-routed')


def check_name_after_registration(P, R, rid):
    """`_add` binds the route name only when nothing can reject the registration any more: `add_method` refuses a method that is already registered, and a
    name bound before that call stays bound although the add was rejected"""
    f = P.func(f'{RR}:RadiRouter._add')
    g = f.cfg
    stores = [st for st in walk_shallow(f.node) if isinstance(st, ast.Assign) and any(
        isinstance(t, ast.Subscript) and dotted(t.value) == 'self.named_routes' for t in st.targets)]
    rejecting = [c for c in walk_shallow(f.node) if isinstance(c, ast.Call) and call_attr(c) == 'add_method']
    # (`register = route.set_method if overwrite else route.add_method; register(..)`)
    for c in walk_shallow(f.node):
        if isinstance(c, ast.Call) and isinstance(c.func, ast.Name) and f.rd.is_local(c.func.id):
            ns = g.node_of_stmt(c)
            if ns and any(isinstance(x, ast.Attribute) and x.attr == 'add_method' for x in f.rd.closure_nodes(c.func, ns[0], follow_mut=False)):
                rejecting.append(c)
    for st in stores:
        sn = g.node_of_stmt(st)[0]
        late = [c for c in rejecting if g.can_reach(sn, g.node_of_stmt(c)[0])]
        R.ob(rid, f, st, not late, text=f'`{short(st)}` after the last call that can reject the registration', detail='' if not late else
             f'`{short(st)}` binds the name before `{short(late[0])}`, which raises when the method is already registered on the route: the rejected add leaves the new name '
             f'bound - router[name] resolves, and remove(name=...) deletes the route that was there before',
             why='a rejected registration leaves the router as it was', key_extra='name-before-reject')


def check_data_with_params(P, R, rid, why):
    """wherever `_set` stores a route (the DATA slot) on a node it stores the rule's wildcard names (PARAMS) on every path from there to the end: a node that
    carries a route without its names matches, and hands the handler no parameters"""
    st_ = P.func(f'{RD}:RadiDict._set')
    sg = st_.cfg
    from . import c01 as _c01

    def slot_store(n, slot):
        if n.kind != 'stmt' or not isinstance(n.ast, ast.Assign):
            return False
        for t in n.ast.targets:
            if isinstance(t, ast.Subscript) and _c01.slot_name(t) == slot:
                return True
        return False
    pstores = [n for n in sg.nodes if slot_store(n, 'PARAMS')]
    dstores = [n for n in sg.nodes if slot_store(n, 'DATA')]
    # the generic form `node[item_idx] = item` inside the loop over [(DATA, data), (HOOKS, hooks)] counts as a DATA store
    for n in sg.nodes:
        if n.kind == 'stmt' and isinstance(n.ast, ast.Assign) and any(isinstance(t, ast.Subscript) and isinstance(t.slice, ast.Name) and st_.rd.is_local(t.slice.id) for t in n.ast.targets):
            lp = [l for l in T.loops_of(n.ast) if isinstance(l, ast.For)]
            if lp and 'DATA' in src(lp[0].iter):
                dstores.append(n)
    for n in dstores:
        ok = bool(pstores) and not sg.can_reach(n, sg.exit, avoid_nodes=pstores, labels_skip=('exc',)) if n not in pstores else True
        # (the PARAMS store is itself guarded by `data is not None`: a path on which data is None stores no route - ignore exits reached only that way)
        if not ok:
            dpar = 'data' if 'data' in st_.params else None
            guards = [t for t in sg.nodes if t.kind == 'test' and t.ast is not None and dpar and any(
                isinstance(x, ast.Compare) and isinstance(x.left, ast.Name) and x.left.id == dpar and isinstance(x.ops[0], (ast.IsNot, ast.Is)) and is_const(x.comparators[0], None)
                for x in ast.walk(t.ast))]
            avoid_e = set()
            for t in guards:
                none_label = 'false' if any(isinstance(x, ast.Compare) and isinstance(x.ops[0], ast.IsNot) for x in ast.walk(t.ast)) else 'true'
                avoid_e.add((t, none_label))
            ok = bool(pstores) and not sg.can_reach(n, sg.exit, avoid_nodes=pstores, avoid_edges=avoid_e, labels_skip=('exc',))
        R.ob(rid, st_, n.ast, ok, text=f'`{short(n.ast)}` is followed by the store of the rule\'s wildcard names on every path', detail='' if ok else
             f'after `{short(n.ast)}` the function can end without storing PARAMS on the node: a rule mounted on that path (e.g. one that ends inside the literal key of an '
             f'existing node, which is split for it) matches with an empty name list - the handler gets no parameters, and url() built from the match fails',
             why=why, key_extra='data-with-params')
    if not dstores:
        R.undecided(rid, st_, st_.node, 'RadiDict._set', 'no store of the DATA slot found')


def check_named_is_mounted(P, R, rid):
    """the Route bound to a name is the one `_add` returns - the mounted object (the tree's own when the rule was already there), not the freshly parsed one"""
    f = P.func(f'{RR}:RadiRouter._add')
    g, rd = f.cfg, f.rd
    stores = [st for st in walk_shallow(f.node) if isinstance(st, ast.Assign) and any(
        isinstance(t, ast.Subscript) and dotted(t.value) == 'self.named_routes' for t in st.targets)]
    rets = [n for n in g.nodes if n.kind == 'stmt' and isinstance(n.ast, ast.Return) and isinstance(n.ast.value, ast.Name)]
    # ... and the object the handlers were registered on
    regs = [c for c in walk_shallow(f.node) if isinstance(c, ast.Call) and call_attr(c) in ('add_method', 'set_method') and isinstance(c.func.value, ast.Name)]
    for st in stores:
        if not isinstance(st.value, ast.Name):
            continue
        sn = g.node_of_stmt(st)[0]
        for c in regs:
            cn = g.node_of_stmt(c)[0]
            if not (g.can_reach(cn, sn) or g.can_reach(sn, cn)):
                continue
            same = c.func.value.id == st.value.id and rd.same_defs(cn, sn, st.value.id)
            if not same:
                a_, b_ = rd.root_defs(cn, c.func.value.id), rd.root_defs(sn, st.value.id)
                same = bool(a_) and {id(x_) for x_ in a_} == {id(x_) for x_ in b_}
            R.ob(rid, f, st, same, text=f'`{short(st)}`: the named route is the object `{short(c)}` registered the handlers on', detail='' if same else
                 f'`{short(c)}` registers the handlers on `{c.func.value.id}`, `{short(st)}` binds the name to `{st.value.id}` - another object when the rule was already '
                 f'mounted: removing a method (or re-registering) through router[name] acts on a Route that is not in the tree, and the mounted one keeps answering',
                 why='lookups by name and by rule agree', key_extra=f'named-is-registered:{short(c, 30)}')
    for st in stores:
        if not isinstance(st.value, ast.Name) or not rets:
            continue
        sn = g.node_of_stmt(st)[0]
        nm = st.value.id
        ok = all(r.ast.value.id == nm and (not g.can_reach(sn, r) or rd.same_defs(sn, r, nm)) for r in rets)
        R.ob(rid, f, st, ok, text=f'`{short(st)}`: the named route is the route that is mounted and returned', detail='' if ok else
             f'`{short(st)}` binds the name to `{nm}` as it is at that point, `{short(rets[0].ast)}` hands out a later binding: when the rule is already mounted the name '
             f'points to the freshly parsed, never mounted Route - router[name] and the route that resolves (and builds URLs) are different objects',
             why='lookups by name and by rule agree', key_extra='named-is-mounted')


def check_hooks_only_keeps_route(P, R, rid):
    """remove(.., hooks_only=True) on a node that carries a route leaves the route's slots alone: with `hooks_only` true, the stores that clear DATA / PARAMS are
    reached only when the node has no route (`node[DATA] is None`)"""
    f = P.func('ombott.router.radidict:RadiDict.remove')
    g = f.cfg
    if 'hooks_only' not in f.params:
        return
    ho_tests = [(n, 'false') for n in g.nodes if n.kind == 'test' and isinstance(strip_not(n.ast)[0], ast.Name) and strip_not(n.ast)[0].id == 'hooks_only'
                and not strip_not(n.ast)[1]]
    ho_tests += [(n, 'true') for n in g.nodes if n.kind == 'test' and isinstance(strip_not(n.ast)[0], ast.Name) and strip_not(n.ast)[0].id == 'hooks_only'
                 and strip_not(n.ast)[1]]
    data_edges = []
    for n in g.nodes:
        if n.kind != 'test':
            continue
        t, neg = strip_not(n.ast)
        cp = compare_parts(t)
        if cp and isinstance(cp[0], ast.Subscript) and c01.slot_name(cp[0]) == 'DATA' and is_const(cp[2], None) and cp[1] in (ast.Is, ast.IsNot):
            has_route = 'true' if (cp[1] is ast.IsNot) != neg else 'false'
            data_edges.append((n, has_route))
        elif isinstance(t, ast.Subscript) and c01.slot_name(t) == 'DATA':
            data_edges.append((n, 'false' if neg else 'true'))
    if not ho_tests:
        R.undecided(rid, f, f.node, 'remove(hooks_only=True)', 'no test of `hooks_only` found')
        return
    for st in walk_shallow(f.node):
        if not isinstance(st, ast.Assign):
            continue
        tg = [t for t in st.targets if isinstance(t, ast.Subscript) and c01.slot_name(t) in ('DATA', 'PARAMS')]
        if not tg:
            continue
        sn = g.node_of_stmt(st)[0]
        # with hooks_only true and a route on the node (the has-route edge of every DATA test excluded): can the store still be reached?
        reach = g.can_reach(g.entry, sn, avoid_edges=set(ho_tests) | {(n, 'false' if lab == 'true' else 'true') for (n, lab) in data_edges})
        # (the avoid set removes the edges taken when hooks_only is false and when the node has no route)
        R.ob(rid, f, st, not reach, text=f'`{short(st)}`: not reached for hooks_only=True on a node that carries a route', detail='' if not reach else
             f'`{short(st)}` is executed by remove(.., hooks_only=True) also when the node carries a route: removing a route hook wipes the wildcard names (or the route) of the '
             f'rule registered on the same pattern - the route still matches but reports no parameters, and url() built from them raises KeyError',
             why='after remove_hook the router answers every path like a freshly built one', key_extra='hooks-only-keeps-route')


def check_no_clear_after_merge(P, R, rid):
    """`_try_merge(node)` may copy the only child - route, names and hooks - into `node`: a payload slot of that very node cleared afterwards (while the name
    still is that node) wipes the child that survived"""
    for f in P.all_funcs():
        if f.module.name != 'ombott.router.radidict' or isinstance(f.node, ast.Lambda):
            continue
        g, rd = f.cfg, f.rd
        merges = [c for c in walk_shallow(f.node) if isinstance(c, ast.Call) and call_attr(c) == '_try_merge' and c.args and isinstance(c.args[0], ast.Name)]
        for c in merges:
            v = c.args[0].id
            cn = g.node_of_stmt(c)[0]
            for st in walk_shallow(f.node):
                if not isinstance(st, ast.Assign):
                    continue
                tg = [t for t in st.targets if isinstance(t, ast.Subscript) and isinstance(t.value, ast.Name) and t.value.id == v
                      and c01.slot_name(t) in ('DATA', 'PARAMS', 'HOOKS')]
                if not tg:
                    continue
                sn = g.node_of_stmt(st)[0]
                redefs = [n for n in g.nodes if n is not cn and any(d.name == v for d in rd.gen.get(n, []))]
                reach = sn is not cn and any(s_ is sn or g.can_reach(s_, sn, avoid_nodes=redefs) for (s_, lab) in cn.succ if lab != 'exc' and s_ not in redefs)
                R.ob(rid, f, st, not reach, text=f'`{short(st)}` is not reached after `{short(c)}` on the same node', detail='' if not reach else
                     f'`{short(st)}` runs after `{short(c)}` while `{v}` still names the merged node: the merge has just copied the only child (its route, its parameter '
                     f'names) into that node, and the store wipes it - removing a hook from `/a/b` makes the surviving route `/a/bc` answer 404',
                     why='after any edit history the router answers every path like a freshly built one', key_extra='clear-after-merge')


def check_fresh_route(P, R, rid, why):
    """the Route object that `_add` registers for a rule is built by this call (`Route(rule)`) or is the one the tree already holds
    (`self._match(..)`): a Route kept in some other table of the router carries its old method table along, and survives remove()"""
    f = P.func(f'{RR}:RadiRouter._add')
    g, rd = f.cfg, f.rd
    sinks = [c for c in walk_shallow(f.node) if isinstance(c, ast.Call) and dotted(c.func) == 'self.radidict.add' and len(c.args) >= 2]
    R.require(sinks, '_add: self.radidict.add(pattern, route, ..) not found')
    for c in sinks:
        a = c.args[1]
        at = g.node_of_stmt(c)[0]
        bad = []
        seen = set()
        todo = [(a, at)]
        while todo:
            e, n = todo.pop()
            if isinstance(e, ast.Name) and rd.is_local(e.id):
                for d in rd.at(n, e.id):
                    if id(d) in seen:
                        continue
                    seen.add(id(d))
                    if d.value is None:
                        bad.append(d.kind)
                    else:
                        # chained assignment `route = self._parsed[rule] = Route(rule)` is one value
                        todo.append((d.value, d.node))
                continue
            if isinstance(e, ast.Call):
                callee = (dotted(e.func) or '').split('.')[-1]
                if callee == 'Route' or dotted(e.func) == 'self._match':
                    continue
                if call_attr(e) in ('get', 'pop', 'setdefault') and (dotted(e.func.value) or '').startswith('self.'):
                    bad.append(short(e))
                    continue
            if isinstance(e, ast.Subscript) and (dotted(e.value) or '').startswith('self.'):
                bad.append(short(e))
                continue
            if isinstance(e, ast.IfExp):
                todo += [(e.body, n), (e.orelse, n)]
                continue
            if isinstance(e, ast.BoolOp):
                todo += [(v, n) for v in e.values]
                continue
            bad.append(short(e))
        memo = [b for b in bad if 'self.' in b]
        if bad and not memo:
            R.undecided(rid, f, c, f'{short(c)}: origin of the registered Route', f'`{bad[0]}` is neither Route(rule), self._match(..) nor a table of the router')
            continue
        R.ob(rid, f, c, not memo, text=f'{short(c)}: the registered Route is built by this call or is the one the tree holds', detail='' if not memo else
             f'the Route registered for the rule can be `{memo[0]}`, an object remembered from an earlier registration: it brings its method table along, so after '
             f'remove() and a new registration of the same rule the removed methods and handlers are back (GET answered by the removed handler, Allow lists old and new)',
             why=why, key_extra='fresh-route')


def check_pairing(P, R):
    cls_ = P.cls(f'{RR}:RadiRouter')
    # _add: radidict.add  <->  self.routes[...] =
    ad = cls_.methods['_add']
    g = ad.cfg
    adds = [g.node_of_stmt(c)[0] for c in walk_shallow(ad.node) if isinstance(c, ast.Call) and dotted(c.func) == 'self.radidict.add']
    idx = [n for n in g.nodes if n.kind == 'stmt' and isinstance(n.ast, ast.Assign) and any(
        isinstance(t, ast.Subscript) and dotted(t.value) == 'self.routes' for t in n.ast.targets)]
    R.require(adds, '_add: radidict.add not found')
    for a in adds:
        ok = bool(idx) and not g.can_reach(a, g.exit, avoid_nodes=idx, labels_skip=('exc',))
        R.ob('C11.d', ad, a.ast, ok, text='radidict.add <-> self.routes[pattern] = route', detail='' if ok else
             'a route inserted into the tree is not entered in the routes index on every normal path')
    names = [n for n in g.nodes if n.kind == 'stmt' and isinstance(n.ast, ast.Assign) and any(
        isinstance(t, ast.Subscript) and dotted(t.value) == 'self.named_routes' for t in n.ast.targets)]
    R.ob('C11.d', ad, names[0].ast if names else ad.node, bool(names), text='self.named_routes[name] = route', detail='' if names else 'names are not indexed', nontrivial=False)
    # add_hook
    ah = cls_.methods['add_hook']
    g = ah.cfg
    adds = [g.node_of_stmt(c)[0] for c in walk_shallow(ah.node) if isinstance(c, ast.Call) and dotted(c.func) == 'self.radidict.add_hooks']
    idx = [n for n in g.nodes if n.kind == 'stmt' and isinstance(n.ast, ast.Assign) and any(
        isinstance(t, ast.Subscript) and dotted(t.value) == 'self.hooks' for t in n.ast.targets)]
    R.require(adds, 'add_hook: radidict.add_hooks not found')
    for a in adds:
        ok = bool(idx) and not g.can_reach(a, g.exit, avoid_nodes=idx, labels_skip=('exc',))
        R.ob('C11.d', ah, a.ast, ok, text='radidict.add_hooks <-> self.hooks[pattern] = hooks', detail='' if ok else
             'a hook installed in the tree is not entered in the hooks index')
    # remove_hook
    rh = cls_.methods['remove_hook']
    g = rh.cfg
    rms = T.calls_to(rh, 'self.radidict.remove')
    R.require(rms, 'remove_hook: radidict.remove not found')
    for c in rms:
        n = g.node_of_stmt(c)[0]
        okk = any(k.arg == 'hooks_only' and is_const(k.value, True) for k in c.keywords)
        pops = [g.node_of_stmt(x)[0] for x in walk_shallow(rh.node) if isinstance(x, ast.Call) and dotted(x.func) in ('self.hooks.pop',)] + \
            [m for m in g.nodes if m.kind == 'stmt' and isinstance(m.ast, ast.Delete) and 'self.hooks' in src(m.ast)]
        ok = okk and bool(pops) and not g.can_reach(n, g.exit, avoid_nodes=pops, labels_skip=('exc',))
        same = all(src(x.args[0]) == src(c.args[0]) for x in walk_shallow(rh.node) if isinstance(x, ast.Call) and dotted(x.func) == 'self.hooks.pop')
        R.ob('C11.d', rh, c, ok and same, text='radidict.remove(pattern, hooks_only=True) <-> self.hooks.pop(pattern)', detail='' if ok and same else
             'removing a hook from the tree is not paired with removing it from the hooks index (or not hooks_only)')
    # remove
    rm = cls_.methods['remove']
    g, rd = rm.cfg, rm.rd
    rms = T.calls_to(rm, 'self.radidict.remove')
    R.require(rms, 'remove: radidict.remove not found')
    for c in rms:
        n = g.node_of_stmt(c)[0]
        def drops_route(a_):
            return (isinstance(a_, ast.Delete) and 'self.routes[' in src(a_)) or \
                any(isinstance(x, ast.Call) and dotted(x.func) == 'self.routes.pop' for x in walk_shallow(a_))
        route_rm = [m for m in g.nodes if (m.kind == 'stmt' and drops_route(m.ast)) or
                    # a loop that drops one index entry per item of a list stands for the removal of them all
                    (m.kind == 'for' and any(drops_route(s_) for s_ in m.ast.body))]
        ok = bool(route_rm) and not g.can_reach(n, g.exit, avoid_nodes=route_rm, labels_skip=('exc',))
        R.ob('C11.d', rm, c, ok, text='radidict.remove <-> routes index entry removed on every path', detail='' if ok else
             'a route removed from the tree stays in the routes index on some path', key_extra='routes')
        name_rm = [g.node_of_stmt(x)[0] for x in walk_shallow(rm.node) if isinstance(x, ast.Call) and dotted(x.func) == 'self._remove_named_routers']
        ok = bool(name_rm) and not g.can_reach(n, g.exit, avoid_nodes=name_rm, labels_skip=('exc',))
        R.ob('C11.d', rm, c, ok, text='radidict.remove <-> every name of the removed routes dropped on every path', detail='' if ok else
             'on some path (removal by name or by route object) other names registered for the removed route survive in '
             'named_routes: router[name] returns a route that no longer resolves',
             why='lookups by name and by rule agree with a freshly built router', key_extra='names')
    # ... and the other way round: whatever leaves the routes index has left the tree (removal by name / by route object included)
    tree_rm = [g.node_of_stmt(c)[0] for c in rms]

    def _drops(a_):
        return (isinstance(a_, ast.Delete) and 'self.routes[' in src(a_)) or any(isinstance(x, ast.Call) and dotted(x.func) == 'self.routes.pop' for x in walk_shallow(a_))
    for m in [m for m in g.nodes if m.kind == 'stmt' and m.ast is not None and _drops(m.ast)]:
        ok = not (g.can_reach(g.entry, m, avoid_nodes=tree_rm) and g.can_reach(m, g.exit, avoid_nodes=tree_rm, labels_skip=('exc',)))
        R.ob('C11.d', rm, m.ast, ok, text=f'`{short(m.ast)}` <-> the rule leaves the tree on every path through it', detail='' if ok else
             f'`{short(m.ast)}` drops the rule from the routes index on a path that never calls radidict.remove: the rule stays mounted - resolve() keeps dispatching to a '
             f'route that was removed (by name, or by its Route object)',
             why='removed routes are gone', key_extra='index-without-tree')
    # prefix removal: the names are dropped for exactly the set of patterns dropped from the routes index
    for comp in [x for x in walk_shallow(rm.node) if isinstance(x, (ast.ListComp, ast.For))]:
        pops_ = [c for c in ast.walk(comp) if (isinstance(c, ast.Call) and dotted(c.func) == 'self.routes.pop') or
                 (isinstance(c, ast.Delete) and 'self.routes[' in src(c))]
        if not pops_:
            continue
        it_ = comp.generators[0].iter if isinstance(comp, ast.ListComp) else comp.iter
        if not isinstance(it_, ast.Name):
            continue
        cn_ = g.node_of_stmt(comp)[0]
        name_calls = T.calls_to(rm, 'self._remove_named_routers')
        good = [g.node_of_stmt(c)[0] for c in name_calls if c.args and it_.id in names_loaded(c.args[0])]
        ok = bool(good) and not g.can_reach(cn_, g.exit, avoid_nodes=good, labels_skip=('exc',))
        R.ob('C11.d', rm, comp, ok, text=f'prefix removal: names dropped for the same pattern list `{it_.id}` that is popped from the routes index', detail='' if ok else
             f'after a prefix (wildcard) removal the name cleanup is not given the list of removed patterns `{it_.id}`: named routes under the prefix stay in '
             f'named_routes and router[name] returns a route that no longer resolves',
             why='lookups by name agree with a freshly built router', key_extra='prefix-names')
    # prefix removal: the registry is filtered by the very prefix the tree was cut at - the rule given to radidict.remove without its trailing `*`
    for c in [x for x in walk_shallow(rm.node) if isinstance(x, ast.Call) and call_attr(x) == 'startswith' and x.args]:
        ns_ = g.node_of_stmt(c)
        if not ns_ or not rms or not rms[0].args:
            continue
        tree_arg = rms[0].args[0]
        tn = g.node_of_stmt(rms[0])[0]
        a = c.args[0]
        # `p = p[:-1]` before the filter: follow the single definition
        at = ns_[0]
        hops = 0
        while isinstance(a, ast.Name) and hops < 4:
            ds = [d for d in rd.at(at, a.id)]
            if len(ds) != 1 or ds[0].value is None or ds[0].kind != 'assign':
                break
            a, at = ds[0].value, ds[0].node
            hops += 1
        okp = isinstance(a, ast.Subscript) and isinstance(a.slice, ast.Slice) and a.slice.lower is None and a.slice.step is None and src(a.slice.upper) == '-1' \
            and isinstance(a.value, ast.Name) and isinstance(tree_arg, ast.Name) and a.value.id == tree_arg.id and rd.same_defs(tn, at, tree_arg.id)
        if not okp and not (isinstance(a, ast.Subscript) or isinstance(a, ast.Call)):
            R.undecided('C11.d', rm, c, 'remove', f'the prefix `{short(a)}` the routes index is filtered by has no recogniser')
            continue
        R.ob('C11.d', rm, c, okp, text=f'`{short(c)}`: the index is filtered by the prefix the tree was cut at (`{src(tree_arg)}` without `*`)', detail='' if okp else
             f'the routes index is filtered by `{short(a)}`, the tree is cut at `{src(tree_arg)}` without its `*`: where the two differ, routes leave the index (and lose '
             f'their names) while they stay mounted in the tree, or the reverse',
             why='lookups by name and by rule agree with a freshly built router', key_extra='prefix-same-as-tree')
    # _remove_named_routers removes by pattern membership
    rn = cls_.methods['_remove_named_routers']
    ok = any((isinstance(x, ast.Call) and dotted(x.func) == 'self.named_routes.pop') or (isinstance(x, ast.Delete) and 'self.named_routes[' in src(x))
             for x in ast.walk(rn.node)) and 'pattern' in src(rn.node)
    R.ob('C11.d', rn, rn.node, ok, text='_remove_named_routers pops every name whose route pattern was removed', detail='' if ok else '_remove_named_routers does not drop names by pattern')
    # ... every name: the names are visited one by one (a route may be registered under several), not looked up through a map that keeps one name per pattern
    pops = [x for x in ast.walk(rn.node) if (isinstance(x, ast.Call) and dotted(x.func) == 'self.named_routes.pop' and x.args) or
            (isinstance(x, ast.Delete) and 'self.named_routes[' in src(x))]
    for px in pops:
        key_e = px.args[0] if isinstance(px, ast.Call) else px.targets[0].slice
        lps = [l for l in T.loops_of(px) if isinstance(l, ast.For)]
        per_name = False
        for l in lps:
            it_ = src(l.iter)
            tg_names = {x.id for x in ast.walk(l.target) if isinstance(x, ast.Name)}
            if 'self.named_routes' in it_ and isinstance(key_e, ast.Name) and key_e.id in tg_names:
                per_name = True
            # the names may be collected first: `names = [name for name, route in self.named_routes.items() if ..]; for name in names: del ..`
            ns_ = rn.cfg.nodes_for(l)
            itx = T.expand(rn, l.iter, ns_[0]) if ns_ else l.iter
            if isinstance(itx, (ast.ListComp, ast.GeneratorExp, ast.SetComp)) and len(itx.generators) == 1 and 'self.named_routes' in src(itx.generators[0].iter) \
                    and isinstance(itx.generators[0].target, ast.Tuple) and isinstance(itx.elt, ast.Name) and itx.elt.id == getattr(itx.generators[0].target.elts[0], 'id', None) \
                    and isinstance(key_e, ast.Name) and key_e.id in tg_names:
                per_name = True
        by_pattern_map = [x for x in ast.walk(rn.node) if isinstance(x, ast.DictComp) and 'pattern' in src(x.key) and 'named_routes' in src(x.generators[0].iter)]
        if not per_name and not by_pattern_map and not lps:
            R.undecided('C11.d', rn, px, '_remove_named_routers', 'the way the names to drop are enumerated has no recogniser')
            continue
        R.ob('C11.d', rn, px, per_name, text=f'`{short(px)}` for every (name, route) of the name table', detail='' if per_name else
             f'the names to drop are found through a map keyed by pattern ({short(by_pattern_map[0]) if by_pattern_map else "not by walking the name table"}), which keeps one name per '
             f'pattern: a route registered under two names (GET as user_show, POST as user_update) keeps a dangling name after it is removed - by-name lookup returns a route that '
             f'no longer resolves, and the name cannot be reused', why='lookups by name agree with a freshly built router', key_extra='names-one-by-one')
